"""paths2ids on a dirstate working tree selects ids that sit at the named path only in ANOTHER tree of the dirstate.

basis r1:   d1 (x-id)            other
m0 (pending merge parent): sub (x-id), d1 absent
working:    g (x-id, modified)

wt.paths2ids(['d1'], [m0_tree]) -> {x-id} although 'd1' is versioned neither in wt nor in m0.
"""
import os, shutil, sys, tempfile
scratch = tempfile.mkdtemp(prefix="c10third-", dir="/dev/shm")
os.environ["BRZ_HOME"] = os.environ["HOME"] = os.path.join(scratch, "home")
os.environ["BRZ_EMAIL"] = "C10 <c10@example.com>"
os.makedirs(os.environ["BRZ_HOME"])
import breezy
rc = 0
def main():
    global rc
    import breezy.bzr
    from breezy import tree as _mod_tree
    from breezy.bzr.inventorytree import InterInventoryTree
    from breezy.controldir import ControlDir, format_registry
    from breezy.workingtree import WorkingTree
    wt = ControlDir.create_standalone_workingtree(os.path.join(scratch, "wt"), format=format_registry.make_controldir("2a"))
    base = wt.basedir
    open(os.path.join(base, "sub"), "w").write("one\n")
    open(os.path.join(base, "other"), "w").write("o\n")
    wt.add(["sub", "other"], ids=[b"x-id", b"o-id"])
    wt.commit("r0", rev_id=b"r0")
    wt.branch.controldir.sprout(os.path.join(scratch, "o"), revision_id=b"r0")
    wt2 = WorkingTree.open(os.path.join(scratch, "o"))
    open(os.path.join(wt2.basedir, "other"), "w").write("o2\n")
    wt2.commit("m0", rev_id=b"m0")
    wt.rename_one("sub", "d1")
    wt.commit("r1", rev_id=b"r1")
    wt.merge_from_branch(wt2.branch)
    wt.rename_one("d1", "g")
    open(os.path.join(base, "g"), "w").write("changed\n")
    wt = WorkingTree.open(base)
    with wt.lock_read():
        print("parents", wt.get_parent_ids())
        m0 = wt.revision_tree(b"m0")
        with m0.lock_read():
            print("d1 in wt:", wt.path2id("d1"), " d1 in m0:", m0.path2id("d1"))
            ids = wt.paths2ids(["d1"], [m0], require_versioned=False)
            print("wt.paths2ids(['d1'], [m0]) =", ids)
            fast = _mod_tree.InterTree.get(m0, wt)
            f = [(c.file_id, c.path) for c in fast.iter_changes(specific_files=["d1"], require_versioned=False)]
            g = [(c.file_id, c.path) for c in InterInventoryTree(m0, wt).iter_changes(specific_files=["d1"], require_versioned=False)]
            print(type(fast).__name__, f)
            print("generic", g)
            if ids or f != g:
                rc = 1
with breezy.initialize(setup_ui=False):
    import breezy.ui
    breezy.ui.ui_factory = breezy.ui.SilentUIFactory()
    try:
        main()
    finally:
        shutil.rmtree(scratch, ignore_errors=True)
print("PROPERTY VIOLATED" if rc else "OK")
sys.exit(rc)
