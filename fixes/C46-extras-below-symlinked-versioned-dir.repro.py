"""C46: clean-tree deletes files OUTSIDE the tree through a versioned directory that was replaced by a symlink,
when that directory has a versioned SUBdirectory (extras() lstat()s only the last path component)."""
import os, shutil, sys, tempfile
scratch = tempfile.mkdtemp(dir="/dev/shm", prefix="c46sub-")
os.environ["BRZ_HOME"] = os.environ["HOME"] = os.path.join(scratch, "home")
os.environ["BRZ_EMAIL"] = "Demo <demo@example.com>"
os.makedirs(os.environ["BRZ_HOME"])
import breezy
breezy.initialize(setup_ui=False)
import breezy.bzr  # noqa
from breezy import controldir, ui
from breezy.clean_tree import clean_tree
from breezy.controldir import ControlDir
ui.ui_factory = ui.SilentUIFactory()
rc = 0
try:
    t = os.path.join(scratch, "tree"); ext = os.path.join(scratch, "external")
    os.mkdir(t)
    wt = ControlDir.create_standalone_workingtree(t, format=controldir.format_registry.make_controldir("bzr"))
    os.makedirs(os.path.join(t, "data", "sub"))
    for p in ("data/a.txt", "data/sub/b.txt"):
        open(os.path.join(t, p), "w").write("versioned\n")
    wt.add(["data", "data/a.txt", "data/sub", "data/sub/b.txt"])
    wt.commit("initial")
    shutil.move(os.path.join(t, "data"), ext)            # relocate the bulky directory ...
    os.symlink(ext, os.path.join(t, "data"))             # ... and leave a symlink
    open(os.path.join(ext, "sub", "precious.dat"), "w").write("never part of the tree\n")
    os.mkdir(os.path.join(ext, "sub", "more")); open(os.path.join(ext, "sub", "more", "deep.dat"), "w").write("x\n")
    with wt.lock_read():
        print("extras:", sorted(wt.extras()))
    clean_tree(t, unknown=True, no_prompt=True)
    for p in ("sub/precious.dat", "sub/more/deep.dat"):
        if not os.path.exists(os.path.join(ext, p)):
            print("DELETED OUTSIDE THE TREE:", os.path.join(ext, p)); rc = 1
finally:
    shutil.rmtree(scratch, ignore_errors=True)
print("ok" if rc == 0 else "C46 VIOLATION")
sys.exit(rc)
