"""Small executable reference models (DESIGN 2.2).

MWorld: a working tree as an abstract versioned file system:
  ents    file_id -> Ent          versioned entries (root id ROOT)
  unv     path -> (kind, content|target, exec)   unversioned things on disk
  basis   file_id -> Ent          entries of the last commit (None before first)
The same op dicts (vf.gen) are applied to the model and to the real tree.
"""
import copy

ROOT = "ROOT"


class Ent:
    __slots__ = ("parent", "name", "kind", "content", "exec", "missing", "kc")

    def __init__(self, parent, name, kind, content=None, exec_=False, missing=False, kc=False):
        self.parent = parent
        self.name = name
        self.kind = kind  # 'file' | 'directory' | 'symlink'
        self.content = content  # bytes for file, str target for symlink, None for directory
        self.exec = bool(exec_) if kind == "file" else False
        self.missing = missing
        # kind changed on disk since the last commit: the tree's own metadata still has the
        # old kind, so such a directory is not yet a legal target for add / rename
        self.kc = kc

    def key(self):
        return (self.parent, self.name, self.kind, self.content, self.exec)

    def copy(self):
        return Ent(self.parent, self.name, self.kind, self.content, self.exec, self.missing, self.kc)

    def __repr__(self):
        return "Ent(%r,%r,%s,%r,x=%s%s)" % (self.parent, self.name, self.kind, self.content, self.exec, ",missing" if self.missing else "")


def _inside(d, p):
    return d == "" or p == d or p.startswith(d + "/")


class MWorld:
    def __init__(self):
        self.ents = {ROOT: Ent(None, "", "directory")}
        self.unv = {}
        self.basis = None
        self.next_id = 0

    def clone(self):
        return copy.deepcopy(self)

    # ---- views
    def path(self, fid, ents=None):
        ents = self.ents if ents is None else ents
        parts = []
        while fid != ROOT:
            e = ents[fid]
            parts.append(e.name)
            fid = e.parent
        return "/".join(reversed(parts))

    def paths(self, ents=None):
        """path -> id for versioned entries."""
        ents = self.ents if ents is None else ents
        return {self.path(i, ents): i for i in ents}

    def id_at(self, path):
        return self.paths().get(path)

    def children(self, fid):
        return [i for i, e in self.ents.items() if e.parent == fid]

    def descendants(self, fid):
        out, todo = [], [fid]
        while todo:
            x = todo.pop()
            for c in self.children(x):
                out.append(c)
                todo.append(c)
        return out

    def disk(self):
        """Expected on-disk content: path -> (kind, content|target, exec)."""
        d = {}
        for i, e in self.ents.items():
            if i == ROOT or e.missing:
                continue
            d[self.path(i)] = (e.kind, e.content, e.exec)
        for p, v in self.unv.items():
            d[p] = v
        return d

    def exists_on_disk(self, path):
        return path == "" or path in self.disk()

    def tree_view(self, ents=None):
        """path -> (kind, content, exec, id) of versioned entries (root excluded)."""
        ents = self.ents if ents is None else ents
        out = {}
        for i, e in ents.items():
            if i == ROOT:
                continue
            out[self.path(i, ents)] = (e.kind, e.content, e.exec, i)
        return out

    def new_id(self, name):
        # never hand out an id the working tree or the basis already uses (a world rebuilt from a real tree restarts
        # its counter; a collision is a harness artefact: DuplicateFileId on a legal add)
        while True:
            self.next_id += 1
            i = "id%d-%s" % (self.next_id, "".join(c for c in name if c.isalnum())[:8])
            if i not in self.ents and not (self.basis and i in self.basis):
                return i

    def changes(self):
        """Canonical change set working vs basis: {id: (old_key|None, new_key|None)}."""
        b = self.basis or {ROOT: Ent(None, "", "directory")}
        out = {}
        for i in set(b) | set(self.ents):
            o = b.get(i)
            n = self.ents.get(i)
            ok = o.key() if o else None
            nk = None
            if n is not None:
                nk = n.key() if not n.missing else (n.parent, n.name, None, None, False)
            if ok != nk:
                out[i] = (ok, nk)
        return out

    # ---- legality helpers used by the generator
    def versioned_dirs(self):
        return [i for i, e in self.ents.items() if e.kind == "directory" and not e.missing and not e.kc]

    def free(self, path):
        """Nothing versioned or on disk at path."""
        return path not in self.paths() and path not in self.unv

    # ---- applying ops
    def apply(self, op):
        k = op["op"]
        getattr(self, "_op_" + k)(op)

    def _op_mkfile(self, op):
        pid = self.id_at(op["path"])
        if pid is not None and self.ents[pid].missing:  # recreate a missing versioned file
            e = self.ents[pid]
            e.missing = False
            e.content = op["content"]
            e.exec = False
            return
        self.unv[op["path"]] = ("file", op["content"], False)

    def _op_mkdir(self, op):
        self.unv[op["path"]] = ("directory", None, False)

    def _op_symlink(self, op):
        self.unv[op["path"]] = ("symlink", op["target"], False)

    def _op_add(self, op):
        p = op["path"]
        kind, content, ex = self.unv.pop(p)
        parent, _, name = p.rpartition("/")
        self.ents[op["id"]] = Ent(self.id_at(parent), name, kind, content, ex)

    def _op_edit(self, op):
        p = op["path"]
        i = self.id_at(p)
        if i is not None:
            self.ents[i].content = op["content"]
        else:
            k, _, ex = self.unv[p]
            self.unv[p] = (k, op["content"], ex)

    def _op_chmod(self, op):
        p = op["path"]
        i = self.id_at(p)
        if i is not None:
            self.ents[i].exec = op["exec"]
        else:
            k, c, _ = self.unv[p]
            self.unv[p] = (k, c, op["exec"])

    def _move_unv(self, src, dst):
        for p in list(self.unv):
            if p != src and _inside(src, p):
                self.unv[dst + p[len(src):]] = self.unv.pop(p)

    def _op_rename(self, op):
        src, dst = op["src"], op["dst"]
        i = self.id_at(src)
        self._move_unv(src, dst)
        parent, _, name = dst.rpartition("/")
        np = self.id_at(parent)
        e = self.ents[i]
        e.parent, e.name = np, name

    def _op_remove(self, op):
        """remove --force: unversion and delete from disk, whole subtree incl. unversioned."""
        p = op["path"]
        i = self.id_at(p)
        for d in self.descendants(i) + [i]:
            del self.ents[d]
        for q in list(self.unv):
            if _inside(p, q):
                del self.unv[q]

    def _op_unversion(self, op):
        """remove --keep: subtree becomes unversioned, files stay."""
        p = op["path"]
        i = self.id_at(p)
        def gone(d):
            # missing itself, or below a directory that vanished from disk (delete_disk of a whole directory marks
            # only the directory; its children are gone with it)
            while d is not None and d in self.ents:
                if self.ents[d].missing:
                    return True
                d = self.ents[d].parent
            return False
        for d in self.descendants(i) + [i]:
            e = self.ents[d]
            if not gone(d):
                self.unv[self.path(d)] = (e.kind, e.content, e.exec)
        for d in self.descendants(i) + [i]:
            del self.ents[d]

    def _op_delete_disk(self, op):
        i = self.id_at(op["path"])
        if i is not None:
            self.ents[i].missing = True
        else:
            del self.unv[op["path"]]

    def _op_kindchange(self, op):
        i = self.id_at(op["path"])
        e = self.ents[i]
        e.kind = op["kind"]
        e.content = op.get("content")
        e.exec = False
        e.kc = True

    def _op_commit(self, op):
        # commit of everything: missing entries (and their subtrees) are recorded as deleted
        for i in [i for i, e in self.ents.items() if e.missing]:
            if i in self.ents:
                for d in self.descendants(i) + [i]:
                    self.ents.pop(d, None)
        for e in self.ents.values():
            e.kc = False
        self.basis = {i: e.copy() for i, e in self.ents.items()}

    def _op_revert(self, op):
        """revert everything (no backups considered here; callers snapshot disk separately)."""
        raise NotImplementedError

    def _op_reopen(self, op):
        pass
