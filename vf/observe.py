"""Observers (DESIGN 2.3): snapshots of disk, trees, repositories, branches."""
import os
import stat


def snap_disk(root, skip=(".bzr", ".git")):
    """{relpath: (kind, bytes|target|None, exec)} for everything under root except control dirs."""
    out = {}
    root = root.rstrip("/")
    for dp, dns, fns in os.walk(root):
        rel = os.path.relpath(dp, root)
        rel = "" if rel == "." else rel
        if rel == "":
            dns[:] = [d for d in dns if d not in skip]
        for d in list(dns):
            p = os.path.join(dp, d)
            r = (rel + "/" + d) if rel else d
            if os.path.islink(p):
                out[r] = ("symlink", os.readlink(p), False)
                dns.remove(d)
            else:
                out[r] = ("directory", None, False)
        for f in fns:
            p = os.path.join(dp, f)
            r = (rel + "/" + f) if rel else f
            st = os.lstat(p)
            if stat.S_ISLNK(st.st_mode):
                out[r] = ("symlink", os.readlink(p), False)
            elif stat.S_ISREG(st.st_mode):
                with open(p, "rb") as fh:
                    out[r] = ("file", fh.read(), bool(st.st_mode & 0o100))
            else:
                out[r] = ("other", None, False)
    return out


def snap_tree(tree, ids=True, root_as=None):
    """{path: (kind, bytes|target|None, exec, file_id|None)} through the public Tree API.

    Versioned entries only, root excluded.  Missing working-tree files get kind None.
    """
    out = {}
    with tree.lock_read():
        use_ids = ids and getattr(tree, "supports_file_ids", False)
        for path, ie in tree.iter_entries_by_dir():
            if path == "":
                continue
            kind = ie.kind
            fid = None
            if use_ids:
                fid = ie.file_id.decode("utf-8", "replace")
            content, ex = None, False
            try:
                if kind == "file":
                    content = tree.get_file_text(path)
                    ex = bool(tree.is_executable(path))
                elif kind == "symlink":
                    content = tree.get_symlink_target(path)
            except (FileNotFoundError, OSError) as e:
                kind = None
                content = None
            except Exception as e:
                if type(e).__name__ in ("NoSuchFile",):
                    kind = None
                else:
                    raise
            out[path] = (kind, content, ex, fid)
    return out


def strip_ids(snap):
    return {p: v[:3] for p, v in snap.items()}


def norm_changes(tree, basis, **kw):
    """Canonical change set of tree.iter_changes(basis): set of tuples."""
    out = set()
    with tree.lock_read(), basis.lock_read():
        for c in tree.iter_changes(basis, **kw):
            fid = getattr(c, "file_id", None)
            out.add((
                fid.decode("utf-8", "replace") if isinstance(fid, bytes) else fid,
                c.path, c.changed_content, c.versioned, c.parent_id if not isinstance(c.parent_id[0], bytes) and not isinstance(c.parent_id[1], bytes) else tuple(x.decode() if x else x for x in c.parent_id),
                c.name, c.kind, c.executable,
            ))
    return out


def check_repo(repo):
    """Repository.check() must not raise and must report nothing wrong.

    Returns list of problem strings (empty = clean)."""
    problems = []
    try:
        with repo.lock_read():
            res = repo.check(None, check_repo=True)
    except Exception as e:
        return ["check raised %r" % (e,)]
    for attr in ("inconsistent_parents", "unreferenced_versions"):
        v = getattr(res, attr, None)
        if v:
            problems.append("%s=%r" % (attr, sorted(v)[:5] if hasattr(v, "__iter__") else v))
    for attr in ("missing_inventory_sha_cnt", "missing_revision_cnt"):
        v = getattr(res, attr, 0)
        if v:
            problems.append("%s=%r" % (attr, v))
    g = getattr(res, "ghosts", None)
    return problems


def snap_repo(repo, testaments=True):
    """Logical content of a repository: revisions with testament, key sets."""
    from breezy.bzr.testament import StrictTestament3, Testament

    out = {"revisions": {}, "keys": {}}
    with repo.lock_read():
        revids = sorted(repo.all_revision_ids())
        for r in revids:
            rev = repo.get_revision(r)
            d = {"parents": list(rev.parent_ids)}
            if testaments:
                try:
                    d["testament"] = Testament.from_revision(repo, r).as_short_text()
                    d["testament3"] = StrictTestament3.from_revision(repo, r).as_short_text()
                except Exception as e:
                    d["testament_error"] = repr(e)
            out["revisions"][r] = d
        for name in ("revisions", "inventories", "texts", "signatures", "chk_bytes"):
            vf = getattr(repo, name, None)
            if vf is not None:
                try:
                    out["keys"][name] = sorted(vf.keys())
                except Exception as e:
                    out["keys"][name] = "ERR %r" % (e,)
    return out


def listing(path):
    """Sorted recursive listing with file sizes (for byte-identical directory checks)."""
    out = []
    for dp, dns, fns in os.walk(path):
        dns.sort()
        for f in sorted(fns):
            p = os.path.join(dp, f)
            out.append((os.path.relpath(p, path), os.path.getsize(p)))
        for d in dns:
            out.append((os.path.relpath(os.path.join(dp, d), path) + "/", 0))
    return sorted(out)


def snap_branch(branch):
    with branch.lock_read():
        d = {"last": branch.last_revision_info()}
        try:
            d["tags"] = dict(branch.tags.get_tag_dict())
        except Exception as e:
            d["tags"] = "ERR %r" % (e,)
        try:
            d["parent"] = branch.get_parent()
        except Exception:
            d["parent"] = None
        try:
            d["bound"] = branch.get_bound_location()
        except Exception:
            d["bound"] = None
    return d
