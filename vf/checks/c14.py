"""C14 - transform previews match their applied result; conflict resolution terminates.

One case = one generated working tree (committed content + pending changes, bzr 2a or git) and one
random TreeTransform script over <= 8 trans ids.  The script is executed on the real
`wt.transform()` object, `resolve_conflicts` runs under a pass counter, the preview tree is
snapshotted through the public Tree API *before* `apply()`, and the same snapshot function is run on
the working tree (live object and re-opened) *after* `apply()`.  The same script is replayed on a
`TransformPreview` (`preview_transform()`) of an identical copy of the tree.
"""
import os
import shutil
import tempfile
import traceback

from vf import boot, gen, observe
from vf.checks import _c14_ref as R
from vf.checks import _c14_script as S

ID = "C14"
LEVEL = "exploration"
TECHNIQUE = ("differential monitor: snapshot of tt.get_preview_tree() (paths, kinds, bytes, exec bits, file ids, iter_changes) taken before apply "
             "vs the same snapshot of the working tree after apply; pass-counting wrapper around conflict_pass; before/after tree equality on MalformedTransform")
LEVEL_TEXT = ("generated transform scripts (create/delete/adjust_path/version/unversion/set_executability/cancel_*) incl. parent loops, duplicate names, missing, "
              "non-directory and unversioned parents, on generated trees with committed and pending content, for InventoryTreeTransform/TransformPreview (2a) and "
              "GitTreeTransform/GitTransformPreview; every execution judged: resolver terminates within its bound with no raw conflicts or MalformedTransform + untouched tree; "
              "preview == applied tree")
RULE = ("script = 3-12 (quick) / 3-20 (thorough) ops over <= 8 trans-id slots (existing versioned/unversioned/missing paths via trans_id_tree_path, new ids via new_*/create_path/assign_id) "
        "on a tree built by vf.gen (6-14 ops, commit, 0-6 pending ops; sometimes a merged multi-branch history); non-trivial = >= 3 accepted ops and "
        "(at least one raw conflict met by the resolver, or an applied transform changing >= 2 paths); distinct = format + op-kind sequence + conflict-kind trace + outcome class")
CASES = {"quick": 400, "thorough": 9000}
BUDGET_S = {"quick": 20, "thorough": 700}
# a case costs ~0.1 s of CPU, a worker ~1.5 s to boot: on a machine where this process group only gets about one core, six workers
# get through more quick cases than sixteen
SHARDS = {"quick": 6, "thorough": 16}
# floors sized for a heavily loaded shared machine (about 100-150 cases fit the quick budget at load 100-250 on 16 cores) and for the unrepaired tree,
# where many 2a cases end in a resolver exception before a preview exists
MIN_EVALS = {"quick": 60, "thorough": 2000}
FLOORS = {"quick": {"resolve_runs": 60, "cmp_preview_applied": 12, "cmp_preview_reopened": 12, "cmp_changes_basis": 5,
                    "cmp_tt_iter_changes": 3, "cmp_transform_preview": 5, "malformed_tree_unchanged": 2, "resolver_passes": 40, "pass_progress": 25,
                    "raw_conflict_reference": 100, "raw_ref_duplicate": 10},
          "thorough": {"resolve_runs": 2000, "cmp_preview_applied": 400, "cmp_preview_reopened": 400, "cmp_changes_basis": 150,
                       "cmp_tt_iter_changes": 100, "cmp_transform_preview": 150, "malformed_tree_unchanged": 60, "resolver_passes": 1500, "pass_progress": 800,
                       "raw_conflict_reference": 4000, "raw_ref_duplicate": 400, "raw_ref_parent_loop": 100, "raw_ref_missing_parent": 50}}
ASSUMPTIONS = [
    "immediate refusals of wrong API use while building the script (DuplicateKey, KeyError, ValueError, CantMoveRoot, OS-level EEXIST/EISDIR on a second create) are counted, not judged; "
    "any other exception while scheduling an op abandons the case (counted as op-exception)",
    "input class: the tree root keeps being a directory (no new contents for it); an entry that keeps its tree file id is not given a second one without unversion_file first; "
    "start trees with a self-referential symlink (every stat gives ELOOP) are discarded",
    "NoFinalPath (and the KeyError of final_parent on an id that has no parent at all) is the documented refusal for scripts that use a nameless trans id from assign_id(); "
    "the tree must then be untouched",
    "git mode: paths not ids; directories are not compared (empty directories are not versioned); iter_changes is compared per path, a rename may show as delete+add",
    "TransformPreview is compared with the applied result only when it met the same refusals and the same conflict trace as the TreeTransform "
    "(its docstring: it ignores unversioned files of the input tree); file ids fabricated by a resolver are masked in that comparison",
    "the inventory kind of an entry is compared only when the file is missing on disk; attributes of the non-versioned side of an iter_changes entry are not compared; "
    "changed_content may over-report (new contents identical to old), only under-reporting is judged",
    "progress rule: a resolution pass that leaves the transform's scheduled changes exactly as they were, while conflicts that have a resolver are present "
    "(other than a parent loop through entries the transform itself created), is reported as resolve:no-progress - the ten-pass bound would end it as MalformedTransform, "
    "but a resolver that does not act is the defect the statement's 'conflict resolution' clause is about",
]

CLEAN_REFUSALS = ("DuplicateKey", "KeyError", "ValueError", "CantMoveRoot", "FileExistsError", "IsADirectoryError", "DeadSlot")
# KeyError is the documented answer of the cancel_* calls and of set_executability(None) on an id that has nothing to cancel.  From the
# path-changing ops it comes out of the limbo bookkeeping (DiskTreeTransform.adjust_path updates _limbo_children after the move was
# recorded): the transform is half updated then, so the case is abandoned like after any other scheduling error.
NO_KEYERROR_REFUSAL = ("adjust_path", "limbo_chain", "shadow", "tree_path_move", "new_file", "new_directory", "new_symlink", "create_path")
MAX_PASSES = 10


def worker_init(tier):
    # TransformPreview makes its limbo with tempfile.mkdtemp(): keep it on the harness scratch, not /tmp
    tempfile.tempdir = boot.scratch_root()
    os.environ["TMPDIR"] = boot.scratch_root()


# ------------------------------------------------------------------ observation

class PreviewApiError(Exception):
    def __init__(self, api, path, exc):
        Exception.__init__(self, "%s(%r) raised %r" % (api, path, exc))
        self.api = api
        self.exc = exc


_MISSING = ("NoSuchFile", "FileNotFoundError", "NotADirectoryError")


def tree_view(tree, git, strict):
    """{path: {aspect: value}} of the versioned entries through the public Tree API (+ root id).

    strict=True (preview trees): an API call that raises anything but "no such file" is reported as
    PreviewApiError; strict=False: propagate.
    """
    out = {}
    root_id = None
    rec = {}
    tree_view.recorded_exec = rec
    stored = {}
    tree_view.stored_kinds = stored  # path -> kind the inventory / index records (directories included, also for git)

    def call(api, path, *a):
        try:
            return getattr(tree, api)(path, *a)
        except Exception as e:
            if type(e).__name__ in _MISSING:
                return ("<missing>", )
            if strict:
                raise PreviewApiError(api, path, e) from e
            raise

    with tree.lock_read():
        try:
            entries = list(tree.iter_entries_by_dir())
        except Exception as e:
            if strict:
                raise PreviewApiError("iter_entries_by_dir", None, e) from e
            raise
        for path, ie in entries:
            if path == "":
                root_id = getattr(ie, "file_id", None)
                continue
            stored[path] = ie.kind
            if git and ie.kind == "directory":
                continue
            d = {}
            if not git:
                d["file_id"] = ie.file_id.decode("utf-8", "replace") if ie.file_id is not None else None
                d["parent_id"] = ie.parent_id.decode("utf-8", "replace") if ie.parent_id is not None else None
            kind = call("kind", path)
            if kind == ("<missing>", ):
                kind = None
            d["kind"] = kind
            if kind is None:
                # missing on disk: the recorded kind is all there is.  (For present files the inventory kind of a working tree is only
                # refreshed by commit, so it is not part of "the kind the tree shows".)
                d["inv_kind"] = ie.kind
            if kind == "file":
                d["content"] = call("get_file_text", path)
                d["exec"] = bool(call("is_executable", path))
                if not strict:
                    # what the tree *records* (inventory / index), kept out of the view comparison (a preview has no record)
                    rec[path] = bool(getattr(ie, "executable", False))
            elif kind == "symlink":
                d["target"] = call("get_symlink_target", path)
            if not git:
                pid = call("path2id", path)
                d["path2id"] = pid.decode("utf-8", "replace") if isinstance(pid, bytes) else pid
            else:
                d["is_versioned"] = call("is_versioned", path)
            out[path] = d
    if isinstance(root_id, bytes):
        root_id = root_id.decode("utf-8", "replace")
    return out, (None if git else root_id)


def canon_changes(changes, git, root_ids=()):
    """Canonical form of an iter_changes() result: dict key -> tuple, order-free.

    bzr: keyed by file id.  git: keyed by path, renames split into delete + add, directories dropped.
    """
    out = {}

    def ex(kind, e):
        return bool(e) if kind == "file" else False

    def rid(x):
        if isinstance(x, bytes):
            x = x.decode("utf-8", "replace")
        return "ROOT" if x in root_ids else x

    for c in changes:
        k0, k1 = c.kind
        if git:
            p0, p1 = c.path
            v0, v1 = c.versioned
            old = (k0, ex(k0, c.executable[0])) if (v0 and p0 is not None and k0 != "directory") else None
            new = (k1, ex(k1, c.executable[1])) if (v1 and p1 is not None and k1 != "directory") else None
            if p0 == p1:
                if old is None and new is None:
                    continue
                if old == new and not c.changed_content:
                    continue
                out[p0] = (old, new, bool(c.changed_content) if (old and new) else None)
            else:
                if old is not None:
                    out.setdefault(p0, (old, None, None))
                if new is not None:
                    out[p1] = (out[p1][0] if p1 in out else None, new, None)
            continue
        fid = rid(c.file_id)
        v = tuple(bool(x) for x in c.versioned)

        def side(pair, f=lambda x: x):
            # the generic InterTree reports None for the attributes of a side where the id is not versioned, the transform reports
            # what is on disk there: the property only speaks about versioned entries
            return tuple(f(x) if v[i] else None for i, x in enumerate(pair))

        both = v[0] and v[1]
        out[fid] = (side(c.path), v, side(c.parent_id, rid), side(c.name), side((k0, k1)),
                    side((ex(k0, c.executable[0]), ex(k1, c.executable[1]))), bool(c.changed_content) if both else None)
    return out


def diff_dicts(a, b, na, nb, limit=4):
    out = []
    for k in sorted(set(a) | set(b), key=repr):
        if a.get(k) != b.get(k):
            out.append({"key": k, na: repr(a.get(k))[:300], nb: repr(b.get(k))[:300]})
            if len(out) >= limit:
                break
    return out


ASPECTS = ("kind", "inv_kind", "file_id", "path2id", "parent_id", "is_versioned", "content", "target", "exec")


def view_diff_class(pv, ap):
    """Which aspect of two tree views differs first (mechanism part of the failure key)."""
    if set(pv) != set(ap):
        return "paths"
    for aspect in ASPECTS:
        for p in pv:
            if pv[p].get(aspect) != ap[p].get(aspect):
                return aspect
    return "other"


def view_diff_labels(pv, ap, before_view, feats, ambiguous=()):
    """Mechanism labels for every difference between a preview view and the applied view.

    feats: path -> {"renamed": bool, "new_contents": bool, "new_exec": bool} read from the transform when the preview
    was taken; used ONLY to name the mechanism in the failure key, never for the verdict.
    Returns {label: [paths]}.
    """
    out = {}

    def add(label, p):
        out.setdefault(label, []).append(p)

    for p in sorted(set(pv) | set(ap)):
        a, b = pv.get(p), ap.get(p)
        if a == b:
            continue
        if p in ambiguous:
            # a deleted + unversioned trans id and a live one share this final path; the preview's path lookup may pick the dead one
            add("two-trans-ids-one-final-path", p)
            continue
        if a is None:
            bv = before_view.get(p)
            if b.get("kind") is None and bv is not None and bv.get("kind") is None:
                add("versioned-file-missing-on-disk-not-listed", p)
            else:
                add("path-only-in-applied", p)
            continue
        if b is None:
            add("path-only-in-preview", p)
            continue
        f = feats.get(p) or {}
        moved_untouched = f.get("renamed") and not f.get("new_contents")
        for aspect in ASPECTS:
            if a.get(aspect) == b.get(aspect):
                continue
            if aspect in ("content", "target") and moved_untouched:
                add("%s-of-moved-file-read-at-final-path" % aspect, p)
            elif aspect == "exec" and (f.get("renamed") or f.get("new")) and not f.get("new_exec"):
                # no executability scheduled: the preview asks the underlying tree, and asks it about the *final* path
                add("exec-of-moved-file-read-at-final-path" if f.get("renamed") else "exec-of-new-file-read-from-tree-at-final-path", p)
            else:
                add(aspect, p)
    return out


def full_state(path, git):
    """Everything that must not change when a transform is abandoned."""
    from breezy.workingtree import WorkingTree

    wt = WorkingTree.open(path)
    view, root = tree_view(wt, git, False)
    stored = dict(tree_view.stored_kinds)
    with wt.lock_read():
        basis = wt.basis_tree()
        with basis.lock_read():
            ch = canon_changes(wt.iter_changes(basis), git, (root,))
        conflicts = sorted(str(c) for c in wt.conflicts())
        parents = list(wt.get_parent_ids())
    return {"disk": observe.snap_disk(path), "view": view, "root": root, "changes": ch, "conflicts": conflicts, "parents": parents, "stored": stored}


def state_diff(a, b):
    for k in ("disk", "view", "changes"):
        if a[k] != b[k]:
            return k, diff_dicts(a[k], b[k], "before", "after")
    for k in ("root", "conflicts", "parents"):
        if a[k] != b[k]:
            return k, [{"before": repr(a[k])[:300], "after": repr(b[k])[:300]}]
    return None, None


# ------------------------------------------------------------------ workload

def build_start_tree(ctx, rng, fmt):
    """A working tree with committed content plus pending changes; returns its path and a log."""
    from breezy import errors
    from breezy.workingtree import WorkingTree

    names = gen.Names(ctx.tier)
    W = dict(gen.DEFAULT_WEIGHTS)
    W.update({"add": 16, "mkfile": 8, "mkdir": 5, "symlink": 2, "chmod": 10})
    log = []
    if fmt == "2a" and rng.random() < 0.12:
        h = gen.build_history(ctx, rng, fmt, nrevs=rng.randint(2, 4), nbranches=2, names=names, weights=W)
        name = rng.choice(sorted(h.trees))
        p = h.trees[name]
        wt = WorkingTree.open(p)
        log.append({"history": h.log[-12:]})
        ctx.hist("start:history")
    else:
        d = ctx.tmp("wt")
        p = os.path.join(d, "t")
        wt = gen.make_tree(p, fmt)
        gen.random_delta(rng, wt, names, rng.randint(6, 14), W, log)
        try:
            wt.commit("base")
        except errors.PointlessCommit:
            pass
        log.append({"commit": "base"})
        ctx.hist("start:fresh")
    gen.random_delta(rng, wt, names, rng.randint(0, 6), None, log)
    return p, log


def candidate_paths(rng, state):
    """Existing paths worth a trans id: versioned (present / missing), unversioned, plus hostile extras."""
    paths = set(state["view"]) | set(state["disk"])
    out = sorted(paths)
    rng.shuffle(out)
    out = out[:10]
    if rng.random() < 0.25:
        out.append("")  # the tree root itself
    if rng.random() < 0.3:
        out.append("nosuch")
    dirs = [q for q in out if q and state["disk"].get(q, (None,))[0] == "directory"]
    if rng.random() < 0.15 and dirs:
        out.append(rng.choice(dirs) + "/deep")  # a path that does not exist inside an existing directory
    return out


def tt_state(tt):
    """Opaque fingerprint of the transform's scheduled changes (progress detection only)."""
    vers = getattr(tt, "_new_id", None)
    if vers is None:
        vers = sorted(getattr(tt, "_versioned", ()))
    else:
        vers = sorted(vers.items())
    return repr((sorted(tt._new_name.items()), sorted(tt._new_parent.items()), sorted(tt._new_contents.items()),
                 sorted(tt._removed_contents), sorted(tt._new_executability.items()), sorted(tt._removed_id), vers))


class Resolution:
    def __init__(self):
        self.passes = []  # per pass: sorted list of canonical conflicts
        self.kinds = []  # per pass: sorted conflict kinds
        self.stalled = None
        self.actions = []


def canon_conflicts(tt, ids, conflicts):
    rev = {t: i for i, t in enumerate(ids) if t is not None}

    def ref(x):
        if isinstance(x, str) and (x.startswith("new-") or x == tt.root):
            if x == tt.root:
                return "root"
            if x in rev:
                return "s%d" % rev[x]
            p = tt.tree_path(x)
            return "p:%s" % p if p is not None else "?"
        return x

    return sorted(tuple(ref(x) for x in c) for c in conflicts)


def check_raw(ctx, tt, git, label, when):
    """Oracle on the resolver's input: find_raw_conflicts() against the documented definitions (see _c14_ref).

    Both sides are taken at a fixpoint of the trans-id universe (asking for an entry's parent can register the parent directory).
    Returns the Fact table, or None when the transform cannot be described (nameless ids ...).
    """
    try:
        for _ in range(5):
            n = len(R.universe(tt))
            conflicts = tt.find_raw_conflicts()
            fs = R.facts(tt)
            if len(R.universe(tt)) == n:
                break
        ref = R.reference_conflicts(tt, fs, git)
    except (KeyboardInterrupt, SystemExit):
        raise
    except Exception as e:
        ctx.hist("raw-reference-skipped:%s:%s" % (label, type(e).__name__))
        return None
    ctx.count("raw_conflict_reference")
    for k in ref:
        if k != "duplicate-groups" and ref[k]:
            ctx.count("raw_ref_" + k.replace(" ", "_"), len(ref[k]))
    for suffix, msg in R.compare(ref, R.reported(conflicts), fs):
        ctx.fail("raw-conflicts:%s:%s" % (label.replace("-tp", ""), suffix), "[%s, %s] %s" % (label, when, msg),
                 {"reported": repr(conflicts)[:600], "entries": {t: (f.parent, f.name, f.kind, f.versioned, f.tree_path) for t, f in list(fs.items())[:24]}})
    return fs


def run_resolve(ctx, tt, ids, res, label, git=False):
    """resolve_conflicts(tt) under a pass counter.  Returns ('ok', raw) | ('malformed', exc); other exceptions propagate."""
    from breezy import transform as T

    def pass_func(t, conflicts):
        if len(res.passes) >= MAX_PASSES:
            ctx.fail("resolve:does-not-terminate:%s" % label, "more than %d resolution passes" % MAX_PASSES,
                     {"last_conflicts": repr(conflicts)[:600]})
            raise _Abort()
        check_raw(ctx, t, git, label, "pass %d" % (len(res.passes) + 1))
        res.passes.append(canon_conflicts(t, ids, conflicts))
        kinds = sorted({c[0] for c in conflicts})
        res.kinds.append(kinds)
        for c in conflicts:
            ctx.hist("conflict:%s:%s" % (label, c[0]))
        before = tt_state(t)
        ctx.count("resolver_passes")
        new = T.conflict_pass(t, conflicts)
        for a in new:
            ctx.hist("action:%s:%s/%s" % (label, a[0], a[1]))
            res.actions.append((a[0], a[1]))
        if before == tt_state(t) and res.stalled is None:
            # a whole pass changed nothing: every later pass will see the same conflicts.  Conflicts the resolvers are documented
            # to leave alone do not count: kinds without a resolver, and a parent loop whose member was created by this transform
            # (there is no earlier location to move it back to).
            live = sorted({c[0] for c in conflicts if c[0] in T.CONFLICT_RESOLVERS
                           and not (c[0] == "parent loop" and t.tree_path(c[1]) is None)})
            if live:
                res.stalled = live
        return new

    try:
        raw = T.resolve_conflicts(tt, pass_func=pass_func)
    except T.MalformedTransform as e:
        return "malformed", e
    return "ok", raw


class _Abort(Exception):
    pass


def _where(tb):
    """resolver function (if any) > innermost breezy function of a traceback."""
    from vf.runner import _where as w

    inner = w(tb)
    res = None
    for fs in traceback.extract_tb(tb):
        if "/breezy/" in fs.filename and fs.name.startswith("resolve_") and fs.name != "resolve_conflicts":
            res = fs.name
    if res and not inner.endswith("." + res):
        return "%s>%s" % (res, inner)
    return inner


def nameless(script):
    """The script handed out a trans id without a name (assign_id): NoFinalPath is then the documented answer."""
    return any(o["op"] == "assign_id" for o in script)


def is_nofinal(e):
    """NoFinalPath, or its twin for the parent: final_parent() of a trans id that has neither a new nor a tree parent is a KeyError."""
    while e is not None:
        if type(e).__name__ == "NoFinalPath":
            return True
        if isinstance(e, KeyError) and e.__traceback__ is not None:
            names = [fs.name for fs in traceback.extract_tb(e.__traceback__)]
            if names[-2:] == ["final_parent", "get_tree_parent"] and "resolve_parent_loop" not in names:
                return True
        e = e.__cause__ or (e.exc if isinstance(e, PreviewApiError) else None)
    return False


def _is_loop(path):
    import errno

    try:
        os.stat(path)
    except OSError as e:
        return e.errno == errno.ELOOP
    return False


def changed_paths(a, b):
    return sum(1 for k in set(a) | set(b) if a.get(k) != b.get(k))


# ------------------------------------------------------------------ the case

def case(ctx):
    from breezy.workingtree import WorkingTree

    rng = ctx.rng
    git = ctx.index % 5 in (1, 3)
    fmt = "git" if git else "2a"
    label = "git" if git else "bzr"
    try:
        p, log = build_start_tree(ctx, rng, fmt)
        before = full_state(p, git)
        loops = [q for q, v in before["disk"].items() if v[0] == "symlink" and _is_loop(os.path.join(p, q))]
        orig = os.path.join(ctx.tmp("orig"), "t")
        shutil.copytree(p, orig, symlinks=True)
    except (KeyboardInterrupt, SystemExit):
        raise
    except BaseException as e:
        ctx.discard("start-tree:%s" % type(e).__name__)
    if loops:
        # the shared tree generator can make a symlink that points at itself (ELOOP on every stat): not an input class of this property
        ctx.discard("start-tree:self-referential-symlink")
    ctx.info["format"] = fmt
    ctx.info["start_tree"] = {q: (v["kind"], v.get("file_id")) for q, v in sorted(before["view"].items())}
    ctx.info["start_disk"] = {q: v[0] for q, v in sorted(before["disk"].items())}
    script = []
    ctx.info["script"] = script

    tree_ids = [v["file_id"] for v in before["view"].values() if v.get("file_id")]
    st = S.GenState(candidate_paths(rng, before), tree_ids, not git, before["view"].keys(), {q: v[0] for q, v in before["disk"].items()},
                    {q: v["exec"] for q, v in before["view"].items() if v.get("kind") == "file" and "exec" in v})
    nops = rng.randint(3, 12) if ctx.tier == "quick" else rng.randint(3, 20)

    wt = WorkingTree.open(p)
    tt = wt.transform()
    ids = []
    refusals = []
    accepted = 0
    res = Resolution()
    outcome = None
    applied = False
    shapes = set()
    touched = set()
    apply_mech = None
    try:
        # ---- build the script online against the real transform
        for step in range(nops):
            op = S.gen_op(rng, st)
            if op is None:
                break
            script.append(S.op_json(op))
            ctx.hist("op:" + op["op"])
            try:
                S.execute(tt, ids, op, git)
            except (KeyboardInterrupt, SystemExit):
                raise
            except Exception as e:
                name = type(e).__name__
                if name not in CLEAN_REFUSALS or (name == "KeyError" and op["op"] in NO_KEYERROR_REFUSAL):
                    # the property is about previews and the resolver, not about scheduling errors: recorded, case abandoned
                    ctx.hist("op-exception:%s:%s:%s" % (label, op["op"], name))
                    script[-1]["raised"] = name
                    outcome = "op-exception"
                    break
                ctx.hist("refused:%s:%s" % (op["op"], name))
                script[-1]["refused"] = name
                refusals.append((step, name))
                S.note_op(st, op, False)
                continue
            S.note_op(st, op, True)
            accepted += 1
        if outcome is None:
            # ---- conflict resolution under the pass counter
            ctx.count("resolve_runs")
            try:
                outcome, payload = run_resolve(ctx, tt, ids, res, label, git)
            except _Abort:
                outcome = "nonterminating"
            except (KeyboardInterrupt, SystemExit):
                raise
            except Exception as e:
                if is_nofinal(e) and nameless(script):
                    # documented programming error ("trying to create a file with no path"): refusal, tree must stay untouched
                    outcome = "no-final-path"
                    ctx.hist("refused-nameless:%s:resolve" % label)
                else:
                    outcome = "resolve-exception"
                    ctx.fail("resolve:raised:%s:%s@%s" % (label, type(e).__name__, _where(e.__traceback__)),
                             "resolve_conflicts raised %r instead of resolving or reporting MalformedTransform" % (e,),
                             {"traceback": traceback.format_exc()[-1800:], "passes": repr(res.passes)[:800]})
        ctx.hist("outcome:%s:%s" % (label, outcome))
        ctx.hist("passes:%s:%d" % (label, len(res.passes)))
        if res.passes:
            ctx.count("pass_progress")
        if res.stalled and outcome in ("ok", "malformed"):
            ctx.fail("resolve:no-progress:%s:%s" % (label, "+".join(res.stalled)),
                     "a resolution pass over conflicts that have a resolver changed nothing in the transform (the remaining passes repeat it)",
                     {"passes": repr(res.passes[:3])[:800]})
        if outcome == "malformed":
            try:
                shapes, touched = describe_shapes(ctx, tt, R.facts(tt), git, label, before, script, res.actions)
            except (KeyboardInterrupt, SystemExit):
                raise
            except Exception:
                pass
        if outcome == "ok":
            left = tt.find_raw_conflicts()
            ctx.count("no_conflicts_after_resolve")
            if left:
                ctx.fail("resolve:returned-with-conflicts:%s" % label, "find_raw_conflicts() after resolve_conflicts: %r" % (left,), None, stop=True)
            # the transform that is about to be applied: "no raw conflicts" must be what the definitions say, and its op shapes name the
            # mechanism of whatever goes wrong from here on
            fs = check_raw(ctx, tt, git, label, "resolved")
            shapes, touched = describe_shapes(ctx, tt, fs, git, label, before, script, res.actions)
            # ---- preview snapshot BEFORE apply
            snap = take_preview(ctx, tt, wt, git, label, before, "tt", nameless(script))
            snap["shapes"] = shapes
            snap["touched"] = touched
            # ---- apply
            try:
                tt.apply()
                applied = True
            except (KeyboardInterrupt, SystemExit):
                raise
            except BaseException as e:
                ctx.hist("apply-exception:%s:%s" % (label, type(e).__name__))
                if is_nofinal(e) and nameless(script):
                    outcome = "no-final-path"
                    ctx.hist("refused-nameless:%s:apply" % label)
                else:
                    outcome = "apply-exception"
                    apply_mech = apply_mechanism(e, tt, shapes, before)
                    ctx.fail("apply:raised:%s:%s@%s:%s" % (label, type(e).__name__, _where(e.__traceback__), apply_mech),
                             "conflict-free transform did not apply cleanly: %r" % (e,), {"traceback": traceback.format_exc()[-1800:]})
    finally:
        try:
            tt.finalize()
        except (KeyboardInterrupt, SystemExit):
            raise
        except Exception as e:
            ctx.hist("finalize-exception:%s" % type(e).__name__)
            if outcome in ("ok", "malformed"):
                # after a clean apply or a reported MalformedTransform, cleaning up must work (after an apply exception it is
                # part of that finding)
                ctx.fail("finalize:raised:%s:%s:%s@%s:%s" % (label, outcome, type(e).__name__, _where(e.__traceback__), R.attribute("other", shapes)),
                         "tt.finalize() raised %r" % (e,), {"traceback": traceback.format_exc()[-1500:]})

    sig_tail = (label, [o["op"] + ("!" if "refused" in o else "") for o in script], res.kinds, outcome)
    if outcome == "op-exception":
        ctx.note(sig_tail, nontrivial=False)
        return

    if not applied:
        # ---- abandoned transform: the tree must be exactly as before
        try:
            after = full_state(p, git)
        except (KeyboardInterrupt, SystemExit):
            raise
        except Exception as e:
            ctx.fail("abandoned:%s:tree-unreadable:%s:%s@%s:%s" % (outcome, label, type(e).__name__, _where(e.__traceback__), apply_mech or R.attribute("other", shapes)),
                     "the tree could be read before the transform, after %s + finalize reading it raises %r" % (outcome, e),
                     {"traceback": traceback.format_exc()[-1500:]})
            ctx.note(sig_tail, nontrivial=False)
            return
        what, d = state_diff(before, after)
        ctx.count("abandoned_tree_unchanged")
        if outcome == "malformed":
            ctx.count("malformed_tree_unchanged")
            for k in (res.kinds[-1] if res.kinds else ["?"]):
                ctx.hist("malformed-kind:%s:%s" % (label, k))
        if what is not None:
            if outcome == "apply-exception":
                # the half of "never a partially applied tree": named after the mechanism of the exception it follows
                ctx.fail("apply:partially-applied:%s:%s:%s" % (label, what, apply_mech), "tree differs after the failed apply + finalize: %r" % (d,), None)
            else:
                ctx.fail("abandoned:%s:tree-changed:%s:%s" % (outcome, label, what), "tree differs after %s + finalize: %r" % (outcome, d), None)
        ctx.note(sig_tail, nontrivial=accepted >= 3 and bool(res.passes),
                 sample={"format": fmt, "script": script[:14], "outcome": outcome, "conflict_kinds_per_pass": res.kinds} if outcome == "malformed" else None)
        return

    # ---- applied: compare the preview with the real result
    judge_applied(ctx, p, wt, git, label, before, orig, snap)
    # ---- the same script through a TransformPreview of the identical copy
    replay_transform_preview(ctx, orig, script_ops(script), refusals, res, git, label, p, before["view"], shapes, touched)
    after_view = snap["after_view"]
    nchanged = changed_paths(before["view"], after_view)
    ctx.distinct("applied_end_states", (label, sorted((q, repr(sorted(v.items()))) for q, v in after_view.items() if True)))
    ctx.note(sig_tail, nontrivial=accepted >= 3 and (bool(res.passes) or nchanged >= 2),
             sample={"format": fmt, "script": script[:14], "outcome": outcome, "conflict_kinds_per_pass": res.kinds,
                     "actions": sorted(set(res.actions)), "paths_changed": nchanged})


def describe_shapes(ctx, tt, fs, git, label, before, script, actions=None):
    shapes, touched = set(), set()
    if fs is not None:
        try:
            shapes = R.shapes(tt, fs, git, before["view"], before["disk"], before.get("stored") or {})
            touched = R.touched_paths(tt, fs)
        except (KeyboardInterrupt, SystemExit):
            raise
        except Exception as e:
            ctx.hist("shapes-skipped:%s" % type(e).__name__)
    if nameless(script):
        shapes.add("nameless-trans-id")
    for a in sorted(set(actions or ())):
        shapes.add("after-resolver:%s" % a[0].replace(" ", "-"))
    ctx.info["shapes"] = sorted(shapes)
    for sh in shapes:
        ctx.hist("shape:%s:%s" % (label, sh))
    return shapes, touched


def apply_mechanism(e, tt, shapes, before):
    """Mechanism label for an exception out of apply(): the op shape (precondition) that explains this kind of failure."""
    name = type(e).__name__
    if name == "MalformedTransform":
        # conflicts that resolve_conflicts() did not see: something registered more tree children in between (reading the preview)
        kinds = sorted({c[0] for c in getattr(e, "conflicts", [])})
        why = None
        for c in getattr(e, "conflicts", []):
            for x in c[1:]:
                if isinstance(x, str) and x.startswith("new-"):
                    try:
                        tp_ = tt.tree_path(x)
                        if tt.tree_kind(x) == "symlink" or (tp_ and any(tt.tree_kind(tt.trans_id_tree_path(a)) == "symlink" for a in _ancestors(tp_))):
                            why = why or "symlink-listed-as-directory"
                        elif tp_ is not None and (before["view"].get(tp_) or {"kind": 1}).get("kind") is None:
                            why = "versioned-entry-missing-on-disk"
                    except Exception:
                        pass
        return "conflicts-after-reading-the-preview:%s:%s" % ("+".join(k.replace(" ", "-") for k in kinds), why or R.attribute("late-conflict", shapes))
    if name == "TransformRenameFailed":
        import errno as _e

        return "%s:%s" % (_e.errorcode.get(getattr(e, "errno", None), "E?"), R.attribute("rename", shapes))
    if name == "InconsistentDelta":
        import re

        reason = str(getattr(e, "reason", "") or str(e).rpartition("reason:")[2]).strip().rstrip(".").lower().replace(" ", "-")[:40]
        m = re.search(r"""involving "b?['"](.*?)['"]\"""", str(e))
        path = m.group(1) if m else None
        if path is not None and path in before["view"] and before["view"][path].get("kind") is None and "already-occu" in reason:
            # the name is held by a versioned entry that is missing on disk: such entries get no trans id (children come from os.listdir),
            # so no 'duplicate' can be seen
            return "%s:%s" % (reason, "name-held-by-versioned-entry-missing-on-disk-unknown-to-the-transform")
        return "%s:%s" % (reason, R.attribute("delta", shapes))
    tb = traceback.extract_tb(e.__traceback__)
    if any(fs.name == "apply_deletions" for fs in tb):
        return R.attribute("apply_deletions", shapes)
    return R.attribute("other", shapes)


def _ancestors(path):
    out = []
    while "/" in path:
        path = path.rpartition("/")[0]
        out.append(path)
    return out


def script_ops(script):
    """JSON form -> executable form (bytes contents)."""
    out = []
    for o in script:
        o = dict(o)
        if "content" in o and isinstance(o["content"], str):
            o["content"] = o["content"].encode("latin-1")
        out.append(o)
    return out


def take_preview(ctx, tt, wt, git, label, before, who, nameless_ok):
    """Snapshot everything the preview tree claims, before apply.  Returns dict (entries may be None when the preview API failed)."""
    from breezy import transform as T

    snap = {"view": None, "root": None, "ch_basis": None, "ch_tt": None, "kinds": None}

    def api_fail(api, e):
        if nameless_ok and is_nofinal(e):
            ctx.hist("refused-nameless:%s:preview" % label)
            return
        inner = e.exc if isinstance(e, PreviewApiError) else e
        ctx.fail("preview:%s:%s:raised:%s@%s" % (label, api, type(inner).__name__, _where(inner.__traceback__)), "[%s] %s" % (who, str(e)[:400] or repr(e)[:400]),
                 {"traceback": "".join(traceback.format_exception(type(inner), inner, inner.__traceback__))[-1500:]})

    try:
        pv = tt.get_preview_tree()
    except Exception as e:
        api_fail("get_preview_tree", e)
        return snap
    ctx.count("preview_snapshots")
    try:
        snap["view"], snap["root"] = tree_view(pv, git, True)
    except PreviewApiError as e:
        api_fail(e.api, e)
    snap["feats"] = {}
    snap["ambiguous"] = set()
    try:
        fp0 = T.FinalPaths(tt)
        seen = {}
        for t in set(tt._new_name) | set(tt._tree_id_paths):
            try:
                seen.setdefault(fp0.get_path(t), set()).add(t)
            except Exception:
                pass
        snap["ambiguous"] = {q for q, ts in seen.items() if len(ts) > 1}
    except Exception:
        pass
    if snap["view"] is not None:
        for q in snap["view"]:
            try:
                t = pv._path2trans_id(q)
                tp_ = tt.tree_path(t)
                snap["feats"][q] = {"renamed": tp_ is not None and tp_ != q, "new": tp_ is None, "new_contents": t in tt._new_contents,
                                    "new_exec": t in tt._new_executability}
            except Exception:
                pass
    # iter_changes against the basis revision tree (generic path) and against the transform's own tree (fast path)
    roots = (before["root"],)
    try:
        basis = wt.basis_tree()
        with basis.lock_read():
            snap["ch_basis"] = canon_changes(pv.iter_changes(basis), git, roots)
    except Exception as e:
        api_fail("iter_changes-basis", e)
    if not git:
        # InventoryPreviewTree.iter_changes(from_tree is the transform's tree) is the transform's own iter_changes()
        try:
            snap["ch_tt"] = canon_changes(pv.iter_changes(wt), git, roots)
        except Exception as e:
            api_fail("iter_changes-fast", e)
    if who == "tt":
        # kind of every path that exists before or is scheduled (covers unversioned content): candidate list from the transform's final paths
        cands = set(before["disk"])
        try:
            fp = T.FinalPaths(tt)
            for t in set(tt._new_name) | set(tt._tree_id_paths) | set(tt._new_contents):
                try:
                    cands.add(fp.get_path(t))
                except Exception:
                    pass
            kinds = {}
            for q in sorted(cands):
                if q == "":
                    continue
                try:
                    kinds[q] = pv.kind(q)
                except Exception as e:
                    if type(e).__name__ in _MISSING:
                        kinds[q] = None
                    else:
                        raise
            snap["kinds"] = kinds
        except Exception as e:
            api_fail("kind", e)
    return snap


def _mask_fabricated(view, known):
    out = {}
    for q, d in view.items():
        d = dict(d)
        for a in ("file_id", "parent_id", "path2id"):
            if a in d and d[a] not in known:
                d[a] = "<fabricated>"
        out[q] = d
    return out


def report_view_diff(ctx, prefix, what, snap, after_view, before_view):
    labels = view_diff_labels(snap["view"], after_view, before_view, snap.get("feats") or {}, snap.get("ambiguous") or ())
    snap["labels"] = labels
    for lab, paths in sorted(labels.items()):
        sub = {q: snap["view"].get(q) for q in paths[:3]}
        sub2 = {q: after_view.get(q) for q in paths[:3]}
        touched = snap.get("touched")
        if touched is not None and lab not in NAMED_LABELS and not lab.endswith(NAMED_LABELS) \
                and not any(q in touched or any(q.startswith(t + "/") for t in touched if t) for q in paths):
            key = "path-not-touched-by-the-transform"
        else:
            key = with_mechanism(lab, snap)
        ctx.fail("%s:%s" % (prefix, key), "%s (%s): %r" % (what, lab, diff_dicts(sub, sub2, "preview", "applied")), None)


NAMED_LABELS = ("versioned-file-missing-on-disk-not-listed", "two-trans-ids-one-final-path", "-read-at-final-path", "-read-from-tree-at-final-path")


def changes_mechanism(lab, snap, mine, real, git, views):
    """iter_changes differences: if no differing entry belongs to a path the transform touches, say so; else the op shape."""
    touched = snap.get("touched")
    if touched is not None:
        paths = set()
        for k in set(mine) | set(real):
            if mine.get(k) == real.get(k):
                continue
            if git:
                paths.add(k)
            else:
                hit = [q for v in views for q, d in v.items() if d.get("file_id") == k]
                paths.update(hit or ["?"])
        if paths and "?" not in paths and not any(q in touched or any(q.startswith(t + "/") for t in touched if t) for q in paths):
            return "path-not-touched-by-the-transform"
    return with_mechanism(lab, snap)


def with_mechanism(lab, snap):
    """A difference that is only described by its aspect (kind, content, path-only-in-..., iter_changes ...) is a symptom: append the op
    shape that explains it (or 'unattributed')."""
    if lab.endswith(NAMED_LABELS) or lab in NAMED_LABELS:
        return lab
    mech = R.attribute("preview", snap.get("shapes") or ())
    # attributed: the mechanism is the key (which aspect differed is in the message); unattributed: keep the aspect, it is all there is
    return mech if mech != "unattributed" else "%s:unattributed" % lab


def judge_applied(ctx, p, wt, git, label, before, orig, snap):
    from breezy.workingtree import WorkingTree

    try:
        live_view, live_root = tree_view(wt, git, False)
        wt2 = WorkingTree.open(p)
        after_view, after_root = tree_view(wt2, git, False)
    except (KeyboardInterrupt, SystemExit):
        raise
    except Exception as e:
        # the working tree the transform produced cannot be read back through the Tree API
        snap["after_view"] = {}
        ctx.fail("applied:%s:tree-unreadable:%s@%s:%s" % (label, type(e).__name__, _where(e.__traceback__), R.attribute("other", snap.get("shapes") or ())),
                 "reading the working tree after apply raised %r" % (e,), {"traceback": traceback.format_exc()[-1500:]})
        return
    snap["after_view"] = after_view
    # the live object and the re-opened tree must agree (what apply wrote is what a new process reads)
    ctx.count("cmp_live_reopened")
    if live_view != after_view or live_root != after_root:
        ctx.fail("applied:%s:live-vs-reopened:%s" % (label, view_diff_class(live_view, after_view)),
                 "tree object after apply differs from re-opened tree: %r" % (diff_dicts(live_view, after_view, "live", "reopened"),), None)
    if snap["view"] is not None:
        ctx.count("cmp_preview_applied")
        ctx.count("cmp_preview_reopened")
        if snap["view"] != after_view:
            report_view_diff(ctx, "preview-vs-applied:%s" % label, "[tt] preview tree before apply != working tree after apply", snap, after_view, before["view"])
        elif snap["root"] != after_root:
            ctx.fail("preview-vs-applied:%s:%s" % (label, with_mechanism("root-id", snap)), "preview root id %r, applied root id %r" % (snap["root"], after_root), None)
    # executability scheduled by the transform must also be what the tree records for the file afterwards
    rec = dict(tree_view.recorded_exec)
    nset = 0
    for q, f in (snap.get("feats") or {}).items():
        if f.get("new_exec") and q in after_view and "exec" in after_view[q] and q in rec:
            nset += 1
            if rec[q] != after_view[q]["exec"]:
                ctx.fail("applied:%s:recorded-exec-differs-from-set-executability" % label,
                         "%r: set_executability applied on disk (%r) but the tree records %r" % (q, after_view[q]["exec"], rec[q]), None)
    if nset:
        ctx.count("cmp_recorded_exec", nset)
    roots = (before["root"], after_root)
    # entries already reported under their own mechanism key are not reported a second time through iter_changes
    skip = set()
    for lab in ("versioned-file-missing-on-disk-not-listed", "two-trans-ids-one-final-path"):
        for q in (snap.get("labels") or {}).get(lab, []):
            skip.add(q if git else (after_view.get(q) or snap["view"].get(q) or {}).get("file_id"))

    def drop(d):
        return {k: v for k, v in d.items() if k not in skip}

    try:
        _judge_changes(ctx, p, wt2, git, label, before, orig, snap, after_view, roots, drop)
    except (KeyboardInterrupt, SystemExit):
        raise
    except Exception as e:
        if "/breezy/" not in "".join(fs.filename for fs in traceback.extract_tb(e.__traceback__)):
            raise
        ctx.fail("applied:%s:tree-unreadable:%s@%s:%s" % (label, type(e).__name__, _where(e.__traceback__), R.attribute("other", snap.get("shapes") or ())),
                 "iter_changes of the working tree after apply raised %r" % (e,), {"traceback": traceback.format_exc()[-1500:]})
    if snap["kinds"] is not None:
        disk = observe.snap_disk(p)
        ctx.count("cmp_disk_kinds")
        bad = {}
        for q, k in snap["kinds"].items():
            dk = disk.get(q, (None,))[0]
            if k != dk:
                # two trans ids (one of them without contents) share the final path: which one a path lookup finds is unspecified
                lab = "two-trans-ids-one-final-path" if q in snap.get("ambiguous", ()) else "disk-kind"
                bad.setdefault(lab, []).append((q, "preview=%r" % (k,), "disk=%r" % (dk,)))
        for lab, items in sorted(bad.items()):
            ctx.fail("preview-vs-applied:%s:%s" % (label, with_mechanism(lab, snap)), "preview.kind(path) != kind on disk after apply: %r" % (items[:4],), None)


def _judge_changes(ctx, p, wt2, git, label, before, orig, snap, after_view, roots, drop):
    from breezy.bzr.inventorytree import InterInventoryTree
    from breezy.tree import InterTree
    from breezy.workingtree import WorkingTree

    if snap["ch_basis"] is not None:
        with wt2.lock_read():
            basis = wt2.basis_tree()
            with basis.lock_read():
                if git:
                    real = canon_changes(wt2.iter_changes(basis), git, roots)
                else:
                    real = canon_changes(InterInventoryTree(basis, wt2).iter_changes(), git, roots)
        ctx.count("cmp_changes_basis")
        if drop(snap["ch_basis"]) != drop(real):
            ctx.fail("preview-vs-applied:%s:%s" % (label, changes_mechanism("iter_changes-basis", snap, drop(snap["ch_basis"]), drop(real), git, (before["view"], after_view))),
                     "preview.iter_changes(basis) != applied.iter_changes(basis): %r" % (diff_dicts(drop(snap["ch_basis"]), drop(real), "preview", "applied"),), None)
    if snap["ch_tt"] is not None:
        owt = WorkingTree.open(orig)
        with owt.lock_read(), wt2.lock_read():
            real = canon_changes(InterTree.get(owt, wt2).iter_changes(), git, roots)
        ctx.count("cmp_tt_iter_changes")
        mine = dict(snap["ch_tt"])
        if not git:
            # over-reported changed_content (new contents equal to the old ones) is allowed; a pure over-report entry is dropped
            for k in list(mine):
                v = mine[k]
                r = real.get(k)
                if r is not None and v[:6] == r[:6] and v[6] and not r[6]:
                    mine[k] = r
                elif r is None and v[6] and v[0][0] == v[0][1] and v[1][0] == v[1][1] and v[2][0] == v[2][1] and v[3][0] == v[3][1] \
                        and v[4][0] == v[4][1] and v[5][0] == v[5][1]:
                    del mine[k]
        else:
            for k in list(mine):
                v = mine[k]
                r = real.get(k)
                if r is not None and v[:2] == r[:2] and v[2] and not r[2]:
                    mine[k] = r
                elif r is None and v[0] == v[1]:
                    del mine[k]
        if drop(mine) != drop(real):
            ctx.fail("preview-vs-applied:%s:%s" % (label, changes_mechanism("iter_changes-fast", snap, drop(mine), drop(real), git, (before["view"], after_view))),
                     "preview.iter_changes(transform's tree) != changes(original tree -> applied tree): %r" % (diff_dicts(drop(mine), drop(real), "preview", "applied"),), None)



def replay_transform_preview(ctx, orig, ops, refusals, res, git, label, p, before_view, shapes=(), touched=None):
    """Same script on tree.preview_transform() of the identical copy; its preview tree vs the applied result."""
    from breezy.workingtree import WorkingTree

    owt = WorkingTree.open(orig)
    tp = owt.preview_transform()
    ids = []
    refusals2 = []
    res2 = Resolution()
    snap = None
    try:
        for step, op in enumerate(ops):
            if "raised" in op:
                return
            try:
                S.execute(tp, ids, op, git)
            except (KeyboardInterrupt, SystemExit):
                raise
            except Exception as e:
                refusals2.append((step, type(e).__name__))
        if refusals2 != refusals:
            ctx.hist("tp-divergence:%s:refusals" % label)
            return
        ctx.count("tp_resolve_runs")
        try:
            outcome, payload = run_resolve(ctx, tp, ids, res2, label + "-tp", git)
        except (_Abort, KeyboardInterrupt, SystemExit):
            raise
        except Exception as e:
            # new_orphan is documented NotImplemented for previews, iter_tree_children sees only versioned children ...
            ctx.hist("tp-resolve-exception:%s:%s" % (label, type(e).__name__))
            return
        if outcome != "ok" or res2.passes != res.passes:
            ctx.hist("tp-divergence:%s:%s" % (label, "outcome" if outcome != "ok" else "conflict-trace"))
            return
        before = {"root": None, "disk": {}}
        try:
            root = owt.path2id("") if not git else None
            before["root"] = root.decode() if isinstance(root, bytes) else root
        except Exception:
            pass
        snap = take_preview(ctx, tp, owt, git, label, before, "tp", nameless(ops))
    finally:
        try:
            tp.finalize()
        except (KeyboardInterrupt, SystemExit):
            raise
        except Exception as e:
            # a preview transform only has its own limbo directory to clean up
            ctx.fail("finalize:raised:%s:preview-transform:%s@%s:%s" % (label, type(e).__name__, _where(e.__traceback__), R.attribute("other", shapes or ())),
                     "TransformPreview.finalize() raised %r" % (e,), {"traceback": traceback.format_exc()[-1500:]})
    if snap is None or snap["view"] is None:
        return
    try:
        wt2 = WorkingTree.open(p)
        after_view, after_root = tree_view(wt2, git, False)
    except Exception:
        return  # already reported by judge_applied
    ctx.count("cmp_transform_preview")
    # ids the resolver fabricates ("Versioned directory" for a directory that never had one) come from a clock-and-counter
    # generator: two transform objects cannot agree on them.  Ids given by the script or the tree are compared verbatim.
    known = {v.get("file_id") for v in before_view.values()} | {o.get("file_id") for o in ops} | {None, after_root}
    snap = dict(snap)
    snap["shapes"] = shapes
    snap["touched"] = touched
    snap["view"] = _mask_fabricated(snap["view"], known)
    after_view = _mask_fabricated(after_view, known)
    if snap["view"] != after_view:
        report_view_diff(ctx, "preview-vs-applied:%s" % label, "[tp] TransformPreview preview tree != working tree after applying the same script",
                         snap, after_view, before_view)
