"""Tree-delta classification by file id (shared by C43 and C44): what happened to every entry between two snapshots."""


class Delta:
    """What happened to every file id between two tree snapshots {path: (kind, content, exec, id)}.

    cls[id] is one of  added:K  removed:K  renamed[+content|+target][+exec]:K  renamed+kind_changed:A>B  kind_changed:A>B
    modified+content|target[+exec]:K  modified+exec:K  carried:K (path changed only because an ancestor was renamed).
    flags[id] (causal context): under-renamed-dir (an ancestor directory, in the old or the new tree, sits at another path in the
    other tree), into-added-dir (an existing entry now lives below a directory that is new), path-reused (its new path held another id before), old-path-reused (its old path holds another id now).
    """

    def __init__(self, old, new):
        self.old, self.new = old, new
        self.old_at = {p: v[3] for p, v in old.items()}
        self.new_at = {p: v[3] for p, v in new.items()}
        opath = {v[3]: p for p, v in old.items()}
        npath = {v[3]: p for p, v in new.items()}
        self.cls, self.flags = {}, {}
        own_move = set()
        for fid in set(opath) | set(npath):
            o, n = opath.get(fid), npath.get(fid)
            if o is not None and n is not None:
                if o.rpartition("/")[2] != n.rpartition("/")[2] or _parent_id(old, o) != _parent_id(new, n):
                    own_move.add(fid)
        for fid in set(opath) | set(npath):
            o, n = opath.get(fid), npath.get(fid)
            fl = set()
            if o is None:
                c = "added:%s" % new[n][0]
                par = n.rpartition("/")[0]
                if par and self.new_at[par] in opath and opath[self.new_at[par]] != par:
                    fl.add("under-renamed-dir")
            elif n is None:
                c = "removed:%s" % old[o][0]
                q = o.rpartition("/")[0]
                while q:
                    f2 = self.old_at[q]
                    if f2 in npath and npath[f2] != q:
                        fl.add("under-renamed-dir")
                    q = q.rpartition("/")[0]
            else:
                ov, nv = old[o], new[n]
                parts = []
                if fid in own_move:
                    parts.append("renamed")
                elif o != n:
                    fl.add("under-renamed-dir")
                if ov[0] != nv[0]:
                    parts.append("kind_changed:%s>%s" % (ov[0], nv[0]))
                    c = "+".join(parts)
                else:
                    if ov[1] != nv[1]:
                        parts.append("content" if nv[0] == "file" else "target")
                    if ov[2] != nv[2]:
                        parts.append("exec")
                    if not parts:
                        c = ("carried:%s" % nv[0]) if o != n else None
                    else:
                        if parts[0] != "renamed":
                            parts.insert(0, "modified")
                        c = "+".join(parts) + ":" + nv[0]
            if n is not None and n in self.old_at and self.old_at[n] != fid:
                fl.add("path-reused")
            if o is not None and o in self.new_at and self.new_at[o] != fid:
                fl.add("old-path-reused")
            if o is not None:
                q = o.rpartition("/")[0]
                while q:
                    f2 = self.old_at[q]
                    if npath.get(f2) != q:
                        fl.add("under-renamed-dir")
                    q = q.rpartition("/")[0]
            if n is not None:
                q = n.rpartition("/")[0]
                while q:
                    f2 = self.new_at[q]
                    if f2 in opath and opath[f2] != q:
                        fl.add("under-renamed-dir")
                    if o is not None and (f2 not in opath or old[opath[f2]][0] != "directory"):
                        fl.add("into-added-dir")
                    q = q.rpartition("/")[0]
            if c is not None:
                self.cls[fid] = c
                self.flags[fid] = fl
        self.classes = sorted(v for v in self.cls.values() if not v.startswith("carried"))
        self.swap = any("path-reused" in self.flags[f] and "old-path-reused" in self.flags[f] and f in own_move for f in self.cls)

    def of_new(self, path, flags=False):
        fid = self.new_at.get(path)
        return self._fmt(fid, flags) if fid is not None else None

    def of_old(self, path, flags=False):
        fid = self.old_at.get(path)
        return self._fmt(fid, flags) if fid is not None else None

    def reuse_kinds(self, fid):
        """Kinds involved where this entry takes over / vacates a path used by another entry in the other tree."""
        opath = {v[3]: p for p, v in self.old.items()}
        npath = {v[3]: p for p, v in self.new.items()}
        kinds = set()
        o, n = opath.get(fid), npath.get(fid)
        if o is not None:
            kinds.add(self.old[o][0])
            if o in self.new and self.new[o][3] != fid:
                kinds.add(self.new[o][0])
        if n is not None:
            kinds.add(self.new[n][0])
            if n in self.old and self.old[n][3] != fid:
                kinds.add(self.old[n][0])
        return kinds

    def flags_new(self, path):
        return self.flags.get(self.new_at.get(path), set())

    def flags_old(self, path):
        return self.flags.get(self.old_at.get(path), set())

    def _fmt(self, fid, flags):
        c = self.cls.get(fid, "unchanged")
        if flags and self.flags.get(fid):
            c += "[" + ",".join(sorted(self.flags[fid])) + "]"
        return c


def _parent_id(snap, path):
    par = path.rpartition("/")[0]
    return snap[par][3] if par else "ROOT"
