"""C34 - importing then exporting a git commit reproduces it byte for byte.

Commits are generated as RAW BYTES from a grammar over the fields the git mapping handles and parsed
with dulwich's Commit.from_string (setters cannot express "no message" and hide byte-level forms).
For every commit the monitor runs the REAL mapping exactly as breezy's fetch does:

    rev, roundtrip_revid, verifiers = mapping.import_commit(c, mapping.revision_id_foreign_to_bzr, strict=True)
    c2 = mapping.export_commit(rev, c.tree, parent_lookup, True, verifiers)      # BazaarObjectStore._reconstruct_commit
    (parent_lookup = BazaarObjectStore._lookup_revision_sha1 for a git-origin revid = mapping_registry.parse_revision_id)

and judges   c2.as_raw_string() == raw   (hence c2.id == c.id),  get_revision_id(c) stable and equal to
rev.revision_id when no round-trip id is embedded.

Commit classes:
  accepted      import returned                      -> verdict
  rejected      import raised a documented refusal (UnknownCommitExtra, UnknownMercurialCommitExtra,
                UnknownCommitEncoding) or could not decode the text in the DECLARED encoding -> counted
  out-of-grammar  malformed identities, header orders / forms that dulwich's own serialiser does not
                reproduce from the parsed fields (decided by observation: re-serialising the parsed commit
                with dulwich alone differs from the raw bytes) -> run, histogrammed, never a verdict;
                exception: a commit WITHOUT message part (property names it) is always a verdict.
Verdict on mapping.default_mapping (BzrGitMappingv1); BzrGitMappingExperimental is run on the same
commits and reported under its own mechanism keys.
"""
import os

ID = "C34"
LEVEL = "exploration"
TECHNIQUE = ("byte-for-byte round-trip monitor on the real import_commit/export_commit (lossy=True + verifiers, as "
             "BazaarObjectStore._reconstruct_commit), raw-bytes commit grammar parsed by dulwich")
LEVEL_TEXT = ("seeded commits over the grammar: 0-3 parents, author =/!= committer (name, mail, time, zone), well-formed "
              "identities incl. empty name / inner double spaces / utf-8 / latin-1, times 0..2^31, zones incl. -0000 and odd "
              "minutes, encoding header absent/utf-8/iso-8859-1/unknown, message None/empty/no final LF/multi-line/invalid "
              "bytes/trailer look-alikes, gpgsig, 0-2 mergetags, HG extras, unknown extras")
RULE = ("each case draws M raw commits (quick 20, thorough 80); one evaluation = one commit through import+export on the "
        "default mapping; non-trivial = accepted and at least two non-default fields; distinct = distinct raw bytes")
CASES = {"quick": 160, "thorough": 1000}
BUDGET_S = {"quick": 45, "thorough": 700}
MIN_EVALS = {"quick": 2500, "thorough": 60000}
FLOORS = {
    "quick": {"v1_import": 2500, "v1_roundtrip_compared": 1400, "v1_revid_stable": 1400, "missing_message": 60,
              "with_gpgsig": 200, "with_mergetag": 200, "with_hg_extra": 100, "neg_utc": 200, "latin1_text": 100,
              "experimental_import": 2000},
    "thorough": {"v1_import": 60000, "v1_roundtrip_compared": 35000, "v1_revid_stable": 35000, "missing_message": 1500,
                 "with_gpgsig": 5000, "with_mergetag": 5000, "with_hg_extra": 2500, "neg_utc": 5000, "latin1_text": 2500,
                 "experimental_import": 50000},
}
EXHAUSTIVE = {"quick": False, "thorough": False}
ASSUMPTIONS = [
    "dulwich's Commit.from_string / serialiser are trusted as the byte<->field codec; a raw form dulwich itself does not "
    "re-serialise identically is out of grammar (except the missing-message form, which the property names)",
    "identities are well formed (NAME <EMAIL>, no '<' '>' LF inside); malformed ones are normalised by fix_person_identifier "
    "on export and are bucketed, not judged",
    "strict=True import; lossy=True export with the verifiers returned by import, as _reconstruct_commit does for "
    "git-origin revisions",
    "verdict on BzrGitMappingv1 (mapping.default_mapping); the experimental mapping is reported under experimental:* keys",
]

HEX = "0123456789abcdef"


# ------------------------------------------------------------------ grammar

NAMES_ASCII = (b"A", b"Jane Doe", b"J. R.  Hacker", b"", b"x", b"Doe, John", b"a.b-c_d", b"Jane  ", b"root")
NAMES_UTF8 = ("Jürgen Müller".encode(), "日本 太郎".encode(), "Zoë".encode(), "é".encode())
NAMES_LATIN1 = (b"J\xfcrgen M\xfcller", b"Zo\xeb", b"\xe9\xe8")
MAILS = (b"a@example.com", b"jane@x", b"", b"j.r+tag@host.example", b"x y@z", b"root@localhost")
MAILS_8 = ("jü@x".encode(), b"j\xfc@x")

MALFORMED_IDS = (b"J <x> <j@e>", b"<j@e>", b"John", b"John <j@e", b"J > <j@e>", b"A <a>, B <b>", b"", b"J  <<j@e>>",
                 b"J <j@e> ")

ZONES = (b"+0000", b"+0000", b"-0000", b"+0100", b"-0500", b"+0530", b"-0330", b"+0017", b"-0001", b"+1400", b"-1200",
         b"+0545", b"+1245", b"-0930")
ODD_ZONES = (b"+0090", b"--700", b"+01000", b"-00", b"+2500")

ENCODINGS = (None, None, None, b"utf-8", b"UTF-8", b"iso-8859-1", b"latin1", b"ISO-8859-15", b"x-unknown-codec", b"cp1252")

MSG_ASCII = (b"fix\n", b"fix", b"", b"subject\n\nbody line 1\nbody line 2\n", b"\n", b"\n\nleading blank lines\n",
             b"trailing spaces  \n\n\n", b"tab\there\n", b"a\r\nb\r\n", b" leading space\n")
MSG_TRAILERS = (b"svn import\n\ngit-svn-id: http://svn.example.com/repo/trunk@123 6a9b1b5e-1111-2222-3333-444455556666\n",
                b"subject\n\n--BZR--\nrevision-id: joe@example.com-20090101-abcdef\nproperty-foo: bar\n",
                b"subject\n--BZR--\nrevision-id: x\n", b"subject\n\n--HG--\nbranch : stable\n",
                b"subject\n--HG--\nrename : a => b\nextra : k : v\n", b"msg\n--BZR--\n", b"msg\n--BZR--\ngarbage without colon\n",
                b"x\n\nSigned-off-by: A <a@x>\n", b"git-svn-id: not-a-real-one\n")
MSG_UTF8 = ("Grüße\n".encode(), "日本語のメッセージ\n\n本文\n".encode(), "é".encode())
MSG_LATIN1 = (b"Gr\xfc\xdfe\n", b"caf\xe9", b"\xff\xfe\n")
MSG_INVALID_UTF8 = (b"bad \xff\xfe bytes\n", b"\xc3(\n", b"trunc \xe6\x97\n")

HG_KEYS_OK = (b"amend_source", b"rebase_source", b"absorb_source", b"source", b"intermediate-source", b"topic", b"_rewrite_noise")


def sha(rng):
    return "".join(rng.choice(HEX) for _ in range(40)).encode()


def gen_ident(rng, textclass):
    if textclass == "latin1" and rng.random() < 0.6:
        name = rng.choice(NAMES_LATIN1)
    elif textclass == "utf8" and rng.random() < 0.6:
        name = rng.choice(NAMES_UTF8)
    else:
        name = rng.choice(NAMES_ASCII)
    mail = rng.choice(MAILS)
    if textclass != "ascii" and rng.random() < 0.15:
        mail = MAILS_8[0] if textclass == "utf8" else MAILS_8[1]
    return name + b" <" + mail + b">"


def gen_tag(rng):
    lines = [b"object " + sha(rng), b"type commit", b"tag " + rng.choice((b"v1.0", b"rel/2", "v-é".encode())),
             b"tagger " + gen_ident(rng, "ascii") + b" %d " % rng.randrange(2 ** 31) + rng.choice(ZONES[:8])]
    body = rng.choice((b"", b"\nrelease\n", b"\nrelease 1.0\n\nnotes\n",
                       b"\nsigned\n-----BEGIN PGP SIGNATURE-----\n\niQEzBAABCAAdFiEE\n=abcd\n-----END PGP SIGNATURE-----\n"))
    return b"\n".join(lines) + b"\n" + body


def gen_sig(rng):
    kind = rng.choice(("pgp", "pgp", "ssh", "odd", "8bit"))
    if kind == "pgp":
        return (b"-----BEGIN PGP SIGNATURE-----\n" + rng.choice((b"", b"Version: GnuPG v1\n")) + b"\niQEcBAABAgAGBQJ\n"
                + b"".join(bytes(rng.choice(b"ABCDEFabcdef0123+/") for _ in range(rng.randint(1, 40))) + b"\n" for _ in range(rng.randint(0, 3)))
                + b"=AbCd\n-----END PGP SIGNATURE-----" + rng.choice((b"", b"", b"\n")))
    if kind == "ssh":
        return b"-----BEGIN SSH SIGNATURE-----\nU1NIU0lHAAAAAQ\n-----END SSH SIGNATURE-----"
    if kind == "8bit":
        return b"-----BEGIN PGP SIGNATURE-----\nComment: \xff\xfe J\xfcrgen\n=x\n-----END PGP SIGNATURE-----"
    return rng.choice((b"x", b"not a signature", b"two\nlines"))


def header(field, value):
    """Serialise one header with git's continuation-line convention."""
    lines = value.split(b"\n")
    return field + b" " + lines[0] + b"\n" + b"".join(b" " + l + b"\n" for l in lines[1:])


def gen_commit(rng):
    """Returns (raw bytes, features dict)."""
    f = {}
    out = [b"tree " + sha(rng) + b"\n"]
    np = rng.choice((0, 1, 1, 1, 2, 2, 3))
    f["parents"] = np
    parents = [sha(rng) for _ in range(np)]
    if np >= 2 and rng.random() < 0.05:
        parents[1] = parents[0]
        f["dup_parent"] = True
    out += [b"parent " + p + b"\n" for p in parents]

    enc = rng.choice(ENCODINGS)
    f["encoding"] = enc.decode() if enc else None
    declared = (enc or b"utf-8").lower()
    if declared in (b"iso-8859-1", b"latin1", b"iso-8859-15", b"cp1252"):
        textclass = rng.choice(("latin1", "latin1", "ascii", "utf8"))
    elif enc is None:
        textclass = rng.choice(("ascii", "ascii", "utf8", "utf8", "latin1"))
    else:
        textclass = rng.choice(("ascii", "utf8", "utf8", "latin1"))
    f["textclass"] = textclass

    malformed = rng.random() < 0.04
    committer = gen_ident(rng, textclass)
    author = committer if rng.random() < 0.45 else gen_ident(rng, textclass)
    if malformed:
        if rng.random() < 0.5:
            author = rng.choice(MALFORMED_IDS)
        else:
            committer = rng.choice(MALFORMED_IDS)
        f["malformed_identity"] = True
    f["author_differs"] = author != committer
    ctime = rng.choice((0, 1, 2 ** 31 - 1, 2 ** 31, rng.randrange(2 ** 31), rng.randrange(2 ** 31), 1234567890))
    atime = ctime if rng.random() < 0.5 else rng.choice((0, rng.randrange(2 ** 31), ctime + 1, max(ctime - 1, 0)))
    czone = rng.choice(ZONES)
    azone = czone if rng.random() < 0.5 else rng.choice(ZONES)
    if rng.random() < 0.015:
        azone = rng.choice(ODD_ZONES)
        f["odd_zone"] = True
    f["times_differ"] = atime != ctime
    f["zones_differ"] = azone != czone
    f["neg_utc"] = b"-0000" in (azone, czone)
    f["zone_nonzero"] = czone not in (b"+0000", b"-0000")
    out.append(b"author " + author + b" %d " % atime + azone + b"\n")
    out.append(b"committer " + committer + b" %d " % ctime + czone + b"\n")
    if enc is not None:
        out.append(b"encoding " + enc + b"\n")

    extras = []
    nt = rng.choice((0, 0, 0, 0, 1, 1, 2))
    f["mergetags"] = nt
    for _ in range(nt):
        extras.append(header(b"mergetag", gen_tag(rng)[:-1] if rng.random() < 0.9 else gen_tag(rng)))
    nh = 0
    if rng.random() < 0.12:
        extras.append(header(b"HG:rename-source", rng.choice((b"hg", b"hg2", "é".encode()))))
        nh += 1
    for _ in range(rng.choice((0, 0, 0, 0, 0, 1, 1, 2))):
        key = rng.choice(HG_KEYS_OK) if rng.random() < 0.85 else rng.choice((b"branch", b"close", b"unknownkey"))
        val = rng.choice((b"0123456789abcdef0123456789abcdef01234567", b"my-topic", b"a b c", b"x:y:z", b"", "tøpic".encode(),
                          b"%2Fquoted"))
        r = rng.random()
        if r < 0.03:
            # characters str.splitlines() treats as line boundaries (FF, CR, FS, LS, NEL)
            val = rng.choice((b"a\x0cb", b"a\rb", b"a\x1cb", "a\u2028b".encode(), "a\x85b".encode()))
            f["hg_value_with_separator_char"] = True
        elif r < 0.04:
            val = rng.choice((b"line1\nline2", b"x\n"))  # written with a continuation line
            f["hg_value_multiline"] = True
        extras.append(header(b"HG:extra", key + b":" + val))
        nh += 1
    f["hg_extras"] = nh
    if rng.random() < 0.04:
        extras.append(header(rng.choice((b"x-custom", b"change-id", b"HG:unknown")), b"value"))
        f["unknown_extra"] = True
    order = "canonical"
    if rng.random() < 0.03 and len(extras) >= 2:
        extras.reverse()
        order = "extras-reversed"
    sig = None
    if rng.random() < 0.22:
        sig = header(b"gpgsig", gen_sig(rng))
        f["gpgsig"] = True
    if sig is not None and extras and rng.random() < 0.04:
        out.append(sig)
        out += extras
        order = "gpgsig-before-extras"
    else:
        out += extras
        if sig is not None:
            out.append(sig)
    f["order"] = order

    mk = rng.choice(("none", "ascii", "ascii", "ascii", "trailer", "class", "class", "invalid"))
    if mk == "none":
        msg = None
    elif mk == "ascii":
        msg = rng.choice(MSG_ASCII)
    elif mk == "trailer":
        msg = rng.choice(MSG_TRAILERS)
    elif mk == "invalid":
        msg = rng.choice(MSG_INVALID_UTF8)
    else:
        msg = rng.choice({"ascii": MSG_ASCII, "utf8": MSG_UTF8, "latin1": MSG_LATIN1}[textclass])
    f["message"] = mk if msg is None or mk != "ascii" else ("empty" if msg == b"" else "no-final-lf" if not msg.endswith(b"\n") else "ascii")
    if msg is not None:
        out.append(b"\n" + msg)
    return b"".join(out), f


def nontrivial(f):
    n = sum(1 for k in ("author_differs", "times_differ", "zones_differ", "neg_utc", "zone_nonzero", "gpgsig", "unknown_extra")
            if f.get(k))
    n += (f["parents"] > 0) + (f["encoding"] is not None) + (f["textclass"] != "ascii") + (f["mergetags"] > 0) + (f["hg_extras"] > 0)
    n += f["message"] not in ("ascii",)
    return n >= 2


# ------------------------------------------------------------------ observation helpers

FIELDS = ("tree", "parents", "author", "committer", "author_time", "commit_time", "author_timezone", "commit_timezone",
          "_author_timezone_neg_utc", "_commit_timezone_neg_utc", "encoding", "gpgsig", "message")


def field_diff(c, c2):
    """Names of the parsed fields in which two commits differ (for mechanism keys)."""
    out = []
    for n in FIELDS:
        try:
            a, b = getattr(c, n), getattr(c2, n)
        except AttributeError:
            out.append(n.strip("_") + "-unset")
            continue
        if a != b:
            out.append(n.strip("_"))
    try:
        if [t.as_raw_string() for t in c.mergetag] != [t.as_raw_string() for t in c2.mergetag]:
            out.append("mergetag")
        if list(c._extra) != list(c2._extra):
            out.append("extra")
    except AttributeError:
        out.append("extra-unset")
    return out


def dulwich_canonical(raw):
    """What dulwich alone writes for the fields it parsed from raw (no breezy code involved)."""
    from dulwich.objects import Commit

    c = Commit.from_string(raw)
    c.tree = c.tree  # marks the object dirty => next as_raw_string() re-serialises from the fields
    return c.as_raw_string()


def _lat(b):
    return b.decode("latin-1") if b is not None else None


REFUSALS = ("UnknownCommitExtra", "UnknownMercurialCommitExtra", "UnknownCommitEncoding")


def judge(ctx, raw, f):
    from dulwich.errors import ObjectFormatException
    from dulwich.objects import Commit

    from breezy.git.mapping import BzrGitMappingExperimental, default_mapping, mapping_registry

    try:
        c = Commit.from_string(raw)
        c.message  # force parse
        canon = dulwich_canonical(raw)
    except (ObjectFormatException, ValueError, AssertionError, TypeError, AttributeError) as e:
        ctx.hist("generator:dulwich-rejects:" + type(e).__name__)
        return
    missing = c.message is None
    # the only non-canonical form that stays in the grammar: no message part (dulwich re-serialises it as raw + LF)
    ingrammar = ((canon == raw or (missing and canon == raw + b"\n"))
                 and not f.get("malformed_identity") and not f.get("odd_zone"))
    det = {"raw": _lat(raw), "features": f, "sha": c.id.decode()}

    def parent_lookup(revid):
        # BazaarObjectStore._lookup_revision_sha1 for a git-origin revision id (not in the cache)
        return mapping_registry.parse_revision_id(revid)[0]

    mapping = default_mapping
    ctx.count("v1_import")
    try:
        rev, roundtrip_revid, verifiers = mapping.import_commit(c, mapping.revision_id_foreign_to_bzr, True)
    except Exception as e:
        name = type(e).__name__
        if name in REFUSALS:
            ctx.hist("v1:rejected:" + name)
        elif isinstance(e, UnicodeDecodeError) and f["encoding"] is not None:
            ctx.hist("v1:rejected:undecodable-in-declared-encoding")
        elif not ingrammar:
            ctx.hist("v1:out-of-grammar:import-raises:" + name)
        else:
            ctx.fail("v1:import-raises:" + name, repr(e)[:300], det)
        ctx.note(raw, nontrivial=False)
        judge_experimental(ctx, BzrGitMappingExperimental(), c, raw, f, det, parent_lookup, accepted_by_v1=False)
        return
    for k, n in (("gpgsig", "with_gpgsig"), ("neg_utc", "neg_utc")):
        if f.get(k):
            ctx.count(n)
    if f["mergetags"]:
        ctx.count("with_mergetag")
    if f["hg_extras"]:
        ctx.count("with_hg_extra")
    if "git-implicit-encoding" in rev.properties or (f["encoding"] and f["textclass"] == "latin1"):
        ctx.count("latin1_text")
    if missing:
        ctx.count("missing_message")
    ctx.hist("v1:message:" + f["message"])
    ctx.hist("v1:encoding:%s/%s" % (f["encoding"], f["textclass"]))

    # -- revision id derived from the commit
    try:
        r1, r2 = mapping.get_revision_id(c), mapping.get_revision_id(Commit.from_string(raw))
        ctx.count("v1_revid_stable")
        ctx.check(r1 == r2, "v1:revid:unstable", "%r then %r" % (r1, r2), det)
        if roundtrip_revid is None:
            ctx.check(r1 == rev.revision_id == mapping.revision_id_foreign_to_bzr(c.id), "v1:revid:differs-from-imported-revision",
                      "get_revision_id=%r, rev.revision_id=%r" % (r1, rev.revision_id), det)
        else:
            ctx.check(r1 == roundtrip_revid, "v1:revid:differs-from-roundtrip-id", "%r vs %r" % (r1, roundtrip_revid), det)
    except Exception as e:
        ctx.fail("v1:revid:raises:" + type(e).__name__, repr(e)[:300], det)

    # -- export as _reconstruct_commit does
    try:
        c2 = mapping.export_commit(rev, c.tree, parent_lookup, True, verifiers)
        raw2 = c2.as_raw_string()
    except Exception as e:
        name = type(e).__name__
        if not ingrammar:
            ctx.hist("v1:out-of-grammar:export-raises:" + name)
        elif missing and name in ("AttributeError", "TypeError"):
            # the message handling fails before the extra headers are looked at
            ctx.fail("v1:missing-message:export-raises:" + name, repr(e)[:300], det)
        elif f.get("hg_value_multiline") and name == "ValueError":
            ctx.fail("v1:hg-extra-multiline-value", "export raises " + repr(e)[:300], det)
        elif f.get("hg_value_with_separator_char") and name == "ValueError":
            ctx.fail("v1:hg-extra-value-with-line-separator", "export raises " + repr(e)[:300], det)
        elif missing:
            ctx.fail("v1:missing-message:export-raises:" + name, repr(e)[:300], det)
        else:
            ctx.fail("v1:export-raises:" + name, repr(e)[:300], det)
        ctx.note(raw, nontrivial=nontrivial(f))
        judge_experimental(ctx, BzrGitMappingExperimental(), c, raw, f, det, parent_lookup, accepted_by_v1=True)
        return
    ctx.count("v1_roundtrip_compared")
    if raw2 == raw:
        ctx.check(c2.id == c.id, "v1:same-bytes-different-id", "%r vs %r" % (c2.id, c.id), det)
        ctx.hist("v1:roundtrip:identical" if ingrammar else "v1:out-of-grammar:identical-anyway")
    else:
        det2 = dict(det, exported=_lat(raw2), properties={k: v for k, v in rev.properties.items()})
        diff = field_diff(c, Commit.from_string(raw2))
        if not ingrammar:
            ctx.hist("v1:out-of-grammar:differs:" + ("dulwich-canonical-form" if raw2 == canon else "+".join(diff) or "layout"))
        elif missing and raw2 == canon:
            # every field carried; only the header/body separator differs: dulwich's serialiser always writes it
            ctx.fail("v1:missing-message:separator-line-added",
                     "exported commit has a blank separator line the original does not have: id %s != %s" % (c2.id.decode(), c.id.decode()), det2)
        elif f.get("hg_value_multiline") and "extra" in diff:
            ctx.fail("v1:hg-extra-multiline-value", "exported commit differs in %s" % (diff or "layout"), det2)
        elif f.get("hg_value_with_separator_char") and "extra" in diff:
            ctx.fail("v1:hg-extra-value-with-line-separator", "exported commit differs in %s" % (diff or "layout"), det2)
        else:
            ctx.fail("v1:bytes-differ:" + ("+".join(diff) or "layout"), "exported commit differs in %s" % (diff or "layout only"), det2)
    ctx.note(raw, nontrivial=nontrivial(f) and ingrammar,
             sample=({"raw": _lat(raw), "sha": c.id.decode(), "properties": dict(rev.properties), "identical": raw2 == raw}
                     if ctx.rng.random() < 0.003 else None))
    judge_experimental(ctx, BzrGitMappingExperimental(), c, raw, f, det, parent_lookup, accepted_by_v1=True)


def judge_experimental(ctx, mapping, c, raw, f, det, parent_lookup, accepted_by_v1):
    """Same monitor on BzrGitMappingExperimental; separate mechanism keys, separate counters."""
    from dulwich.objects import Commit

    ctx.count("experimental_import")
    try:
        rev, roundtrip_revid, verifiers = mapping.import_commit(Commit.from_string(raw), mapping.revision_id_foreign_to_bzr, True)
    except Exception as e:
        name = type(e).__name__
        if name in REFUSALS:
            ctx.hist("experimental:rejected:" + name)
        elif not accepted_by_v1:
            ctx.hist("experimental:not-accepted-by-v1-either:" + name)
        else:
            import traceback

            fr = traceback.extract_tb(e.__traceback__)[-1]
            where = "%s.%s" % (os.path.splitext(os.path.basename(fr.filename))[0], fr.name)
            ctx.fail("experimental:import-raises@%s" % where, repr(e)[:300], det)
        return
    ctx.count("experimental_import_ok")
    try:
        c2 = mapping.export_commit(rev, c.tree, parent_lookup, True, verifiers)
        raw2 = c2.as_raw_string()
    except Exception as e:
        ctx.fail("experimental:export-raises:" + type(e).__name__, repr(e)[:300], det)
        return
    ctx.count("experimental_roundtrip_compared")
    if raw2 != raw and accepted_by_v1 and not f.get("malformed_identity") and not f.get("odd_zone"):
        ctx.fail("experimental:bytes-differ:" + ("+".join(field_diff(c, Commit.from_string(raw2))) or "layout"), "exported commit differs",
                 dict(det, exported=_lat(raw2)))


def case(ctx):
    M = 20 if ctx.tier == "quick" else 80
    for _ in range(M):
        raw, f = gen_commit(ctx.rng)
        judge(ctx, raw, f)
