"""C06 - aborted and suspended write groups have no visible effect until committed.

A real record stream from a generated source history is inserted (whole, or with records
dropped) into a write group of a target repository; the group is then aborted, committed,
or suspended / re-opened / resumed (possibly several times, possibly completed with the
missing records first).  Oracles: byte/keys-identical repository after abort or refusal,
content equal to a directly committed twin after resume+commit, refusal of groups whose new
revisions lack inventories or texts.
"""
import os
import shutil

from vf import gen, observe

ID = "C06"
LEVEL = "exploration"
TECHNIQUE = "differential twin + before/after snapshot monitors on real write groups fed from real record streams with generated record drops and suspend/resume/abort sequences"
LEVEL_TEXT = ("generated histories streamed into 2a / pack-0.92 targets (empty or holding a prefix): abort leaves key sets, pack-names bytes and packs/ indices/ listings identical and "
              "nothing of the group in upload/; suspend -> fresh open -> resume -> commit equals a directly committed twin (revisions, testaments, key sets, check clean); "
              "a group whose new revisions lack texts or inventories is refused by commit_write_group and leaves the repository unchanged")
RULE = ("case = (format, history, target prefix, dropped record set, ending sequence); non-trivial = >= 3 revisions streamed; distinct = (format, ending, drop class, history shape)")
CASES = {"quick": 96, "thorough": 1500}
BUDGET_S = {"quick": 50, "thorough": 800}
MIN_EVALS = {"quick": 30, "thorough": 400}
FLOORS = {"abort_unchanged": 8, "resume_commit_equals_twin": 8, "incomplete_refused": 8, "second_round_inserted": 4}
ASSUMPTIONS = ["'incomplete' is generated only in the unambiguous classes: a text record, an inventory record (or a CHK page) of a streamed revision dropped while its revision record is kept",
               "dropping only revision records (orphan inventories/texts) is not judged beyond 'no corruption'"]


def _fmt(name):
    from breezy.controldir import format_registry

    return format_registry.make_controldir(name)


_FALLBACK = {"path": None}


def _open(path):
    """Repository.open plus the case's fallback repository (stacked targets get it on every open, as a branch would do)."""
    from breezy.repository import Repository

    r = Repository.open(path)
    if _FALLBACK["path"] and not path.startswith(_FALLBACK["path"]):
        r.add_fallback_repository(Repository.open(_FALLBACK["path"]))
    return r


def _visible(path):
    """What fresh objects see + the bytes that define visibility."""
    from breezy.repository import Repository

    repo = Repository.open(path)  # own content only: what the write group may or may not have changed
    snap = observe.snap_repo(repo, testaments=False)
    rd = os.path.join(path, ".bzr", "repository")
    with open(os.path.join(rd, "pack-names"), "rb") as f:
        pn = f.read()
    return {"revisions": sorted(snap["revisions"]), "keys": snap["keys"], "pack-names": pn,
            "packs": observe.listing(os.path.join(rd, "packs")), "indices": observe.listing(os.path.join(rd, "indices"))}


def _upload(path):
    return observe.listing(os.path.join(path, ".bzr", "repository", "upload"))


def _stream(source, target_format, revids):
    from breezy.bzr import vf_search

    src = source._get_source(target_format)
    with source.lock_read():
        graph = source.get_graph()
        search = vf_search.PendingAncestryResult(revids, source) if False else None
    return src


def _filtered(stream, drop, seen):
    """Wrap a record stream: drop records whose (substream, key) is in drop; record every key seen."""
    for kind, sub in stream:
        def gen_(kind=kind, sub=sub):
            for rec in sub:
                seen.setdefault(kind, []).append(rec.key)
                if (kind, rec.key) in drop:
                    continue
                yield rec
        yield kind, gen_()


def _insert(target, source, tip, have, drop, seen, is_resume=False):
    """Insert the stream for ancestry(tip) - have into the open write group of target."""
    from breezy.bzr import vf_search

    sink = target._get_sink()
    src = source._get_source(target._format)
    with source.lock_read():
        graph = source.get_graph()
        want = [r for r in graph.find_unique_ancestors(tip, list(have)) ] if have else [k for k, _ in graph.iter_ancestry([tip]) if k != b"null:"]
        want = [r for r in want if r in set(source.all_revision_ids())]
        search = vf_search.SearchResult({tip}, set(have) & set(source.all_revision_ids()), len(want), want) if False else source.revision_ids_to_search_result(set(want))
        stream = src.get_stream(search)
        missing = sink.insert_stream_without_locking(_filtered(stream, drop, seen), source._format, is_resume=is_resume)
    return set(want), missing


def _twin_commit(path, source, tip, have):
    from breezy.repository import Repository

    t = _open(path)
    with t.lock_write():
        t.start_write_group()
        try:
            _insert(t, source, tip, have, set(), {})
            t.commit_write_group()
        except BaseException:
            t.abort_write_group(suppress_errors=True)
            raise
    return t


def case(ctx):
    from breezy import errors
    from bzrformats.errors import BzrCheckError
    from breezy.branch import Branch
    from breezy.controldir import ControlDir
    from breezy.repository import Repository

    rng = ctx.rng
    fmt = "2a" if rng.random() < 0.6 else "pack-0.92"
    try:
        h = gen.build_history(ctx, rng, fmt=fmt, nrevs=rng.randint(4, 8) if ctx.tier == "quick" else rng.randint(5, 14), nbranches=2, ghosts=False)
    except Exception as e:
        ctx.discard("history construction failed: %s" % type(e).__name__)
    bname = rng.choice(sorted(h.trees))
    sb = Branch.open(h.trees[bname])
    source = sb.repository
    tip = sb.last_revision()
    with source.lock_read():
        anc = [k for k, _ in source.get_graph().iter_ancestry([tip]) if k != b"null:"]
    if len(anc) < 2:
        ctx.discard("history too small")
    # target: empty, or holding the ancestry of an earlier revision
    root = ctx.tmp("c06")
    tpath = os.path.join(root, "t")
    ControlDir.create(tpath, format=_fmt(fmt)).create_repository()
    have = set()
    _FALLBACK["path"] = None
    stacked = fmt == "2a" and rng.random() < 0.3
    if stacked:
        # target stacked on a repository that already holds everything: the stream brings revisions whose
        # inventories / texts also exist in the fallback - the stacked repository must still be complete on its own
        fb = os.path.join(root, "fallback")
        ControlDir.create(fb, format=_fmt(fmt)).create_repository()
        Repository.open(fb).fetch(source, revision_id=tip)
        _FALLBACK["path"] = fb
        ctx.count("stacked_targets")
    elif rng.random() < 0.5:
        pre = rng.choice(anc[1:])
        t0 = Repository.open(tpath)
        t0.fetch(source, revision_id=pre)
        with t0.lock_read():
            have = set(t0.all_revision_ids())
    twin = os.path.join(root, "twin")
    shutil.copytree(tpath, twin)
    before = _visible(tpath)
    up_before = _upload(tpath)

    # what to drop
    drop_class = rng.choice(["none", "none", "none", "text", "inventory", "text"])
    ending = rng.choice(["abort", "commit", "suspend-resume-commit", "suspend-resume-abort", "suspend-resume-suspend-resume-commit", "abortfaulted", "abortfaulted",
                         "split-suspend-resume-more-suspend-resume-commit", "split-suspend-resume-more-suspend-resume-commit"]) if drop_class == "none" else \
        rng.choice(["commit", "suspend-resume-commit", "suspend-resume-complete-commit"])
    if drop_class == "inventory" and "complete" in ending and fmt == "2a":
        ending = "suspend-resume-commit"  # (a CHK inventory cannot be completed by re-sending one record)
    # dry pass on a scratch copy to learn the record keys of the stream
    seen = {}
    scratch = os.path.join(root, "dry")
    shutil.copytree(tpath, scratch)
    d = _open(scratch)
    with d.lock_write():
        d.start_write_group()
        try:
            want, _ = _insert(d, source, tip, have, set(), seen)
        finally:
            d.abort_write_group(suppress_errors=True)
    ctx.hist("substreams:" + "+".join(sorted(seen)))
    drop = set()
    if drop_class == "text":
        cands = [k for k in seen.get("texts", []) if k[-1] in want]
        if not cands:
            drop_class = "none"
            ending = "commit"
        else:
            drop = {("texts", k) for k in rng.sample(cands, min(len(cands), rng.randint(1, 2)))}
    elif drop_class == "inventory":
        kind = "inventories" if "inventories" in seen and seen["inventories"] else ("inventory-deltas" if seen.get("inventory-deltas") else None)
        cands = [k for k in seen.get(kind, []) if k[-1] in want] if kind else []
        present = set(before["keys"].get("chk_bytes") or [])
        new_pages = [k for k in seen.get("chk_bytes", []) if tuple(k) not in present and k not in present]
        if fmt == "2a" and rng.random() < 0.5 and new_pages:
            drop = {("chk_bytes", rng.choice(new_pages))}
        elif cands:
            drop = {(kind, rng.choice(cands))}
        else:
            drop_class = "none"
            ending = "commit"
    detail = {"format": fmt, "ending": ending, "drop_class": drop_class, "dropped": [repr(x) for x in sorted(drop)], "streamed_revisions": len(want), "target_had": len(have)}
    ctx.info["case"] = detail
    ctx.hist("ending:%s/%s" % (ending, drop_class))

    steps = ending.split("-")
    first_tip, first_want = tip, set()
    if steps[0] == "split":
        # the data arrives in two rounds with a suspend/resume in between: two packs, two resume tokens
        steps = steps[1:]
        with source.lock_read():
            mids = [q for q in source.get_parent_map([tip]).get(tip, ()) if q in want]
        if mids:
            first_tip = rng.choice(mids)
            ctx.count("split_groups")
        else:
            steps = [x for x in steps if x != "more"]
    t = _open(tpath)
    t.lock_write()
    t.start_write_group()
    locked = True
    tokens = None
    outcome = None
    try:
        try:
            first_want, _ = _insert(t, source, first_tip, have, drop, {})
        except Exception as e:
            if not drop:
                raise
            # the mutilated stream is already rejected while it is inserted (e.g. the dropped record carried the
            # groupcompress block): that is a refusal too - the group is aborted and nothing may have changed
            ctx.hist("refused-at-insert:" + type(e).__name__)
            t.abort_write_group(suppress_errors=True)
            outcome = "refused"
            steps = []
        i = 0
        while i < len(steps):
            st = steps[i]
            i += 1
            if st == "abortfaulted":
                # the partial pack vanishes from upload/ (tmp cleaner, full disk ...) so discarding it fails; the same
                # repository object must afterwards show nothing of the aborted group and accept a new write group
                up = os.path.join(tpath, ".bzr", "repository", "upload")
                for f in os.listdir(up):
                    if os.path.isfile(os.path.join(up, f)):
                        os.unlink(os.path.join(up, f))
                try:
                    t.abort_write_group()
                    ctx.hist("abortfaulted:abort-returned")
                except Exception as e:
                    ctx.hist("abortfaulted:abort-raised:" + type(e).__name__)
                ctx.count("abort_faulted")
                if t.is_in_write_group():
                    ctx.fail("abort-faulted:still-in-write-group", "after a failing abort_write_group the repository still reports an open write group", detail)
                else:
                    own = set(before["keys"].get("texts") or [])
                    try:
                        now_keys = set(t.texts.keys())
                        extra = now_keys - own - (set(Repository.open(_FALLBACK["path"]).texts.keys()) if _FALLBACK["path"] and False else set())
                        if extra and not _FALLBACK["path"]:
                            ctx.fail("abort-faulted:aborted-data-visible", "texts of the aborted group are visible in the same repository object: %r" % (sorted(extra)[:3],), detail)
                        t.start_write_group()
                        _insert(t, source, tip, have, set(), {})
                        t.commit_write_group()
                        outcome = "committed"
                        complete_after_fault = True
                    except Exception as e:
                        ctx.fail("abort-faulted:next-write-group-broken:%s" % type(e).__name__, "after a failing abort the same object cannot run the next write group: %r" % (e,), detail)
                        outcome = "aborted"
            elif st == "abort":
                t.abort_write_group()
                outcome = "aborted"
            elif st == "suspend":
                tokens = t.suspend_write_group()
                t.unlock()
                locked = False
                ctx.count("suspends")
                # nothing visible while suspended
                now = _visible(tpath)
                ctx.count("suspended_invisible")
                if now != before:
                    ctx.fail("suspended-group-visible", "repository differs while the write group is suspended: %r" % ([k for k in before if before[k] != now[k]],), detail)
            elif st == "resume":
                t = _open(tpath)  # a different process resumes
                t.lock_write()
                locked = True
                t.resume_write_group(tokens)
            elif st == "more":
                _insert(t, source, tip, set(have) | set(first_want), set(), {}, is_resume=True)
                ctx.count("second_round_inserted")
            elif st == "complete":
                # what a real client does with the sink's missing keys: send the missing records
                with source.lock_read():
                    for kind, vf_s, vf_t in (("texts", source.texts, t.texts), ("inventories", source.inventories, t.inventories)):
                        keys = [key for k2, key in drop if k2 == kind]
                        if keys:
                            vf_t.insert_record_stream(vf_s.get_record_stream(keys, "unordered", True))
            elif st == "commit":
                try:
                    t.commit_write_group()
                    outcome = "committed"
                except BzrCheckError as e:
                    outcome = "refused"
                    ctx.hist("refusal:BzrCheckError")
                    if t.is_in_write_group():
                        t.abort_write_group(suppress_errors=True)
    finally:
        if locked:
            if t.is_in_write_group():
                t.abort_write_group(suppress_errors=True)
            t.unlock()
    after = _visible(tpath)
    complete = drop_class == "none" or "complete" in steps
    if outcome == "aborted" and "abortfaulted" not in steps:
        ctx.count("abort_unchanged")
        if after != before:
            ctx.fail("abort-changed-repository", "after abort differs in %r" % ([k for k in before if before[k] != after[k]],), detail)
        up = _upload(tpath)
        if up != up_before and "abortfaulted" not in steps:
            ctx.fail("abort-left-upload-files", "upload/ after abort: %r" % (up[:4],), detail)
    elif outcome == "refused":
        ctx.check(not complete, "complete-group-refused", "a complete write group was refused", detail)
        ctx.count("incomplete_refused")
        if after != before:
            ctx.fail("refused-group-changed-repository", "after the refused commit differs in %r" % ([k for k in before if before[k] != after[k]],), detail)
    elif outcome == "committed":
        if not complete:
            ctx.fail("incomplete-group-committed:%s:%s" % (drop_class, fmt), "a write group lacking %r of its new revisions was committed" % (sorted(drop)[:2],), detail)
        else:
            tw = _twin_commit(twin, source, tip, have)
            a = observe.snap_repo(_open(tpath))
            b = observe.snap_repo(_open(twin))
            ctx.count("resume_commit_equals_twin" if "resume" in steps else "commit_equals_twin")
            if a != b:
                diff = [k for k in a["keys"] if a["keys"][k] != b["keys"].get(k)] + (["revisions"] if a["revisions"] != b["revisions"] else [])
                ctx.fail("commit-differs-from-direct-commit", "after %s the repository differs from a directly committed twin in %r" % (ending, diff), detail)
            probs = observe.check_repo(_open(tpath))
            ctx.check(not probs, "check-unclean-after-commit", repr(probs), detail)
            r = _open(tpath)
            with r.lock_read():
                ctx.check(want <= set(r.all_revision_ids()), "streamed-revisions-missing-after-commit", "missing %r" % (sorted(want - set(r.all_revision_ids()))[:3],), detail)
    ctx.note((fmt, ending, drop_class, len(want), len(have) > 0), nontrivial=len(want) >= 3, sample=dict(detail, outcome=outcome))
