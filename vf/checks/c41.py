"""C41 - testaments are deterministic and sensitive to every attested field.

Model revisions (tree + metadata + small history, everything chosen by the
generator: file ids, root id, revision ids, timestamps ...) are built with the
real working tree / commit code in 2a, pack-0.92 and rich-root-pack, and the
three testament classes are computed by the real ``breezy.bzr.testament`` on
fresh ``Repository.open`` objects.

* determinism: the same model revision built with another add order, in another
  format, after ``pack()``, and after ``fetch`` into a repository of another
  format has byte-identical ``as_text`` / ``as_short_text`` (Testament and
  StrictTestament across root models, StrictTestament3 within one root model);
  ``from_revision`` == ``from_revision_tree``; the short form carries the sha1
  of the long form.  Before texts are compared the *stored* attested data of both
  builds is read back and compared - builds that do not store equal data are
  discarded, not judged.
* sensitivity: a single-field perturbation of the model revision (path, content,
  exec bit, symlink target, message, committer, timestamp, timezone, parents,
  one revision property) is built the same way; if the stored attested data
  differ, the text of every class that attests the field must differ.  The exec
  bit is attested by the strict classes only; the plain Testament must *not*
  change for an exec-only perturbation (equal attested data => equal text).
"""
import hashlib
import os

ID = "C41"
LEVEL = "exploration"
TECHNIQUE = ("differential builds of generated model revisions through the real commit code; testament texts compared "
             "for equal stored data (formats, add order, pack, fetch) and for single-field perturbations")
LEVEL_TEXT = ("held on the sampled model revisions (<= 9 entries, <= 3 commits + side/ghost parents) in 2a, pack-0.92, "
              "rich-root-pack, and on the sampled single-field perturbations of their tip revision")
RULE = ("case = one generated model revision (tree with unicode/space/backslash names, symlinks, exec bits; message, "
        "committer, float timestamp, timezone, parents incl. side revision and ghost, revprops); evaluations = each "
        "determinism route (reorder, other format, pack, fetch, constructors) and each perturbation judged; "
        "non-trivial = the revision has >= 3 entries and the route/perturbation produced stored data as intended; "
        "distinct = distinct (model revision, route or perturbation)")
CASES = {"quick": 160, "thorough": 3200}
BUDGET_S = {"quick": 45, "thorough": 700}
MIN_EVALS = {"quick": 200, "thorough": 3000}
FLOORS = {
    "oracle_determinism_reorder": 10,
    "oracle_determinism_format": 10,
    "oracle_determinism_pack": 10,
    "oracle_determinism_fetch": 10,
    "oracle_constructors": 20,
    "oracle_short_form": 50,
    "oracle_sensitivity": 80,
    "oracle_sensitivity_strict_exec": 3,
    "oracle_v1_ignores_exec": 2,
}
EXHAUSTIVE = {"quick": False, "thorough": False}
RUST = []  # property anchored in Python only; Rust helpers come from the prebuilt breezy/*.so
ASSUMPTIONS = [
    "six text-level folding mechanisms (line terminators in message / revprop values, sub-second timestamps, backslash "
    "in symlink targets, order of merged parents) are genuine findings with their own keys: fixes/C41-testament-text-folding.md",
    "attested data = what the repository stores and returns (get_revision, revision_tree): perturbations that the "
    "commit code normalises away are discarded, not judged",
    "StrictTestament3 attests the root entry: compared only between rich-root formats (2a, rich-root-pack) or within "
    "one format",
    "paths, ids and committers without line breaks / whitespace in ids (testament refuses those loudly: counted)",
    "sha1 collisions are ignored when the short form is compared",
]

FORMATS = ["2a", "pack-0.92", "rich-root-pack"]
RICH = {"2a": True, "rich-root-pack": True, "pack-0.92": False}
CLASSES = ("Testament", "StrictTestament", "StrictTestament3")

DIRS = ["dir", "dir/sub", "d 2", "ü dir"]
FILES = ["a", "b c", "ü", "日本 語", "back\\slash", "Mixed.Case", "-dash", "#h", "q'\"", "exe.sh", "zz", "0"]
LINKS = ["ln", "l n", "ü-ln"]
CONTENTS = [b"", b"hello\n", b"no newline", b"crlf\r\n", b"\x00bin\xff\n", b"line1\nline2\n", b"x" * 3000, "ünï\n".encode("utf-8")]
TARGETS = ["a", "dir/x", "../up", "sp ace", "ü", "back\\slash", "/abs/path", "dir/sub/", "."]
MESSAGES = ["simple", "two\nlines", "ünïcode ✓ message", "trailing newline\n", "  leading spaces", "", "tab\tin", "a\n\nb",
            "x" * 300, "inventory:\n  file a", "properties:", "multi\nline\nmessage\n"]
COMMITTERS = ["Joe <joe@example.com>", "Jöe Ünicode <j@x.org>", "no-email", "a  b <c>", "<only@email>", "x"]
TIMEZONES = [0, 3600, -3600, 19800, -12600, 2700, 43200, -39600]
PROP_NAMES = ["k1", "ü", "deb-pristine-delta", "a.b-c_d", "bugs", "author"]
PROP_VALUES = ["v", "multi\nline", "", "ünï", " lead", "trail ", "https://bugs.example.com/1 fixed", "x" * 200, "a\n\nb"]
REVIDS = [b"rev-%d", "rév-%d".encode("utf-8"), b"joe@example.com-2020-%d"]


def fid(path):
    return ("id-" + path.replace("/", "_").replace(" ", "+").replace("\\", "!")).encode("utf-8")


# ------------------------------------------------------------------ generator

def gen_tree(rng):
    dirs = set()
    for d in rng.sample(DIRS, rng.randint(0, 3)):
        parts = d.split("/")
        for i in range(1, len(parts) + 1):
            dirs.add("/".join(parts[:i]))
    tree = {d: {"kind": "directory"} for d in dirs}
    where = [""] + sorted(dirs)
    for name in rng.sample(FILES, rng.randint(1, 6)):
        p = rng.choice(where)
        path = (p + "/" if p else "") + name
        tree[path] = {"kind": "file", "content": rng.choice(CONTENTS), "exec": rng.random() < 0.3}
    for name in rng.sample(LINKS, rng.choice([0, 0, 1, 2])):
        p = rng.choice(where)
        path = (p + "/" if p else "") + name
        tree[path] = {"kind": "symlink", "target": rng.choice(TARGETS)}
    for path, e in tree.items():
        e["id"] = fid(path)
    return tree


def gen_meta(rng, i):
    ts = float(rng.randint(0, 2_000_000_000))
    if rng.random() < 0.4:
        ts += rng.choice([0.5, 0.25, 0.123, 0.999])
    props = {}
    for n in rng.sample(PROP_NAMES, rng.choice([0, 0, 1, 2, 3])):
        props[n] = rng.choice(PROP_VALUES)
    return {"message": rng.choice(MESSAGES), "committer": rng.choice(COMMITTERS), "timestamp": ts,
            "timezone": rng.choice(TIMEZONES), "revprops": props}


def gen_spec(rng):
    """A history of 1-3 mainline commits (+ optional side revision, ghost); the last one is the subject."""
    final = gen_tree(rng)
    idf = rng.choice(REVIDS)
    n = rng.choice([1, 2, 2, 3])
    commits = []
    for i in range(n):
        if i == n - 1:
            tree = final
        else:
            # an earlier state: subset of the final entries, some with other content / exec / target
            tree = {}
            for p, e in sorted(final.items(), key=lambda kv: (kv[0].count("/"), kv[0])):
                parent = p.rsplit("/", 1)[0] if "/" in p else None
                if rng.random() < 0.7 and (parent is None or parent in tree):
                    e2 = dict(e)
                    if e2["kind"] == "file" and rng.random() < 0.4:
                        e2["content"] = rng.choice(CONTENTS)
                    if e2["kind"] == "file" and rng.random() < 0.2:
                        e2["exec"] = not e2["exec"]
                    tree[p] = e2
        c = dict(gen_meta(rng, i), rev_id=idf % i, tree=tree, parents=[commits[-1]["rev_id"]] if commits else [])
        commits.append(c)
    tip = commits[-1]
    if len(commits) >= 2 and rng.random() < 0.45:
        # side revision on top of the first commit, merged into the tip
        base = commits[0]
        side_tree = {p: dict(e) for p, e in base["tree"].items()}
        for p, e in side_tree.items():
            if e["kind"] == "file" and rng.random() < 0.5:
                e["content"] = rng.choice(CONTENTS)
        side = dict(gen_meta(rng, 9), rev_id=b"side-rev", tree=side_tree, parents=[base["rev_id"]])
        commits.insert(len(commits) - 1, side)
        tip["parents"] = tip["parents"] + [b"side-rev"]
    r = rng.random()
    if tip["parents"] and r < 0.4:
        tip["parents"] = tip["parents"] + [b"ghost-rev"]
        if r < 0.15:
            tip["parents"] = tip["parents"] + [b"a-second-ghost"]
    return {"root_id": rng.choice([b"root-id", b"TREE_ROOT", "rööt".encode("utf-8")]), "commits": commits}


def jtree(tree):
    out = {}
    for p, e in sorted(tree.items()):
        if e["kind"] == "file":
            out[p] = ["file", hashlib.sha1(e["content"]).hexdigest()[:8], e["exec"]]
        elif e["kind"] == "symlink":
            out[p] = ["symlink", e["target"]]
        else:
            out[p] = ["directory"]
    return out


def jspec(spec):
    tip = spec["commits"][-1]
    return {"commits": len(spec["commits"]), "rev_id": tip["rev_id"].decode("utf-8"), "parents": [p.decode("utf-8") for p in tip["parents"]],
            "message": tip["message"], "committer": tip["committer"], "timestamp": tip["timestamp"], "timezone": tip["timezone"],
            "revprops": tip["revprops"], "tree": jtree(tip["tree"])}


# ------------------------------------------------------------------ builder (real code)

def _set_state(wt, tree, order_rng):
    """Make the working tree exactly `tree` (explicit ids), adding in an order chosen by order_rng."""
    root = wt.basedir
    old = [p for p, _e in wt.iter_entries_by_dir() if p]
    if old:
        wt.unversion(old)
    for p in sorted(old, reverse=True):
        ap = os.path.join(root, p)
        if os.path.islink(ap) or not os.path.isdir(ap):
            os.unlink(ap)
        else:
            os.rmdir(ap)
    paths = sorted(tree, key=lambda p: (p.count("/"), p))
    for p in paths:
        e = tree[p]
        ap = os.path.join(root, p)
        if e["kind"] == "directory":
            os.mkdir(ap)
        elif e["kind"] == "file":
            with open(ap, "wb") as f:
                f.write(e["content"])
            os.chmod(ap, 0o755 if e["exec"] else 0o644)
        else:
            os.symlink(e["target"], ap)
    if order_rng is not None:
        # any order in which parents come before children
        pending = list(paths)
        order_rng.shuffle(pending)
        done, order = set(), []
        while pending:
            for p in list(pending):
                parent = p.rsplit("/", 1)[0] if "/" in p else None
                if parent is None or parent in done:
                    order.append(p)
                    done.add(p)
                    pending.remove(p)
        paths = order
        if order_rng.random() < 0.5:
            for p in paths:
                wt.add([p], ids=[tree[p]["id"]])
            return
    if paths:
        wt.add(paths, ids=[tree[p]["id"] for p in paths])


def build(spec, fmt, base, order_rng=None):
    """Build the whole history of `spec` in a fresh standalone tree of format `fmt`; returns its path."""
    from breezy.controldir import ControlDir, format_registry

    root = os.path.join(base, "t")     # same directory name everywhere: branch nick is a revprop
    os.makedirs(root)
    wt = ControlDir.create_standalone_workingtree(root, format=format_registry.make_controldir(fmt))
    with wt.lock_write():
        wt.set_root_id(spec["root_id"])
        for c in spec["commits"]:
            tip = wt.branch.last_revision()
            if c["parents"]:
                if tip != c["parents"][0]:
                    wt.branch.generate_revision_history(c["parents"][0])
                wt.set_parent_ids(list(c["parents"]))
            _set_state(wt, c["tree"], order_rng)
            wt.commit(c["message"], rev_id=c["rev_id"], timestamp=c["timestamp"], timezone=c["timezone"],
                      committer=c["committer"], revprops=dict(c["revprops"]), allow_pointless=True)
    return root


def observe(path, rev_id, ctx=None):
    """(attested data as stored, {class: (text, short)}) through a fresh Repository.open."""
    from breezy.repository import Repository
    from breezy.bzr import testament as T

    repo = Repository.open(path)
    out = {}
    with repo.lock_read():
        rev = repo.get_revision(rev_id)
        tree = repo.revision_tree(rev_id)
        entries = []
        root = None
        for p, ie in tree.iter_entries_by_dir():
            if p == "":
                root = (ie.file_id, ie.revision)
                continue
            if ie.kind == "file":
                entries.append((p, ie.file_id, "file", ie.text_sha1, bool(ie.executable), ie.revision))
            elif ie.kind == "symlink":
                entries.append((p, ie.file_id, "symlink", ie.symlink_target, False, ie.revision))
            else:
                entries.append((p, ie.file_id, ie.kind, None, False, ie.revision))
        data = {"revision_id": rev.revision_id, "committer": rev.committer, "timestamp": rev.timestamp,
                "timezone": rev.timezone, "parents": tuple(rev.parent_ids), "message": rev.message,
                "revprops": tuple(sorted(rev.properties.items())), "entries": tuple(sorted(entries)), "root": root}
        for name in CLASSES:
            cls = getattr(T, name)
            t = cls.from_revision(repo, rev_id)
            text = t.as_text()
            short = t.as_short_text()
            out[name] = (text, short)
            if ctx is not None:
                ctx.count("oracle_short_form")
                sha = hashlib.sha1(text).hexdigest().encode("ascii")
                if not short.endswith(b"sha1: " + sha + b"\n") or rev_id not in short:
                    ctx.fail("short-form:not-sha1-of-long-form:" + name, "short text does not carry sha1(as_text())",
                             {"short": short.decode("utf-8", "replace")})
                if b"".join(t.as_text_lines()) != text or cls.from_revision(repo, rev_id).as_text() != text:
                    ctx.fail("determinism:same-object-twice:" + name, "as_text differs between two calls", None)
                ctx.count("oracle_constructors")
                t2 = cls.from_revision_tree(repo.revision_tree(rev_id))
                if t2.as_text() != text or t2.as_short_text() != short:
                    ctx.fail("determinism:from_revision_tree:" + name, "from_revision and from_revision_tree disagree", None)
    return data, out


def full(data, cls):
    """The stored data a reader of the statement would call 'attested' for class cls (no text-level folding)."""
    ent = []
    for p, f, k, c, x, r in data["entries"]:
        ent.append((p, f, k, c) if cls == "Testament" else (p, f, k, c, x, r))
    d = (data["revision_id"], data["committer"], data["timestamp"], data["timezone"], data["parents"], data["message"],
         data["revprops"], tuple(ent))
    if cls == "StrictTestament3":
        d = d + (data["root"],)
    return d


# ------------------------------------------------------------------ perturbations

def _clone(spec):
    return {"root_id": spec["root_id"],
            "commits": [dict(c, tree={p: dict(e) for p, e in c["tree"].items()}, parents=list(c["parents"]),
                             revprops=dict(c["revprops"])) for c in spec["commits"]]}


def _tweak(s, rng):
    """Change one character of a non-empty str (never introduces a line break)."""
    i = rng.randrange(len(s))
    repl = rng.choice([c for c in "xyzQ7é" if c != s[i]])
    return s[:i] + repl + s[i + 1:]


def perturb(spec, rng):
    """Returns (field, klass, spec') or None.  field names the single attested field that was changed."""
    s = _clone(spec)
    tip = s["commits"][-1]
    tree = tip["tree"]
    files = sorted(p for p, e in tree.items() if e["kind"] == "file")
    links = sorted(p for p, e in tree.items() if e["kind"] == "symlink")
    leaves = files + links
    kind = rng.choice(["path", "path-move", "content", "content", "exec", "target", "message", "message-line", "committer",
                       "timestamp", "timezone", "parents", "revprop-value", "revprop-add", "revprop-remove", "revprop-name",
                       # text-level edge classes: only line structure / sub-second / order changes
                       "message-terminator", "message-line-end-space", "timestamp-subsecond", "parents-order", "target-backslash", "revprop-terminator"])
    if kind == "path" and leaves:
        p = rng.choice(leaves)
        d, _, b = p.rpartition("/")
        nb = _tweak(b, rng) if b else "n"
        np_ = (d + "/" if d else "") + nb
        if np_ in tree or "\n" in np_:
            return None
        tree[np_] = tree.pop(p)      # same file id: a rename
        return "path", "rename-basename", s
    if kind == "path-move" and leaves:
        p = rng.choice(leaves)
        dirs = [""] + sorted(q for q, e in tree.items() if e["kind"] == "directory")
        d = rng.choice(dirs)
        np_ = (d + "/" if d else "") + p.rsplit("/", 1)[-1]
        if np_ in tree:
            return None
        tree[np_] = tree.pop(p)
        return "path", "move-to-other-directory", s
    if kind == "content" and files:
        p = rng.choice(files)
        c = tree[p]["content"]
        nc = rng.choice([c + b"\n", c[:-1] if c else b"x", c.swapcase() if c.swapcase() != c else c + b"!", b""])
        if nc == c:
            return None
        tree[p]["content"] = nc
        return "content", "bytes-changed", s
    if kind == "exec" and files:
        p = rng.choice(files)
        tree[p]["exec"] = not tree[p]["exec"]
        return "exec", "flip", s
    if kind == "target" and links:
        p = rng.choice(links)
        tree[p]["target"] = _tweak(tree[p]["target"], rng)
        return "target", "char-changed", s
    if kind == "message":
        m = tip["message"]
        tip["message"] = _tweak(m, rng) if m and not m.isspace() else m + "w"
        if "\n" in m and tip["message"].count("\n") != m.count("\n"):
            return None
        return "message", "char-changed", s
    if kind == "message-line":
        tip["message"] = tip["message"] + ("\n" if tip["message"] and not tip["message"].endswith("\n") else "") + "another line"
        return "message", "line-added", s
    if kind == "committer":
        tip["committer"] = _tweak(tip["committer"], rng)
        return "committer", "char-changed", s
    if kind == "timestamp":
        tip["timestamp"] = tip["timestamp"] + rng.choice([1, -1, 60, 86400, 1000000]) if tip["timestamp"] > 1 else tip["timestamp"] + 5
        return "timestamp", "whole-seconds", s
    if kind == "timezone":
        tip["timezone"] = rng.choice([z for z in TIMEZONES + [60, -60] if z != tip["timezone"]])
        return "timezone", "changed", s
    if kind == "parents" and tip["parents"]:
        extra = tip["parents"][1:]
        r = rng.random()
        if r < 0.4 and b"ghost-rev" not in extra:
            tip["parents"] = tip["parents"] + [b"ghost-rev"]
            return "parents", "ghost-added", s
        if r < 0.7 and extra:
            tip["parents"] = tip["parents"][:-1]
            return "parents", "last-removed", s
        if b"ghost-rev" in extra:
            tip["parents"] = [b"ghost-2" if p == b"ghost-rev" else p for p in tip["parents"]]
            return "parents", "ghost-renamed", s
        tip["parents"] = tip["parents"] + [b"ghost-2"]
        return "parents", "ghost-added", s
    if kind == "revprop-value" and tip["revprops"]:
        k = rng.choice(sorted(tip["revprops"]))
        v = tip["revprops"][k]
        tip["revprops"][k] = _tweak(v, rng) if v and "\n" not in v else v + "w"
        return "revprops", "value-changed", s
    if kind == "revprop-add":
        free = [n for n in PROP_NAMES + ["extra-prop"] if n not in tip["revprops"]]
        tip["revprops"][rng.choice(free)] = rng.choice(PROP_VALUES)
        return "revprops", "property-added", s
    if kind == "revprop-remove" and tip["revprops"]:
        del tip["revprops"][rng.choice(sorted(tip["revprops"]))]
        return "revprops", "property-removed", s
    if kind == "revprop-name" and tip["revprops"]:
        k = rng.choice(sorted(tip["revprops"]))
        nk = k + "2"
        if nk in tip["revprops"]:
            return None
        tip["revprops"][nk] = tip["revprops"].pop(k)
        return "revprops", "property-renamed", s
    # ---- edge classes
    if kind == "message-terminator":
        m = tip["message"]
        r = rng.random()
        if r < 0.4:
            tip["message"] = m[:-1] if m.endswith("\n") else m + "\n"
            return "message", "trailing-newline-only", s
        if "\n" in m.rstrip("\n"):
            i = m.index("\n")
            tip["message"] = m[:i] + rng.choice(["\x0b", "\x0c", "\x1c", "\x85", " "]) + m[i + 1:]
            return "message", "line-separator-kind-only", s
        return None
    if kind == "message-line-end-space":
        # only white space at the end of one message line differs (or an empty separator line vs one holding blanks)
        m = tip["message"]
        lines = m.split("\n")
        i = rng.randrange(len(lines))
        ws = rng.choice([" ", "  ", "\t", " \t"])
        if lines[i].endswith((" ", "\t")) and rng.random() < 0.5:
            lines[i] = lines[i].rstrip(" \t")
        else:
            lines[i] = lines[i] + ws
        nm = "\n".join(lines)
        if nm == m:
            return None
        tip["message"] = nm
        return "message", "white-space-at-line-end-only", s
    if kind == "revprop-terminator" and tip["revprops"]:
        k = rng.choice(sorted(tip["revprops"]))
        v = tip["revprops"][k]
        if not v:
            return None
        tip["revprops"][k] = v[:-1] if v.endswith("\n") else v + "\n"
        return "revprops", "value-trailing-newline-only", s
    if kind == "timestamp-subsecond":
        ts = tip["timestamp"]
        frac = ts - int(ts)
        tip["timestamp"] = int(ts) + (0.5 if abs(frac - 0.5) > 0.01 else 0.25)
        if tip["timestamp"] == ts:
            return None
        return "timestamp", "sub-second-only", s
    if kind == "parents-order" and len(tip["parents"]) >= 3:
        p = tip["parents"]
        tip["parents"] = [p[0]] + p[1:][::-1]
        return "parents", "order-of-merged-parents-only", s
    if kind == "target-backslash" and links:
        cands = [p for p in links if "\\" in tree[p]["target"] or "/" in tree[p]["target"].strip("/")]
        if not cands:
            return None
        p = rng.choice(cands)
        t = tree[p]["target"]
        tree[p]["target"] = t.replace("\\", "/", 1) if "\\" in t else t.replace("/", "\\", 1)
        if tree[p]["target"] == t:
            return None
        return "target", "backslash-vs-slash-only", s
    return None


ATTESTS = {
    "path": CLASSES, "content": CLASSES, "target": CLASSES, "message": CLASSES, "committer": CLASSES,
    "timestamp": CLASSES, "timezone": CLASSES, "parents": CLASSES, "revprops": CLASSES,
    "exec": ("StrictTestament", "StrictTestament3"),
}


# ------------------------------------------------------------------ the case

def _safe_build(ctx, spec, fmt, tag, order_rng=None):
    try:
        return build(spec, fmt, ctx.tmp(tag), order_rng)
    except Exception as e:
        ctx.hist("build-refused:%s:%s" % (tag, type(e).__name__))
        return None


def compare_equal(ctx, route, spec, fa, fb, A, B, classes):
    """Determinism: equal stored data => equal text."""
    da, ta = A
    db, tb = B
    judged = 0
    for name in classes:
        if full(da, name) != full(db, name):
            ctx.hist("determinism:%s:stored-data-differs:%s" % (route, name))
            continue
        judged += 1
        if ta[name][0] != tb[name][0]:
            ctx.fail("determinism:%s:text-differs:%s" % (route, name), "equal stored data, different as_text (%s vs %s)" % (fa, fb),
                     {"spec": jspec(spec), "a": ta[name][0].decode("utf-8", "replace"), "b": tb[name][0].decode("utf-8", "replace")})
        elif ta[name][1] != tb[name][1]:
            ctx.fail("determinism:%s:short-differs:%s" % (route, name), "equal text, different as_short_text", {"spec": jspec(spec)})
    return judged


def case(ctx):
    import random

    rng = ctx.rng
    spec = gen_spec(rng)
    tip = spec["commits"][-1]
    rev_id = tip["rev_id"]
    fmt = FORMATS[ctx.index % len(FORMATS)]
    nontrivial = len(tip["tree"]) >= 3
    sig = jspec(spec)
    p0 = _safe_build(ctx, spec, fmt, "base")
    if p0 is None:
        ctx.discard("base-build-refused")
    try:
        A = observe(p0, rev_id, ctx)
    except (ValueError, AssertionError) as e:
        # documented loud refusals (whitespace in ids, line breaks in paths/committer ...)
        ctx.hist("testament-refused:%s" % type(e).__name__)
        ctx.discard("testament-refused")
    ctx.hist("format:" + fmt)
    ctx.hist("parents:%d" % len(tip["parents"]))
    ctx.distinct("testament-texts", A[1]["StrictTestament3"][0])

    # ---- determinism routes
    # (1) other add order, same format
    p1 = _safe_build(ctx, spec, fmt, "reorder", random.Random(rng.getrandbits(64)))
    if p1 is not None:
        ctx.count("oracle_determinism_reorder")
        j = compare_equal(ctx, "add-order", spec, fmt, fmt, A, observe(p1, rev_id), CLASSES)
        ctx.note((sig, "reorder", fmt), nontrivial=nontrivial and j == 3)
    # (2) other format
    other = rng.choice([f for f in FORMATS if f != fmt])
    p2 = _safe_build(ctx, spec, other, "fmt", random.Random(rng.getrandbits(64)) if rng.random() < 0.5 else None)
    if p2 is not None:
        ctx.count("oracle_determinism_format")
        cls = CLASSES if RICH[fmt] == RICH[other] else CLASSES[:2]
        j = compare_equal(ctx, "format", spec, fmt, other, A, observe(p2, rev_id), cls)
        ctx.hist("format-pair:%s/%s" % tuple(sorted([fmt, other])))
        ctx.note((sig, "format", fmt, other), nontrivial=nontrivial and j == len(cls),
                 sample=dict(sig, route="format %s vs %s" % (fmt, other), equal_classes=list(cls)) if rng.random() < 0.05 else None)
    # (3) pack() then reopen
    try:
        from breezy.repository import Repository

        r = Repository.open(p0)
        with r.lock_write():
            r.pack()
        del r
        ctx.count("oracle_determinism_pack")
        j = compare_equal(ctx, "pack", spec, fmt, fmt, A, observe(p0, rev_id), CLASSES)
        ctx.note((sig, "pack", fmt), nontrivial=nontrivial and j == 3)
    except Exception as e:
        ctx.fail("determinism:pack:raised:%s" % type(e).__name__, repr(e)[:300], {"spec": sig})
    # (4) fetch into a repository of another (fetch-compatible) format
    try:
        from breezy.controldir import ControlDir, format_registry
        from breezy.repository import Repository

        targets = ["2a"]
        if fmt == "pack-0.92":
            targets = ["2a", "rich-root-pack", "pack-0.92"]
        elif fmt == "rich-root-pack":
            targets = ["2a", "rich-root-pack"]
        tf = rng.choice(targets)
        pf = os.path.join(ctx.tmp("fetch"), "t")
        os.makedirs(pf)
        tr = ControlDir.create(pf, format=format_registry.make_controldir(tf)).create_repository()
        tr.fetch(Repository.open(p0), revision_id=rev_id)
        del tr
        ctx.count("oracle_determinism_fetch")
        cls = CLASSES if RICH[fmt] == RICH[tf] else CLASSES[:2]
        j = compare_equal(ctx, "fetch", spec, fmt, tf, A, observe(pf, rev_id), cls)
        ctx.hist("fetch:%s>%s" % (fmt, tf))
        ctx.note((sig, "fetch", fmt, tf), nontrivial=nontrivial and j == len(cls))
    except Exception as e:
        ctx.fail("determinism:fetch:raised:%s" % type(e).__name__, repr(e)[:300], {"spec": sig})

    # ---- sensitivity
    want = 4 if ctx.tier == "quick" else 6
    tries = 0
    done = 0
    while done < want and tries < want * 4:
        tries += 1
        pr = perturb(spec, rng)
        if pr is None:
            continue
        field, klass, spec2 = pr
        p3 = _safe_build(ctx, spec2, fmt, "pert")
        if p3 is None:
            ctx.hist("perturbation-refused:%s:%s" % (field, klass))
            continue
        try:
            B = observe(p3, spec2["commits"][-1]["rev_id"])
        except (ValueError, AssertionError) as e:
            ctx.hist("testament-refused:%s" % type(e).__name__)
            continue
        done += 1
        ctx.count("oracle_sensitivity")
        ctx.hist("perturb:%s:%s" % (field, klass))
        da, ta = A
        db, tb = B
        judged = False
        blind = []
        for name in CLASSES:
            same_stored = full(da, name) == full(db, name)
            if name in ATTESTS[field]:
                if same_stored:
                    ctx.hist("perturb-vacuous:%s:%s:%s" % (field, klass, name))
                    continue
                judged = True
                if field == "exec":
                    ctx.count("oracle_sensitivity_strict_exec")
                if ta[name][0] == tb[name][0] or ta[name][1] == tb[name][1]:
                    blind.append(name)
            else:
                # the class does not attest the field: equal attested data => equal text
                if field == "exec" and name == "Testament":
                    ctx.count("oracle_v1_ignores_exec")
                    if ta[name][0] != tb[name][0]:
                        ctx.fail("determinism:unattested-exec-changes-text:Testament",
                                 "plain Testament changed although only the exec bit differs", {"spec": sig, "perturbed": jspec(spec2)})
        if blind:
            ctx.hist("insensitive-classes:%s:%s:%s" % (field, klass, "+".join(blind)))
            ctx.fail("insensitive:%s:%s" % (field, klass),
                     "stored %s differs (%s) but the text of %s is identical" % (field, klass, ", ".join(blind)),
                     {"classes": blind, "spec": sig, "perturbed": jspec(spec2),
                      "text": ta[blind[0]][0].decode("utf-8", "replace")[:1500]})
        ctx.note((sig, "perturb", field, klass, jspec(spec2)), nontrivial=nontrivial and judged,
                 sample=dict(sig, perturbation="%s:%s" % (field, klass), perturbed=jspec(spec2)) if rng.random() < 0.03 else None)
