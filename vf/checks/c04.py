"""C04 - pack repositories are crash-atomic.

One real execution of commit / autopacking commit / fetch / pack() goes through the vf+
transport; the repository directory is copied after every mutating transport operation
(and in torn variants of non-atomic writes), so one execution yields all its crash prefixes.
Every crash state is re-opened with fresh objects and judged.
"""
import os
import shutil

from vf import boot, instr, observe

ID = "C04"
LEVEL = "fault_enumeration"
TECHNIQUE = "crash-prefix enumeration: directory snapshot after every mutating transport op of a real execution, offline crash-state judge on fresh objects"
LEVEL_TEXT = ("every crash prefix (process stop before/after each file-system operation, plus torn variants of non-atomic writes) of observed executions of "
              "commit, autopacking commit, fetch, pack(), pack(clean_obsolete_packs) in 2a and pack-0.92 is re-opened and judged: revision set old-or-new and monotone, "
              "every listed revision fully readable, check() clean, a following commit and pack succeed")
RULE = ("case = (format, scenario, prefix length, tree delta); exhaustive over the mutating operations the execution performed; "
        "non-trivial = execution with >= 10 crash states that changes the revision set or the pack set; distinct = (format, scenario, op-name sequence)")
CASES = {"quick": 24, "thorough": 320}
BUDGET_S = {"quick": 50, "thorough": 800}
MIN_EVALS = {"quick": 8, "thorough": 60}
FLOORS = {"crash_states": 300, "judge_readable": 300, "probe_commit": 100}
ASSUMPTIONS = ["crash model: process stops between two transport operations (or mid non-atomic write: truncated / half-written file); completed operations persist; renames atomic; no power-loss reordering",
               "a crash state holding lock/held is first unlocked with force_break(peek()) as an operator would (C27 shows that is possible)",
               "branch tip vs repository consistency is not part of this property"]

SCENARIOS = ["commit", "commit-autopack", "fetch", "pack", "pack-clean", "commit-after-pack", "fetch-autopack", "pack-again"]
_templates = {}


def _fmt(name):
    from breezy.controldir import format_registry

    return format_registry.make_controldir(name)


def _build_template(fmt, ncommits, tag, base=0):
    """root/r = branch+repo (no tree) ; root/co = lightweight checkout.  Built uninstrumented, cached per worker.

    base > 0: start from a copy of the (fmt, base, tag) template and add commits base..ncommits-1 (same history prefix)."""
    from breezy.branch import Branch
    from breezy.controldir import ControlDir
    from breezy.workingtree import WorkingTree

    key = (fmt, ncommits, tag, base)
    if key in _templates:
        return _templates[key]
    root = boot.fresh_dir("c04tpl")
    if base:
        _copy_into(_build_template(fmt, base, tag), root)
        co = WorkingTree.open(os.path.join(root, "co"))
    else:
        cd = ControlDir.create(os.path.join(root, "r"), format=_fmt(fmt))
        cd.create_repository()
        br = cd.create_branch()
        co = br.create_checkout(os.path.join(root, "co"), lightweight=True)
        os.mkdir(os.path.join(root, "co", "d"))
        co.add(["d"])
    for i in range(base, ncommits):
        with open(os.path.join(root, "co", "f%d" % (i % 4)), "wb") as f:
            f.write(b"content %s %d\n" % (tag.encode(), i) * (1 + i % 3))
        with open(os.path.join(root, "co", "d", "g"), "ab") as f:
            f.write(b"line %d\n" % i)
        co.smart_add([os.path.join(root, "co")])
        co.commit("c%d" % i, rev_id=("%s-%d" % (tag, i)).encode())
    _templates[key] = root
    return root


def _copy_into(tpl, d):
    shutil.copytree(os.path.join(tpl, "r"), os.path.join(d, "r"), symlinks=True)
    shutil.copytree(os.path.join(tpl, "co"), os.path.join(d, "co"), symlinks=True)
    # the lightweight checkout's branch reference is an absolute URL: re-point it
    from breezy.branch import Branch
    from breezy.bzr.branch import BranchReferenceFormat
    from breezy.controldir import ControlDir

    cod = ControlDir.open(os.path.join(d, "co"))
    BranchReferenceFormat().set_reference(cod, None, Branch.open(os.path.join(d, "r")))


def _copy_template(ctx, tpl):
    d = ctx.tmp("c04")
    _copy_into(tpl, d)
    return d


def _repo_revs(path):
    from breezy.repository import Repository

    r = Repository.open(path)
    with r.lock_read():
        return set(r.all_revision_ids())


def _break_locks(path):
    """What an operator does after a crash: break stale locks (never interactive)."""
    from breezy.lockdir import LockDir
    from dromedary import get_transport_from_path

    n = 0
    for sub in ("repository", "branch"):
        p = os.path.join(path, ".bzr", sub)
        if not os.path.isdir(os.path.join(p, "lock")):
            continue
        ld = LockDir(get_transport_from_path(p), "lock")
        info = ld.peek()
        if info is not None:
            ld.force_break(info)
            n += 1
    return n


def _judge(ctx, snap, old, new, label, seq_state):
    """Judge one crash state (directory snap containing .bzr). Returns 'old'|'new'|None."""
    from breezy.branch import Branch
    from breezy.memorytree import MemoryTree
    from breezy.repository import Repository

    ctx.count("crash_states")
    try:
        _break_locks(snap)
    except Exception as e:
        ctx.fail("crash-state:cannot-break-lock", "%s: %r" % (label, e), seq_state)
        return None
    try:
        repo = Repository.open(snap)
        with repo.lock_read():
            revs = set(repo.all_revision_ids())
    except Exception as e:
        ctx.fail("crash-state:cannot-open", "%s: %r" % (label, e), seq_state)
        return None
    which = "old" if revs == old else "new" if revs == new else None
    if which is None:
        ctx.fail("crash-state:partial-revision-set", "%s: revisions neither old nor new: extra=%r missing_from_new=%r" % (
            label, sorted(revs - old)[:4], sorted(new - revs)[:4]), seq_state)
        return None
    # every listed revision fully readable
    try:
        with repo.lock_read():
            pm = repo.get_parent_map(revs)
            for rid in sorted(revs):
                rev = repo.get_revision(rid)
                t = repo.revision_tree(rid)
                for path, ie in t.iter_entries_by_dir():
                    if ie.kind == "file":
                        t.get_file_text(path)
                for p in rev.parent_ids:
                    if p in revs:
                        list(t.iter_changes(repo.revision_tree(p)))
        ctx.count("judge_readable")
    except Exception as e:
        ctx.fail("crash-state:unreadable-revision", "%s (%s): %r" % (label, which, e), seq_state)
        return which
    probs = observe.check_repo(repo)
    ctx.count("judge_check")
    if probs:
        ctx.fail("crash-state:check-unclean", "%s (%s): %r" % (label, which, probs), seq_state)
    # usability probe: ordinary operations still work and keep everything
    try:
        # packing the crash state as it is (same contents as the interrupted operation was combining) must work and
        # leave one pack: a leftover of the interrupted pack must not turn later packs into no-ops
        repo1 = Repository.open(snap)
        with repo1.lock_write():
            repo1.pack()
            n1 = len(repo1._pack_collection.names())
        ctx.count("probe_pack_first")
        if revs and n1 != 1:
            ctx.fail("crash-state:probe-pack-did-not-combine", "%s: pack() on the crash state left %d packs" % (label, n1), seq_state)
        with Repository.open(snap).lock_read():
            pass
        b = Branch.open(snap)
        pco = os.path.join(snap, "probe-co")
        co = b.create_checkout(pco, lightweight=True)
        with open(os.path.join(pco, "probe"), "wb") as f:
            f.write(b"probe %s\n" % label.encode())
        co.smart_add([pco])
        co.commit("probe", rev_id=b"probe-rev")
        repo2 = Repository.open(snap)
        with repo2.lock_write():
            repo2.pack()
        with repo2.lock_read():
            after = set(repo2.all_revision_ids())
        ctx.count("probe_commit")
        if not (revs <= after and b"probe-rev" in after):
            ctx.fail("crash-state:probe-lost-revisions", "%s: after commit+pack missing %r" % (label, sorted((revs | {b'probe-rev'}) - after)[:4]), seq_state)
        probs = observe.check_repo(Repository.open(snap))
        if probs:
            ctx.fail("crash-state:probe-check-unclean", "%s: %r" % (label, probs), seq_state)
    except Exception as e:
        ctx.fail("crash-state:unusable-after-crash", "%s (%s): following commit/pack failed: %r" % (label, which, e), seq_state)
    return which


def case(ctx):
    from breezy.branch import Branch
    from breezy.repository import Repository
    from breezy.workingtree import WorkingTree

    instr.install()
    rng = ctx.rng
    fmt = rng.choice(["2a", "2a", "pack-0.92"]) if ctx.tier == "quick" else rng.choice(["2a", "2a", "pack-0.92", "rich-root-pack", "1.9"])
    scen = SCENARIOS[ctx.index % len(SCENARIOS)]
    if scen in ("commit-autopack", "fetch-autopack"):
        k = 9 if (ctx.tier == "quick" or rng.random() < 0.8) else 99
    elif scen in ("pack", "pack-clean", "commit-after-pack", "pack-again"):
        k = rng.choice([3, 5, 8])
    else:
        k = rng.choice([0, 1, 3, 8]) if scen == "commit" else rng.choice([1, 3, 5])
    tpl = _build_template(fmt, k, "a")
    d = _copy_template(ctx, tpl)
    rpath = os.path.join(d, "r")
    old = _repo_revs(rpath)
    src = None
    if scen in ("fetch", "fetch-autopack"):
        # source: same history plus more revisions on top
        extra = rng.randint(1, 4)
        stpl = _build_template(fmt, k + extra, "a", base=k)
        src = os.path.join(stpl, "r")
    if scen in ("commit-after-pack", "pack-again"):
        # (pack-again: the repository is one optimal pack already; packing it again must not touch the live files)
        with Repository.open(rpath).lock_write() as _:
            pass
        r0 = Repository.open(rpath)
        with r0.lock_write():
            r0.pack()
    snaps = []
    snapdir = ctx.tmp("c04snap")
    w = instr.World(d)

    def take(label):
        p = os.path.join(snapdir, "s%d" % len(snaps))
        shutil.copytree(os.path.join(rpath, ".bzr"), os.path.join(p, ".bzr"), symlinks=True)
        snaps.append((label, p))
        return p

    def before(ev):
        # torn variants of a non-atomic overwrite of an existing file
        if ev.op in ("put_file_non_atomic", "put_bytes_non_atomic", "append_bytes", "append_file"):
            ap = os.path.join(d, ev.path)
            if os.path.isfile(ap) and ap.startswith(rpath):
                rel = os.path.relpath(ap, rpath)
                data = open(ap, "rb").read()
                for variant, content in (("torn-empty", b""), ("torn-half", data[: len(data) // 2])):
                    p = take("%s:%s:%s" % (ev.op, ev.path, variant))
                    with open(os.path.join(p, rel), "wb") as f:
                        f.write(content)

    def after(ev):
        if ev.path.startswith("r/"):
            take("after#%d:%s:%s" % (ev.seq, ev.op, ev.path.split("/.bzr/")[-1]))

    w.before, w.after = before, after
    opnames = []
    with w.active(), w.actor("A"):
        take("initial")
        if scen in ("commit", "commit-autopack", "commit-after-pack"):
            # open the checkout with its branch behind vf+
            co = WorkingTree.open(os.path.join(d, "co"))
            b = Branch.open(w.url(rpath))
            co._branch = b
            for i in range(rng.randint(1, 3)):
                with open(os.path.join(d, "co", "f%d" % rng.randint(0, 5)), "ab") as f:
                    f.write(b"more %d\n" % rng.randint(0, 10 ** 6))
            co.smart_add([os.path.join(d, "co")])
            co.commit("under test", rev_id=b"new-rev")
        elif scen in ("fetch", "fetch-autopack"):
            tr = Repository.open(w.url(rpath))
            sb = Branch.open(src)
            tr.fetch(sb.repository, revision_id=sb.last_revision())
        else:
            tr = Repository.open(w.url(rpath))
            with tr.lock_write():
                if scen == "pack-clean":
                    tr.pack(clean_obsolete_packs=True)
                else:
                    tr.pack()
    opnames = [e.op + ":" + e.path.split("/.bzr/")[-1].split("/")[0] for e in w.mutating_events() if e.path.startswith("r/")]
    new = _repo_revs(rpath)
    if scen.startswith(("commit", "fetch")) and new == old:
        ctx.fail("workload:no-new-revision", "%s did not add revisions" % scen)
        return
    seen_new = False
    nstates = 0
    packs_changed = False
    for label, p in snaps:
        which = _judge(ctx, p, old, new, "%s/%s/%s" % (fmt, scen, label), {"format": fmt, "scenario": scen, "label": label, "ops": opnames[:200]})
        nstates += 1
        if which == "new":
            seen_new = True
        elif which == "old" and seen_new and new != old and not label.split(":")[-1].startswith("torn"):
            ctx.fail("crash-state:not-monotone", "%s/%s: state %s shows the old revisions after a state that showed the new ones" % (fmt, scen, label),
                     {"ops": opnames[:200]})
        ctx.distinct("crash_state_kind", (fmt, scen, label.split(":", 1)[-1].split("/")[0]))
    ctx.hist("scenario:%s:%s" % (fmt, scen))
    ctx.hist("autopack-fired" if any("obsolete_packs" in o for o in opnames) else "no-autopack")
    ctx.note((fmt, scen, opnames), nontrivial=nstates >= 10 and (new != old or any("obsolete_packs" in o or "packs" in o for o in opnames)),
             sample={"format": fmt, "scenario": scen, "prefix_commits": k, "crash_states": nstates, "mutating_ops": opnames[:60]})
