"""C47 - path and line utilities satisfy their algebraic laws.

Law monitors (I5-style contracts) on the functions as re-exported by
``breezy.osutils`` (compiled from crates/osutils, rebuilt from the working tree):

P1  is_inside(d, p)  <=>  d == "" or p == d or p startswith d + "/"      (normalised relative paths)
P2  M = minimum_path_selection(P):  M subset of P; every p in P lies inside exactly one m in M;
    no m inside another m'
P3  is_inside_any(M, q) <=> some m in M contains q  (and is_inside_any(P, q) agrees: M covers what P covers)
P4  splitpath(p) == p.split("/") and pathjoin(*splitpath(p)) == p   on normalised relative p
L1  b"".join(split_lines(s)) == s; every line but the last ends with LF; no line has an interior LF or is empty
L2  chunks_to_lines(any chunking of s, empty chunks included) == split_lines(s)
D1  unpack_highres_date(format_highres_date(t, off)) == (t, off)  for t in [0, 2**32), off in -14h..+14h in
    whole minutes; t compared within the documented 9-digit fraction (1e-9 + one ulp of t), off exactly

``install_live(get_ctx)`` arms P2/P3/L1/L2 on attribute-style call sites (``osutils.minimum_path_selection(...)``)
so they are also evaluated on the arguments real breezy operations pass; case "live" drives a few such operations.
"""
import itertools
import math
import re

ID = "C47"
LEVEL = "exploration"
TECHNIQUE = ("law monitors on the real osutils functions (freshly built _osutils_rs), exhaustive over bounded path sets / "
             "byte strings x all chunkings / all minute offsets, plus live call-site monitor")
RULE = ("paths: components {a, b, ab, 'a b', e-acute}, depth <= 3, plus the empty (root) path: all ordered pairs for is_inside; "
        "minimum_path_selection on all subsets of <= 3 paths of the 40-path universe over {a, ab, 'a b'} and all <= 2-subsets of "
        "the 156-path universe (thorough: all <= 3-subsets of the 156-path universe) plus random 4..8-subsets; lines: every "
        "byte string of length <= 7 (thorough 9) over {a, LF, CR} with every composition into chunks and random empty chunks; "
        "dates: every whole-minute offset in [-14h, +14h] x 16 (thorough 400) timestamps in [0, 2**32). evaluation = one "
        "path pair / path set / byte string (with all its chunkings) / (t, offset) pair judged; non-trivial = set with >= 2 "
        "paths, string containing LF, offset != 0, pair with d != ''; distinct = distinct input")
CASES = {"quick": 64, "thorough": 256}
BUDGET_S = {"quick": 50, "thorough": 800}
MIN_EVALS = {"quick": 60000, "thorough": 1200000}
FLOORS = {"P1_is_inside": 20000, "P2_min_path_selection": 20000, "P3_is_inside_any": 60000, "P4_split_join": 150,
          "L1_split_lines": 3000, "L2_chunkings": 120000, "D1_date_roundtrip": 20000, "D1_negative_offsets": 10000,
          "D1_subhour_offsets": 10000, "live_P2": 5, "live_P3": 5}
RUST = ["breezy._osutils_rs"]
EXHAUSTIVE = {"quick": True, "thorough": True}
ASSUMPTIONS = [
    "paths are normalised relative paths (no '.', '..', empty components, trailing '/'); '' is the tree root and contains everything "
    "(documented in is_inside)",
    "timestamps are doubles nearest to a decimal with <= 9 fractional digits; the law is judged within 1e-9 + ulp(t)",
    "offsets are whole minutes (the format carries HHMM only)",
    "str paths only (the callers in breezy pass str)",
]

COMPS_A = ["a", "b", "ab", "a b", "é"]
COMPS_B = ["a", "ab", "a b"]
ODD_COMPS = ["a", "b", "ab", "a b", "é", ".a", "a.", "...", "a\\b", "~", "a-b", "A", "éé", "x" * 40]


def universe(comps, depth=3):
    out = [""]
    for d in range(1, depth + 1):
        for t in itertools.product(comps, repeat=d):
            out.append("/".join(t))
    return out


def inside(d, p):
    return d == "" or p == d or p.startswith(d + "/")


# ------------------------------------------------------------------ laws

def law_is_inside(ctx, osutils, d, p):
    got = osutils.is_inside(d, p)
    ctx.count("P1_is_inside")
    want = inside(d, p)
    if got != want:
        kind = "prefix-without-separator" if (got and p.startswith(d)) else ("misses-contained-path" if want else "other")
        ctx.fail("is_inside:" + kind, "is_inside(%r, %r) = %r" % (d, p, got), {"dir": d, "path": p})


def law_mps(ctx, osutils, paths, probes, prefix=""):
    """P2 + P3 on one path collection.  `paths` may be any iterable of str."""
    P = set(paths)
    M = osutils.minimum_path_selection(list(paths))
    ctx.count(prefix + "P2_min_path_selection" if not prefix else prefix + "P2")
    d = {"paths": sorted(P), "selected": sorted(M) if isinstance(M, (set, frozenset, list)) else repr(M)}
    if not isinstance(M, (set, frozenset)):
        ctx.fail("minimum_path_selection:bad-result-type", "%r" % (M,), d)
        return None
    if not M <= P:
        ctx.fail("minimum_path_selection:not-a-subset", "selected %r from %r" % (sorted(M), sorted(P)), d)
        return M
    for p in P:
        n = sum(1 for m in M if inside(m, p))
        if n == 0:
            ctx.fail("minimum_path_selection:path-not-covered", "%r not inside any of %r (input %r)" % (p, sorted(M), sorted(P)), d)
        elif n > 1:
            ctx.fail("minimum_path_selection:path-covered-twice", "%r inside %d of %r (input %r)" % (p, n, sorted(M), sorted(P)), d)
    for m in M:
        for m2 in M:
            if m != m2 and inside(m2, m):
                ctx.fail("minimum_path_selection:nested-selection", "%r inside %r; selected %r from %r" % (m, m2, sorted(M), sorted(P)), d)
    Ml = sorted(M)
    Pl = sorted(P)
    for q in probes:
        got = osutils.is_inside_any(Ml, q)
        ctx.count(prefix + "P3_is_inside_any" if not prefix else prefix + "P3")
        want = any(inside(m, q) for m in M)
        if got != want:
            ctx.fail("is_inside_any:disagrees-with-containment", "is_inside_any(%r, %r) = %r" % (Ml, q, got), dict(d, probe=q))
        got_p = osutils.is_inside_any(Pl, q)
        if got_p != want:
            ctx.fail("is_inside_any:selection-covers-differently", "is_inside_any(P=%r, %r) = %r but selection %r gives %r"
                     % (Pl, q, got_p, Ml, want), dict(d, probe=q))
    return M


def law_split_join(ctx, osutils, p):
    parts = osutils.splitpath(p)
    ctx.count("P4_split_join")
    d = {"path": p, "parts": parts}
    ctx.check(list(parts) == p.split("/"), "splitpath:not-the-components", "splitpath(%r) = %r" % (p, parts), d)
    if parts:
        j = osutils.pathjoin(*parts)
        ctx.check(j == p, "pathjoin:not-inverse-of-splitpath", "pathjoin(*splitpath(%r)) = %r" % (p, j), d)
        ctx.check(list(osutils.splitpath(j)) == list(parts), "splitpath:not-inverse-of-pathjoin", "splitpath(%r) = %r, joined from %r"
                  % (j, osutils.splitpath(j), parts), d)


def compositions(s):
    """Every way to cut s into non-empty consecutive chunks."""
    n = len(s)
    if n == 0:
        yield []
        return
    for mask in range(1 << (n - 1)):
        out = []
        start = 0
        for i in range(n - 1):
            if mask >> i & 1:
                out.append(s[start:i + 1])
                start = i + 1
        out.append(s[start:])
        yield out


def check_lines(ctx, s, L, d, what):
    if not isinstance(L, list) or any(not isinstance(x, bytes) for x in L):
        ctx.fail("%s:bad-result-type" % what, "%r" % (L,), d)
        return False
    ok = True
    if b"".join(L) != s:
        ctx.fail("%s:join-differs" % what, "%s(%r) = %r does not concatenate to the text" % (what, s, L), d)
        ok = False
    if any(not x.endswith(b"\n") for x in L[:-1]):
        ctx.fail("%s:line-without-terminator" % what, "%s(%r) = %r: a non-final line does not end with LF" % (what, s, L), d)
        ok = False
    if any(x.find(b"\n") not in (-1, len(x) - 1) for x in L):
        ctx.fail("%s:interior-newline" % what, "%s(%r) = %r: a line contains an interior LF" % (what, s, L), d)
        ok = False
    if any(not x for x in L):
        ctx.fail("%s:empty-line" % what, "%s(%r) = %r" % (what, s, L), d)
        ok = False
    return ok


def law_lines(ctx, osutils, s, chunkings, prefix=""):
    L = osutils.split_lines(s)
    ctx.count(prefix + "L1_split_lines" if not prefix else prefix + "L1")
    d = {"text": repr(s), "split_lines": repr(L)}
    if not check_lines(ctx, s, L, d, "split_lines"):
        return
    for ch in chunkings:
        got = osutils.chunks_to_lines(ch)
        ctx.count(prefix + "L2_chunkings" if not prefix else prefix + "L2")
        if got != L:
            ctx.fail("chunks_to_lines:depends-on-chunking", "chunks_to_lines(%r) = %r, split_lines(%r) = %r" % (ch, got, s, L),
                     dict(d, chunks=repr(ch), got=repr(got)))
            return


def law_date(ctx, osutils, t, off):
    ctx.count("D1_date_roundtrip")
    if off < 0:
        ctx.count("D1_negative_offsets")
    if off % 3600:
        ctx.count("D1_subhour_offsets")
    d = {"t": repr(t), "offset": off}
    text = osutils.format_highres_date(t, off)
    d["formatted"] = text
    # mechanism of the known defect: negative offset that is not a whole number of hours is formatted with a
    # negative *minute* field ("-03-30"); any other failure on the same inputs gets a different key
    known = off < 0 and off % 3600 != 0 and re.search(r" [+-]\d+-\d+$", text) is not None
    try:
        t2, off2 = osutils.unpack_highres_date(text)
    except ValueError as e:
        ctx.fail("highres-date:negative-subhour-offset" if known else "highres-date:unpack-rejects-formatted-date",
                 "format_highres_date(%r, %r) = %r is rejected by unpack_highres_date: %s" % (t, off, text, e), d)
        return
    tol = 1e-9 + math.ulp(float(t))
    if off2 != off or abs(t2 - t) > tol:
        if off2 != off:
            key = "highres-date:negative-subhour-offset" if known else "highres-date:offset-changed"
        else:
            key = "highres-date:timestamp-changed"
        ctx.fail(key, "(%r, %r) -> %r -> (%r, %r)" % (t, off, text, t2, off2), dict(d, got=[repr(t2), off2]))


# ------------------------------------------------------------------ generators

def gen_timestamp(rng):
    k = rng.random()
    if k < 0.15:
        base = rng.choice([0, 1, 59, 60, 3599, 3600, 86399, 86400, 2 ** 31 - 1, 2 ** 31, 2 ** 32 - 1, 951782400, 1709164800])
    elif k < 0.3:
        base = rng.randrange(0, 200000)
    else:
        base = rng.randrange(0, 2 ** 32)
    f = rng.random()
    if f < 0.3:
        return base if rng.random() < 0.5 else float(base)
    digits = rng.randint(1, 9)
    frac = rng.randrange(0, 10 ** digits)
    if rng.random() < 0.1:
        frac = 10 ** digits - 1
    return float("%d.%0*d" % (base, digits, frac))


# ------------------------------------------------------------------ live call-site monitor

_live = {}


class _LiveCtx:
    def __init__(self, ctx):
        self.ctx = ctx

    def count(self, m, n=1):
        self.ctx.count(m, n)

    def fail(self, key, msg, detail=None, stop=False):
        self.ctx.fail("live:" + key, msg, detail)

    def check(self, cond, key, msg, detail=None):
        if not cond:
            self.fail(key, msg, detail)
        return cond


def install_live(get_ctx):
    """Arm the law monitors on attribute-style call sites of breezy.osutils.  Idempotent."""
    from breezy import osutils

    if _live:
        _live["get_ctx"] = get_ctx
        return
    _live["get_ctx"] = get_ctx
    o_mps, o_any = osutils.minimum_path_selection, osutils.is_inside_any
    o_split, o_chunks = osutils.split_lines, osutils.chunks_to_lines

    class _Orig:
        minimum_path_selection = staticmethod(o_mps)
        is_inside_any = staticmethod(o_any)
        split_lines = staticmethod(o_split)
        chunks_to_lines = staticmethod(o_chunks)

    _live["orig"] = _Orig

    def _strs(xs):
        return all(isinstance(x, str) for x in xs)

    def minimum_path_selection(paths):
        paths = list(paths)
        r = o_mps(paths)
        c = _live["get_ctx"]()
        if c is not None and _strs(paths):
            try:
                norm = [p for p in paths if p == "" or (not p.startswith("/") and all(x not in ("", ".", "..") for x in p.split("/")))]
                if len(norm) == len(paths):
                    law_mps(_LiveCtx(c), _Orig, paths, list(paths)[:6], prefix="live_")
            except Exception:
                pass
        return r

    def is_inside_any(dir_list, fname):
        r = o_any(dir_list, fname)
        c = _live["get_ctx"]()
        try:
            dl = list(dir_list)
            if c is not None and isinstance(fname, str) and _strs(dl):
                ok = all(p == "" or (not p.startswith("/") and all(x not in ("", ".", "..") for x in p.split("/"))) for p in dl + [fname])
                if ok:
                    c.count("live_P3")
                    want = any(inside(m, fname) for m in dl)
                    if r != want:
                        c.fail("live:is_inside_any:disagrees-with-containment", "is_inside_any(%r, %r) = %r" % (dl, fname, r))
        except Exception:
            pass
        return r

    osutils.minimum_path_selection = minimum_path_selection
    osutils.is_inside_any = is_inside_any


_cur = [None]


def worker_init(tier):
    install_live(lambda: _cur[0])


def live_case(ctx):
    """Drive real tree operations whose implementation calls osutils.minimum_path_selection / is_inside_any."""
    import os

    from breezy import errors
    from breezy.controldir import ControlDir

    _cur[0] = ctx
    try:
        try:
            d = ctx.tmp("live")
            wt = ControlDir.create_standalone_workingtree(d)
            comps = ["a", "ab", "a b", "b"]
            paths = []
            for x in comps:
                os.mkdir(os.path.join(d, x))
                paths.append(x)
                for y in comps[:3]:
                    os.mkdir(os.path.join(d, x, y))
                    paths.append(x + "/" + y)
                    with open(os.path.join(d, x, y, "f"), "wb") as f:
                        f.write(b"1\n")
                    paths.append(x + "/" + y + "/f")
            wt.add(paths)
            wt.commit("one")
        except errors.BzrError as e:
            ctx.discard("workload construction: %s" % type(e).__name__)
        for r in range(6):
            sel = ctx.rng.sample(paths, ctx.rng.randint(2, 5))
            for p in ctx.rng.sample([q for q in paths if q.endswith("/f")], 4):
                with open(os.path.join(d, p), "ab") as f:
                    f.write(b"x\n")
            basis = wt.basis_tree()
            with wt.lock_read(), basis.lock_read():
                list(wt.iter_changes(basis, specific_files=sel))
                wt.changes_from(basis, specific_files=sel)
            wt.revert(sel, backups=False)
            ctx.hist("live_ops")
        ctx.note(("live", ctx.index), nontrivial=True)
    finally:
        _cur[0] = None


# ------------------------------------------------------------------ case

def case(ctx):
    from breezy import osutils

    orig = _live.get("orig")
    if orig is not None:
        # judge the real functions directly (not through the live wrappers)
        class O:
            pass
        for name in ("is_inside", "splitpath", "pathjoin", "format_highres_date", "unpack_highres_date"):
            setattr(O, name, staticmethod(getattr(osutils, name)))
        for name in ("minimum_path_selection", "is_inside_any", "split_lines", "chunks_to_lines"):
            setattr(O, name, staticmethod(getattr(orig, name)))
        osu = O
    else:
        osu = osutils
    quick = ctx.tier == "quick"
    n = CASES[ctx.tier]
    i = ctx.index
    rng = ctx.rng
    UA = universe(COMPS_A)
    UB = universe(COMPS_B)

    # --- P1: all ordered pairs
    idx = 0
    for d in UA:
        for p in UA:
            idx += 1
            if idx % n != i:
                continue
            law_is_inside(ctx, osu, d, p)
            ctx.note(("P1", d, p), nontrivial=d != "", sample={"law": "is_inside", "dir": d, "path": p, "result": osu.is_inside(d, p)}
                     if idx % 9973 == 0 else None)

    # --- P2/P3: path sets
    def sets():
        if quick:
            for k in range(0, 4):
                yield from itertools.combinations(UB, k)
            for k in range(1, 3):
                yield from itertools.combinations(UA, k)
        else:
            for k in range(0, 4):
                yield from itertools.combinations(UA, k)

    idx = 0
    for P in sets():
        idx += 1
        if idx % n != i:
            continue
        probes = list(P) + [rng.choice(UA) for _ in range(3)] + [p + "/" + rng.choice(COMPS_A) for p in P[:2] if p]
        M = law_mps(ctx, osu, P, probes)
        ctx.note(("P2", P), nontrivial=len(P) >= 2,
                 sample={"law": "minimum_path_selection", "paths": list(P), "selected": sorted(M) if M is not None else None}
                 if idx % 4999 == 0 else None)
    for r in range(150 if quick else 500):
        P = tuple(rng.sample(UA, rng.randint(4, 8)))
        if rng.random() < 0.5:
            # make containment likely: close some paths under prefixes
            P = P + tuple(p.rsplit("/", 1)[0] for p in P[:3] if "/" in p)
        probes = list(P) + [rng.choice(UA) for _ in range(4)]
        ctx.count("random_path_sets")
        law_mps(ctx, osu, P, probes)
        ctx.note(("P2", tuple(sorted(set(P)))), nontrivial=True)

    # --- P4
    idx = 0
    for p in universe(ODD_COMPS, 2)[1:] + UA[1:]:
        idx += 1
        if idx % n != i:
            continue
        law_split_join(ctx, osu, p)
        ctx.note(("P4", p), nontrivial="/" in p)

    # --- L1/L2
    Lmax = 7 if quick else 9
    idx = 0
    for ln in range(Lmax + 1):
        for t in itertools.product((b"a", b"\n", b"\r"), repeat=ln):
            idx += 1
            if idx % n != i:
                continue
            s = b"".join(t)
            chs = list(compositions(s))
            # a few chunkings with empty chunks mixed in
            for _ in range(2):
                base = list(rng.choice(chs))
                for _e in range(rng.randint(1, 3)):
                    base.insert(rng.randint(0, len(base)), b"")
                chs.append(base)
            law_lines(ctx, osu, s, chs)
            ctx.note(("L", s), nontrivial=b"\n" in s,
                     sample={"law": "lines", "text": repr(s), "split_lines": repr(osu.split_lines(s)), "chunkings": len(chs)}
                     if idx % 1999 == 0 else None)
    for r in range(40 if quick else 300):
        pool = [b"a", b"\n", b"\r", b"\r\n", b"line", b"\x00", b" "]
        s = b"".join(rng.choice(pool) for _ in range(rng.randint(0, 200)))
        chs = []
        for _ in range(6):
            cuts = sorted(rng.randint(0, len(s)) for _ in range(rng.randint(0, 12)))
            ch = [s[a:b] for a, b in zip([0] + cuts, cuts + [len(s)])]
            chs.append(ch)
        chs.append([s])
        chs.append(osu.split_lines(s))           # already lines: must come back equal
        ctx.count("random_texts")
        law_lines(ctx, osu, s, chs)
        ctx.note(("L", s), nontrivial=b"\n" in s)

    # --- D1
    per = 16 if quick else 400
    idx = 0
    for minutes in range(-14 * 60, 14 * 60 + 1):
        idx += 1
        if idx % n != i:
            continue
        off = minutes * 60
        for r in range(per):
            t = gen_timestamp(rng)
            law_date(ctx, osu, t, off)
            ctx.note(("D", repr(t), off), nontrivial=off != 0,
                     sample={"law": "highres_date", "t": repr(t), "offset": off, "formatted": osu.format_highres_date(t, off)}
                     if (r == 3 and minutes % 211 == 0) else None)

    # --- live
    if i < (8 if quick else 24):
        live_case(ctx)
