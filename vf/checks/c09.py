"""C09 - working trees behave like an abstract versioned file system (model = vf.model.MWorld)."""
import os

from vf import gen, model, observe

ID = "C09"
LEVEL = "exploration"
TECHNIQUE = "reference-model monitor: same generated op program on real WorkingTree and MWorld, compared after every op and after re-open"
LEVEL_TEXT = ("after every operation of generated programs (add/mkdir/remove/unversion/rename/edit/chmod/kind change/delete-on-disk/commit/revert/re-open) the real "
              "tree's versioned paths, kinds, bytes, exec bits, file ids and iter_changes(basis) are compared with an executable model; re-opened state compared too")
RULE = ("program = 6-14 (quick) / 10-40 (thorough) model-legal ops over a bounded namespace, bzr 2a dirstate trees and git trees; "
        "non-trivial = program with >= 4 applied ops incl. at least one rename/remove/unversion/kindchange; distinct = op-kind sequence + final state hash")
CASES = {"quick": 400, "thorough": 6000}
BUDGET_S = {"quick": 45, "thorough": 700}
MIN_EVALS = {"quick": 60, "thorough": 600}
FLOORS = {"cmp_tree": 300, "cmp_changes": 300, "cmp_reopen": 50}
ASSUMPTIONS = ["model semantics of remove --force / unversion / revert taken from the documented API; after revert only the versioned view is compared (backup file naming is C12's subject)",
               "git mode: paths not ids; empty directories are not versioned; rename may show as delete+add"]


def _real_view(wt):
    """path -> (kind_on_disk, content, exec, id) via public API, plus root id."""
    out = {}
    with wt.lock_read():
        root_id = wt.path2id("")
        for path, ie in wt.iter_entries_by_dir():
            if path == "":
                continue
            fid = ie.file_id.decode()
            try:
                kind = wt.kind(path)
            except Exception as e:
                if type(e).__name__ not in ("NoSuchFile", "FileNotFoundError"):
                    raise
                kind = None
            content, ex = None, False
            if kind == "file":
                content = wt.get_file_text(path)
                ex = bool(wt.is_executable(path))
            elif kind == "symlink":
                content = wt.get_symlink_target(path)
            out[path] = (kind, content, ex, fid)
    return out, root_id.decode() if root_id else None


def _model_view(w):
    out = {}
    for p, (kind, content, ex, fid) in w.tree_view().items():
        e = w.ents[fid]
        if e.missing or gen._under_missing(w, fid):
            out[p] = (None, None, False, fid)
        else:
            out[p] = (kind, content, ex, fid)
    return out


def _real_changes(wt, root_id):
    def m(x):
        if x is None:
            return None
        x = x.decode() if isinstance(x, bytes) else x
        return model.ROOT if x == root_id else x
    out = {}
    with wt.lock_read():
        basis = wt.basis_tree()
        with basis.lock_read():
            for c in wt.iter_changes(basis):
                fid = m(c.file_id)
                if fid == model.ROOT:
                    continue
                old = (m(c.parent_id[0]), c.name[0], c.kind[0], c.executable[0] if c.kind[0] == "file" else False) if c.versioned[0] else None
                new = (m(c.parent_id[1]), c.name[1], c.kind[1], c.executable[1] if c.kind[1] == "file" else False) if c.versioned[1] else None
                out[fid] = (old, new, bool(c.changed_content))
    return out


def _model_changes(w):
    out = {}
    for fid, (ok, nk) in w.changes().items():
        if fid == model.ROOT:
            continue
        old = (ok[0], ok[1], ok[2], bool(ok[4])) if ok else None
        new = None
        if nk:
            e = w.ents[fid]
            if e.missing or gen._under_missing(w, fid):
                new = (nk[0], nk[1], None, False)
            else:
                new = (nk[0], nk[1], nk[2], bool(nk[4]))
        if old == new and ok and nk and ok[3] == nk[3]:
            continue
        changed_content = bool(ok and nk and (ok[2] != new[2] or ok[3] != nk[3]) and new[2] is not None) or bool((ok is None) != (nk is None)) and ((nk or ok)[2] in ("file", "symlink") if False else False)
        out[fid] = (old, new)
    return out


def _cmp(ctx, w, wt, where, ops):
    rv, root_id = _real_view(wt)
    mv = _model_view(w)
    ctx.count("cmp_tree")
    if rv != mv:
        diffs = []
        for p in sorted(set(rv) | set(mv)):
            if rv.get(p) != mv.get(p):
                diffs.append((p, "real=%r" % (rv.get(p),), "model=%r" % (mv.get(p),)))
        what = "paths" if set(rv) != set(mv) else "attrs"
        ctx.fail("tree-vs-model:%s:%s" % (where, what), "after %s: %r" % (ops[-1].get("op") if ops else None, diffs[:4]),
                 {"ops": [gen.op_json(o) for o in ops]}, stop=True)
    rc = _real_changes(wt, root_id)
    mc = _model_changes(w)
    ctx.count("cmp_changes")
    rc2 = {k: v[:2] for k, v in rc.items()}
    # the model is silent on entries whose only difference is under a missing parent directory
    if rc2 != mc:
        diffs = [(k, "real=%r" % (rc2.get(k),), "model=%r" % (mc.get(k),)) for k in sorted(set(rc2) | set(mc)) if rc2.get(k) != mc.get(k)]
        ctx.fail("changes-vs-model:%s" % where, "after %s: %r" % (ops[-1].get("op") if ops else None, diffs[:4]),
                 {"ops": [gen.op_json(o) for o in ops]}, stop=True)
    # changed_content flag: must be set when kind or bytes differ between basis and working (both present)
    for fid, (old, new, cc) in rc.items():
        ch = w.changes().get(fid)
        if ch and ch[0] and ch[1] and new and new[2] is not None:
            differs = ch[0][2] != ch[1][2] or ch[0][3] != ch[1][3]
            if differs != cc:
                ctx.fail("changes-vs-model:changed_content:%s" % where, "id %s: changed_content=%s but model differs=%s" % (fid, cc, differs),
                         {"ops": [gen.op_json(o) for o in ops]}, stop=True)


def case(ctx):
    from breezy.workingtree import WorkingTree

    rng = ctx.rng
    names = gen.Names(ctx.tier)
    d = ctx.tmp("wt")
    p = os.path.join(d, "t")
    wt = gen.make_tree(p, "2a")
    w = model.MWorld()
    nops = rng.randint(6, 14) if ctx.tier == "quick" else rng.randint(10, 40)
    weights = dict(gen.DEFAULT_WEIGHTS)
    ops = []
    kinds = []
    ctx.info["ops"] = ops
    hold = None  # lock held across several ops
    for step in range(nops):
        r = rng.random()
        if r < 0.08 and w.ents.keys() - {model.ROOT}:
            op = {"op": "commit"}
        elif r < 0.12 and w.basis is not None:
            op = {"op": "revert"}
        elif r < 0.22:
            op = {"op": "reopen"}
        else:
            op = gen.gen_op(rng, w, names, weights)
            if op is None:
                continue
        ops.append(op)
        kinds.append(op["op"])
        ctx.hist("op:" + op["op"])
        if op["op"] == "reopen":
            if hold is not None:
                hold.unlock()
                hold = None
            wt = WorkingTree.open(p)
            _cmp(ctx, w, wt, "reopen", ops)
            ctx.count("cmp_reopen")
            if rng.random() < 0.3:
                hold = wt
                wt.lock_write()
            continue
        if op["op"] == "commit":
            try:
                wt.commit("m%d" % step, rev_id=b"r%d" % step)
            except Exception as e:
                if type(e).__name__ == "PointlessCommit" and not w.changes():
                    ops.pop()
                    kinds.pop()
                    continue
                raise
            w.apply(op)
            # basis tree must equal the model basis
            bt = wt.basis_tree()
            bv = observe.snap_tree(bt)
            mbv = {q: v for q, v in w.tree_view(w.basis).items()}
            ctx.count("cmp_basis")
            if bv != mbv:
                diffs = [(q, bv.get(q), mbv.get(q)) for q in sorted(set(bv) | set(mbv)) if bv.get(q) != mbv.get(q)]
                ctx.fail("basis-vs-model", "after commit: %r" % (diffs[:4],), {"ops": [gen.op_json(o) for o in ops]}, stop=True)
        elif op["op"] == "revert":
            rconf = wt.revert()
            if rconf or len(wt.conflicts()):
                # revert met conflicts (e.g. an unversioned file in the way) and resolved them its own
                # way (".moved" names); the property's model is silent there: resync and go on
                ctx.hist("revert-with-conflicts")
                wt.set_conflicts([])
                basis = w.basis
                w = gen.world_from_tree(wt)
                w.basis = basis
                ops.append({"op": "resync"})
                continue
            w.ents = {i: e.copy() for i, e in w.basis.items()}
            disk = observe.snap_disk(p)
            vp = w.paths()
            w.unv = {q: v for q, v in disk.items() if q not in vp}
            ctx.count("revert")
        else:
            try:
                gen.apply_real(wt, op)
            except (KeyboardInterrupt, SystemExit):
                raise
            except BaseException as e:
                ctx.fail("refused-legal-op:%s:%s" % (op["op"], type(e).__name__), "%r refused: %r" % (gen.op_json(op), e),
                         {"ops": [gen.op_json(o) for o in ops]}, stop=True)
            w.apply(op)
        _cmp(ctx, w, wt, "live", ops)
    if hold is not None:
        hold.unlock()
    wt = WorkingTree.open(p)
    _cmp(ctx, w, wt, "final-reopen", ops)
    ctx.count("cmp_reopen")
    interesting = any(k in ("rename", "remove", "unversion", "kindchange", "delete_disk", "revert") for k in kinds)
    ctx.note((kinds, sorted((q, repr(v[:3])) for q, v in _model_view(w).items())), nontrivial=len(kinds) >= 4 and interesting,
             sample={"ops": [gen.op_json(o) for o in ops][:14], "final_versioned_paths": sorted(w.paths())})
