"""C09 - working trees behave like an abstract versioned file system (model = vf.model.MWorld)."""
import os

from vf import gen, model, observe

ID = "C09"
LEVEL = "exploration"
TECHNIQUE = "reference-model monitor: same generated op program on real WorkingTree and MWorld, compared after every op and after re-open"
LEVEL_TEXT = ("after every operation of generated programs (add/mkdir/remove/unversion/rename/edit/chmod/kind change/delete-on-disk/commit/revert/re-open) the real "
              "tree's versioned paths, kinds, bytes, exec bits, file ids and iter_changes(basis) are compared with an executable model; re-opened state compared too")
RULE = ("program = 6-14 (quick) / 10-40 (thorough) model-legal ops over a bounded namespace, bzr 2a dirstate trees and git trees; "
        "non-trivial = program with >= 4 applied ops incl. at least one rename/remove/unversion/kindchange; distinct = op-kind sequence + final state hash")
CASES = {"quick": 400, "thorough": 6000}
BUDGET_S = {"quick": 45, "thorough": 700}
MIN_EVALS = {"quick": 60, "thorough": 600}
FLOORS = {"cmp_tree": 300, "cmp_changes": 300, "cmp_reopen": 50}
ASSUMPTIONS = ["model semantics of remove --force / unversion / revert taken from the documented API; after revert only the versioned view is compared (backup file naming is C12's subject)",
               "git mode: paths not ids; empty directories are not versioned; rename may show as delete+add"]


def _real_view(wt):
    """path -> (kind_on_disk, content, exec, id) via public API, plus root id."""
    out = {}
    with wt.lock_read():
        root_id = wt.path2id("")
        for path, ie in wt.iter_entries_by_dir():
            if path == "":
                continue
            fid = ie.file_id.decode()
            try:
                kind = wt.kind(path)
            except Exception as e:
                if type(e).__name__ not in ("NoSuchFile", "FileNotFoundError"):
                    raise
                kind = None
            content, ex = None, False
            if kind == "file":
                content = wt.get_file_text(path)
                ex = bool(wt.is_executable(path))
            elif kind == "symlink":
                content = wt.get_symlink_target(path)
            out[path] = (kind, content, ex, fid)
    return out, root_id.decode() if root_id else None


def _model_view(w):
    out = {}
    for p, (kind, content, ex, fid) in w.tree_view().items():
        e = w.ents[fid]
        if e.missing or gen._under_missing(w, fid):
            out[p] = (None, None, False, fid)
        else:
            out[p] = (kind, content, ex, fid)
    return out


def _real_changes(wt, root_id):
    def m(x):
        if x is None:
            return None
        x = x.decode() if isinstance(x, bytes) else x
        return model.ROOT if x == root_id else x
    out = {}
    with wt.lock_read():
        basis = wt.basis_tree()
        with basis.lock_read():
            for c in wt.iter_changes(basis):
                fid = m(c.file_id)
                if fid == model.ROOT:
                    continue
                old = (m(c.parent_id[0]), c.name[0], c.kind[0], c.executable[0] if c.kind[0] == "file" else False) if c.versioned[0] else None
                new = (m(c.parent_id[1]), c.name[1], c.kind[1], c.executable[1] if c.kind[1] == "file" else False) if c.versioned[1] else None
                out[fid] = (old, new, bool(c.changed_content))
    return out


def _model_changes(w):
    out = {}
    ch = dict(w.changes())
    # entries below a directory that vanished from disk are missing too, although their own record is unchanged
    for fid, e in w.ents.items():
        if fid != model.ROOT and fid not in ch and gen._under_missing(w, fid) and w.basis and fid in w.basis:
            ch[fid] = (w.basis[fid].key(), e.key())
    for fid, (ok, nk) in ch.items():
        if fid == model.ROOT:
            continue
        old = (ok[0], ok[1], ok[2], bool(ok[4])) if ok else None
        new = None
        if nk:
            e = w.ents[fid]
            if e.missing or gen._under_missing(w, fid):
                new = (nk[0], nk[1], None, False)
            else:
                new = (nk[0], nk[1], nk[2], bool(nk[4]))
        if old == new and ok and nk and ok[3] == nk[3]:
            continue
        changed_content = bool(ok and nk and (ok[2] != new[2] or ok[3] != nk[3]) and new[2] is not None) or bool((ok is None) != (nk is None)) and ((nk or ok)[2] in ("file", "symlink") if False else False)
        out[fid] = (old, new)
    return out


def _cmp(ctx, w, wt, where, ops):
    rv, root_id = _real_view(wt)
    mv = _model_view(w)
    ctx.count("cmp_tree")
    if rv != mv:
        diffs = []
        for p in sorted(set(rv) | set(mv)):
            if rv.get(p) != mv.get(p):
                diffs.append((p, "real=%r" % (rv.get(p),), "model=%r" % (mv.get(p),)))
        what = "paths" if set(rv) != set(mv) else "attrs"
        ctx.fail("tree-vs-model:%s:%s" % (where, what), "after %s: %r" % (ops[-1].get("op") if ops else None, diffs[:4]),
                 {"ops": [gen.op_json(o) for o in ops]}, stop=True)
    rc = _real_changes(wt, root_id)
    mc = _model_changes(w)
    ctx.count("cmp_changes")
    rc2 = {k: v[:2] for k, v in rc.items()}
    # the model is silent on entries whose only difference is under a missing parent directory
    if rc2 != mc:
        diffs = [(k, "real=%r" % (rc2.get(k),), "model=%r" % (mc.get(k),)) for k in sorted(set(rc2) | set(mc)) if rc2.get(k) != mc.get(k)]
        ctx.fail("changes-vs-model:%s" % where, "after %s: %r" % (ops[-1].get("op") if ops else None, diffs[:4]),
                 {"ops": [gen.op_json(o) for o in ops]}, stop=True)
    # changed_content flag: must be set when kind or bytes differ between basis and working (both present)
    for fid, (old, new, cc) in rc.items():
        ch = w.changes().get(fid)
        if ch and ch[0] and ch[1] and new and new[2] is not None:
            differs = ch[0][2] != ch[1][2] or ch[0][3] != ch[1][3]
            if differs != cc:
                ctx.fail("changes-vs-model:changed_content:%s" % where, "id %s: changed_content=%s but model differs=%s" % (fid, cc, differs),
                         {"ops": [gen.op_json(o) for o in ops]}, stop=True)


# ------------------------------------------------------------------ git mode
# Relaxations (the only ones): paths, not ids; a directory is versioned iff it contains a versioned file or
# symlink (empty directories are not versioned); a rename may be reported as rename or as delete+add (compared
# through the set of changed paths); kind changes are not generated.

def _g_live_dirs(w):
    """ids of model directories that contain (transitively) a versioned non-directory entry."""
    live = set()
    for i, e in w.ents.items():
        if i == model.ROOT or e.kind == "directory":
            continue
        p = e.parent
        while p != model.ROOT and p not in live:
            live.add(p)
            p = w.ents[p].parent
    return live


def _g_model_view(w, ents=None):
    src = w if ents is None else None
    out = {}
    if ents is None:
        live = _g_live_dirs(w)
        for pth, (kind, content, ex, fid) in w.tree_view().items():
            e = w.ents[fid]
            if kind == "directory":
                if fid in live:
                    # a directory that vanished from disk (with everything below it) is still listed because of its
                    # versioned content, but has no kind on disk (wt.kind raises NoSuchFile -> None in the real view)
                    gone = e.missing or gen._under_missing(w, fid)
                    out[pth] = (None, None, False) if gone else ("directory", None, False)
            elif e.missing or gen._under_missing(w, fid):
                out[pth] = (None, None, False)
            else:
                out[pth] = (kind, content, ex)
    else:
        tmp = model.MWorld()
        tmp.ents = ents
        live = _g_live_dirs(tmp)
        for pth, (kind, content, ex, fid) in tmp.tree_view().items():
            if kind == "directory":
                if fid in live:
                    out[pth] = ("directory", None, False)
            else:
                out[pth] = (kind, content, ex)
    return out


def _g_real_view(wt):
    out = {}
    with wt.lock_read():
        for path, ie in wt.iter_entries_by_dir():
            if path == "":
                continue
            try:
                kind = wt.kind(path)
            except Exception as e:
                if type(e).__name__ not in ("NoSuchFile", "FileNotFoundError"):
                    raise
                kind = None
            content, ex = None, False
            if kind == "file":
                content = wt.get_file_text(path)
                ex = bool(wt.is_executable(path))
            elif kind == "symlink":
                content = wt.get_symlink_target(path)
            elif kind == "directory" and ie.kind != "directory":
                kind = None
            out[path] = (kind, content, ex)
    return out


def _g_cmp(ctx, w, wt, where, ops):
    rv = _g_real_view(wt)
    mv = _g_model_view(w)
    mv_full = dict(mv)
    # observation, not judged: a versioned symlink that is missing on disk is skipped by the git tree's
    # iter_entries_by_dir (its target cannot be read) although is_versioned() stays true; missing files are listed
    for q, i in w.paths().items():
        if q in mv and q not in rv and mv[q][0] is None and w.ents[i].kind == "symlink":
            del mv[q]
            ctx.hist("git-missing-symlink-not-listed")
    mpaths = w.paths()
    for q in sorted((q for q in mv if q in mpaths and w.ents[mpaths[q]].kind == "directory"), key=lambda x: -x.count("/")):
        if q not in rv and not any(r.startswith(q + "/") for r in mv):
            del mv[q]  # a directory whose only versioned content is such an unlisted symlink
    ctx.count("git_cmp_tree")
    seen = ctx.info.setdefault("_seen_paths", set())
    seen.update(mv_full)
    seen.update(rv)
    with wt.lock_read():
        for q in sorted(seen):
            ctx.count("git_is_versioned")
            exp = q in mv_full
            got = bool(wt.is_versioned(q))
            if got != exp and not (q in mv_full and q not in mv):
                ctx.fail("git:is_versioned-vs-model:%s" % where, "after %s: is_versioned(%r)=%s but the model says %s" % (ops[-1].get("op") if ops else None, q, got, exp),
                         {"ops": [gen.op_json(o) for o in ops]}, stop=True)
    if rv != mv:
        diffs = [(p, "real=%r" % (rv.get(p),), "model=%r" % (mv.get(p),)) for p in sorted(set(rv) | set(mv)) if rv.get(p) != mv.get(p)]
        ctx.fail("git:tree-vs-model:%s:%s" % (where, "paths" if set(rv) != set(mv) else "attrs"), "after %s: %r" % (ops[-1].get("op") if ops else None, diffs[:4]),
                 {"ops": [gen.op_json(o) for o in ops]}, stop=True)
    bv = _g_model_view(w, w.basis) if w.basis is not None else {}
    mv = mv_full
    mchanged = {p for p in set(bv) | set(mv) if bv.get(p) != mv.get(p)}
    rchanged = set()
    with wt.lock_read():
        bt = wt.basis_tree()
        with bt.lock_read():
            for c in wt.iter_changes(bt):
                for q in c.path:
                    if q:
                        rchanged.add(q)
    ctx.count("git_cmp_changes")
    # a directory whose set of children changed is not itself a change in the model's path view; ignore directories on both sides
    def nondirs(paths):
        return {q for q in paths if not (mv.get(q, (None,))[0] == "directory" or bv.get(q, (None,))[0] == "directory")}
    if nondirs(rchanged) != nondirs(mchanged):
        ctx.fail("git:changes-vs-model:%s" % where, "after %s: only real %r, only model %r" % (ops[-1].get("op") if ops else None, sorted(nondirs(rchanged) - nondirs(mchanged))[:4], sorted(nondirs(mchanged) - nondirs(rchanged))[:4]),
                 {"ops": [gen.op_json(o) for o in ops]}, stop=True)


def _exec_place_preamble(rng):
    """A committed file (executable or not) whose place and/or executable bit then change, followed by revert: the revert
    has to restore name, parent and mode of one entry at once (or bring back a removed executable file)."""
    f, g = rng.sample(["run.sh", "tool", "notes.txt", "x.c"], 2)
    ex = rng.random() < 0.6
    script = [{"op": "mkdir", "path": "bin"}, {"op": "add", "path": "bin", "id": "xbin"},
              {"op": "mkfile", "path": f, "content": b"#!/bin/sh\n"}, {"op": "add", "path": f, "id": "xf"},
              {"op": "chmod", "path": f, "exec": ex}, {"op": "commit"}]
    how = rng.choice(["rename+chmod", "move+chmod", "remove", "rename", "chmod"])
    if how == "rename+chmod":
        script += [{"op": "rename", "src": f, "dst": g}, {"op": "chmod", "path": g, "exec": not ex}]
    elif how == "move+chmod":
        script += [{"op": "rename", "src": f, "dst": "bin/" + f}, {"op": "chmod", "path": "bin/" + f, "exec": not ex}]
    elif how == "remove":
        script += [{"op": "remove", "path": f}]
    elif how == "rename":
        script += [{"op": "rename", "src": f, "dst": g}]
    else:
        script += [{"op": "chmod", "path": f, "exec": not ex}]
    script += [{"op": "revert"}]
    return script, how


def _prefix_sibling_preamble(rng):
    a, b = rng.choice([("d1", "d10"), ("sub", "sub2"), ("f1", "f10"), ("doc", "doc.txt")])
    script = [{"op": "mkdir", "path": a}, {"op": "mkfile", "path": a + "/x", "content": b"ax\n"}, {"op": "add", "path": a, "id": "pa"},
              {"op": "add", "path": a + "/x", "id": "pax"}]
    if "." in b:
        script += [{"op": "mkfile", "path": b, "content": b"sibling file\n"}, {"op": "add", "path": b, "id": "pb"}]
    else:
        script += [{"op": "mkdir", "path": b}, {"op": "mkfile", "path": b + "/y", "content": b"by\n"}, {"op": "add", "path": b, "id": "pb"},
                   {"op": "add", "path": b + "/y", "id": "pby"}]
    script += [{"op": "commit"}, {"op": rng.choice(["remove", "unversion", "delete_disk"]), "path": a}]
    return script


def case_git(ctx):
    from breezy.workingtree import WorkingTree

    rng = ctx.rng
    names = gen.Names(ctx.tier)
    d = ctx.tmp("gwt")
    p = os.path.join(d, "t")
    wt = gen.make_tree(p, "git")
    w = model.MWorld()
    nops = rng.randint(6, 14) if ctx.tier == "quick" else rng.randint(10, 40)
    weights = dict(gen.DEFAULT_WEIGHTS)
    weights["kindchange"] = 0
    ops, kinds = [], []
    ctx.info["ops"] = ops
    script = []
    r0 = rng.random()
    if r0 < 0.2:
        script = _prefix_sibling_preamble(rng)
        ctx.hist("git-prefix-sibling-preamble")
    elif r0 < 0.4:
        script, how = _exec_place_preamble(rng)
        ctx.hist("git-exec-place-preamble:" + how)
    nops += len(script)
    for step in range(nops):
        r = rng.random()
        if script:
            op = script.pop(0)
        elif r < 0.08 and _g_model_view(w) != (_g_model_view(w, w.basis) if w.basis is not None else {}):
            op = {"op": "commit"}
        elif r < 0.12 and w.basis is not None:
            op = {"op": "revert"}
        elif r < 0.22:
            op = {"op": "reopen"}
        else:
            op = gen.gen_op(rng, w, names, weights)
            if op is None:
                continue
            if op["op"] in ("rename", "remove", "unversion"):
                # git cannot name a directory that holds nothing versioned
                i = w.id_at(op.get("src") or op["path"])
                if w.ents[i].kind == "directory" and i not in _g_live_dirs(w):
                    continue
            if op["op"] == "delete_disk" and w.id_at(op["path"]) is not None and w.ents[w.id_at(op["path"])].kind == "directory" \
                    and w.id_at(op["path"]) not in _g_live_dirs(w):
                continue
        ops.append(op)
        kinds.append(op["op"])
        ctx.hist("git-op:" + op["op"])
        if op["op"] == "reopen":
            wt = WorkingTree.open(p)
            _g_cmp(ctx, w, wt, "reopen", ops)
            ctx.count("git_cmp_reopen")
            continue
        if op["op"] == "commit":
            wt.commit("m%d" % step)
            w.apply(op)
            bt = wt.basis_tree()
            with bt.lock_read():
                bv = {q: v[:3] for q, v in observe.snap_tree(bt, ids=False).items()}
            mbv = _g_model_view(w, w.basis)
            ctx.count("git_cmp_basis")
            if bv != mbv:
                diffs = [(q, bv.get(q), mbv.get(q)) for q in sorted(set(bv) | set(mbv)) if bv.get(q) != mbv.get(q)]
                ctx.fail("git:basis-vs-model", "after commit: %r" % (diffs[:4],), {"ops": [gen.op_json(o) for o in ops]}, stop=True)
        elif op["op"] == "revert":
            try:
                rconf = wt.revert()
            except Exception as e:
                if type(e).__name__ != "MalformedTransform":
                    raise
                kinds = sorted({c[0].replace(" ", "-") for c in getattr(e, "conflicts", []) or []})
                ctx.fail("%srevert:raised:MalformedTransform:%s" % ("git:", "+".join(kinds) or "?"), "revert of a legal tree raised %r" % (e,),
                         {"ops": [gen.op_json(o) for o in ops]}, stop=True)
            basis = w.basis
            if rconf or len(wt.conflicts()):
                ctx.hist("git-revert-with-conflicts")
                wt.set_conflicts([])
            # resynchronise the unversioned part (backup names are C12's subject); versioned part must equal the basis
            w.ents = {i: e.copy() for i, e in basis.items()}
            disk = observe.snap_disk(p)
            if rconf:
                w = gen.world_from_tree(wt)
                w.basis = basis
                ops.append({"op": "resync"})
                continue
            vp = w.paths()
            w.unv = {q: v for q, v in disk.items() if q not in vp}
            ctx.count("git_revert")
        else:
            if op["op"] == "add" and w.unv.get(op["path"], (None,))[0] == "directory":
                pass  # adding a directory itself versions nothing in git; the model keeps it as a parent for later adds
            try:
                gen.apply_real(wt, op, use_ids=False)
            except (KeyboardInterrupt, SystemExit):
                raise
            except BaseException as e:
                ctx.fail("git:refused-legal-op:%s:%s" % (op["op"], type(e).__name__), "%r refused: %r" % (gen.op_json(op), e),
                         {"ops": [gen.op_json(o) for o in ops]}, stop=True)
            w.apply(op)
        _g_cmp(ctx, w, wt, "live", ops)
    wt = WorkingTree.open(p)
    _g_cmp(ctx, w, wt, "final-reopen", ops)
    ctx.count("git_cmp_reopen")
    interesting = any(k in ("rename", "remove", "unversion", "delete_disk", "revert") for k in kinds)
    ctx.note(("git", kinds, sorted((q, repr(v)) for q, v in _g_model_view(w).items())), nontrivial=len(kinds) >= 4 and interesting,
             sample={"tree": "git", "ops": [gen.op_json(o) for o in ops][:14]})


def case(ctx):
    from breezy.workingtree import WorkingTree

    if ctx.index % 3 == 2:
        return case_git(ctx)
    rng = ctx.rng
    names = gen.Names(ctx.tier)
    d = ctx.tmp("wt")
    p = os.path.join(d, "t")
    wt = gen.make_tree(p, "2a")
    w = model.MWorld()
    nops = rng.randint(6, 14) if ctx.tier == "quick" else rng.randint(10, 40)
    weights = dict(gen.DEFAULT_WEIGHTS)
    ops = []
    kinds = []
    ctx.info["ops"] = ops
    hold = None  # lock held across several ops
    script = []
    if rng.random() < 0.25:
        # hostile preamble: sibling directories whose names are string prefixes of each other, populated and committed;
        # later one of them may vanish from disk / be removed / renamed
        a, b = rng.choice([("d1", "d10"), ("sub", "sub2"), ("f1", "f10")])
        script = [{"op": "mkdir", "path": a}, {"op": "mkdir", "path": b},
                  {"op": "mkfile", "path": a + "/x", "content": b"ax\n"}, {"op": "mkfile", "path": b + "/y", "content": b"by\n"},
                  {"op": "mkdir", "path": b + "/in"}, {"op": "mkfile", "path": b + "/in/z", "content": b"bz\n"},
                  {"op": "add", "path": a, "id": "pa"}, {"op": "add", "path": b, "id": "pb"}, {"op": "add", "path": a + "/x", "id": "pax"},
                  {"op": "add", "path": b + "/y", "id": "pby"}, {"op": "add", "path": b + "/in", "id": "pbin"}, {"op": "add", "path": b + "/in/z", "id": "pbz"},
                  {"op": "commit"}, {"op": rng.choice(["delete_disk", "remove", "unversion", "delete_disk"]), "path": rng.choice([a, a, b])},
                  {"op": "commit"}]
        ctx.hist("prefix-sibling-preamble")
    elif rng.random() < 0.15:
        # a directory holding one committed child and several added-but-uncommitted ones is unversioned / removed as a whole
        dn = rng.choice(names.dirs)
        script = [{"op": "mkdir", "path": dn}, {"op": "mkfile", "path": dn + "/a", "content": b"a\n"}, {"op": "add", "path": dn, "id": "qd"},
                  {"op": "add", "path": dn + "/a", "id": "qa"}, {"op": "commit"}]
        for k, nm in enumerate(rng.sample(["n1", "n2", "n3", "b", "z"], rng.randint(2, 4))):
            script += [{"op": "mkfile", "path": dn + "/" + nm, "content": b"new %d\n" % k}, {"op": "add", "path": dn + "/" + nm, "id": "qn%d" % k}]
        script += [{"op": rng.choice(["unversion", "unversion", "remove"]), "path": dn, "api": rng.choice(["unversion", "unversion", "remove"])}]
        ctx.hist("uncommitted-children-preamble")
    elif rng.random() < 0.2:
        script, how = _exec_place_preamble(rng)
        ctx.hist("exec-place-preamble:" + how)
    nops += len(script)
    for step in range(nops + 1):
        r = rng.random()
        if script:
            op = script.pop(0)
            if op["op"] == "commit" and not w.changes():
                continue
        elif step == nops:
            if not w.changes():
                break
            op = {"op": "commit"}
        elif r < 0.08 and w.ents.keys() - {model.ROOT}:
            op = {"op": "commit"}
        elif r < 0.12 and w.basis is not None:
            op = {"op": "revert"}
        elif r < 0.22:
            op = {"op": "reopen"}
        else:
            op = gen.gen_op(rng, w, names, weights)
            if op is None:
                continue
        ops.append(op)
        kinds.append(op["op"])
        ctx.hist("op:" + op["op"])
        if op["op"] == "reopen":
            if hold is not None:
                hold.unlock()
                hold = None
            wt = WorkingTree.open(p)
            _cmp(ctx, w, wt, "reopen", ops)
            ctx.count("cmp_reopen")
            if rng.random() < 0.3:
                hold = wt
                wt.lock_write()
            continue
        if op["op"] == "commit":
            try:
                wt.commit("m%d" % step, rev_id=b"r%d" % step)
            except Exception as e:
                if type(e).__name__ == "PointlessCommit" and not w.changes():
                    ops.pop()
                    kinds.pop()
                    continue
                raise
            w.apply(op)
            # basis tree must equal the model basis
            bt = wt.basis_tree()
            bv = observe.snap_tree(bt)
            mbv = {q: v for q, v in w.tree_view(w.basis).items()}
            ctx.count("cmp_basis")
            if bv != mbv:
                diffs = [(q, bv.get(q), mbv.get(q)) for q in sorted(set(bv) | set(mbv)) if bv.get(q) != mbv.get(q)]
                ctx.fail("basis-vs-model", "after commit: %r" % (diffs[:4],), {"ops": [gen.op_json(o) for o in ops]}, stop=True)
        elif op["op"] == "revert":
            try:
                rconf = wt.revert()
            except Exception as e:
                if type(e).__name__ != "MalformedTransform":
                    raise
                kinds = sorted({c[0].replace(" ", "-") for c in getattr(e, "conflicts", []) or []})
                ctx.fail("%srevert:raised:MalformedTransform:%s" % ("", "+".join(kinds) or "?"), "revert of a legal tree raised %r" % (e,),
                         {"ops": [gen.op_json(o) for o in ops]}, stop=True)
            if rconf or len(wt.conflicts()):
                # revert met conflicts (e.g. an unversioned file in the way) and resolved them its own
                # way (".moved" names); the property's model is silent there: resync and go on
                ctx.hist("revert-with-conflicts")
                wt.set_conflicts([])
                basis = w.basis
                w = gen.world_from_tree(wt)
                w.basis = basis
                ops.append({"op": "resync"})
                continue
            w.ents = {i: e.copy() for i, e in w.basis.items()}
            disk = observe.snap_disk(p)
            vp = w.paths()
            w.unv = {q: v for q, v in disk.items() if q not in vp}
            ctx.count("revert")
        else:
            try:
                gen.apply_real(wt, op)
            except (KeyboardInterrupt, SystemExit):
                raise
            except BaseException as e:
                ctx.fail("refused-legal-op:%s:%s" % (op["op"], type(e).__name__), "%r refused: %r" % (gen.op_json(op), e),
                         {"ops": [gen.op_json(o) for o in ops]}, stop=True)
            w.apply(op)
        _cmp(ctx, w, wt, "live", ops)
    if hold is not None:
        hold.unlock()
    wt = WorkingTree.open(p)
    _cmp(ctx, w, wt, "final-reopen", ops)
    ctx.count("cmp_reopen")
    interesting = any(k in ("rename", "remove", "unversion", "kindchange", "delete_disk", "revert") for k in kinds)
    ctx.note((kinds, sorted((q, repr(v[:3])) for q, v in _model_view(w).items())), nontrivial=len(kinds) >= 4 and interesting,
             sample={"ops": [gen.op_json(o) for o in ops][:14], "final_versioned_paths": sorted(w.paths())})
