"""C45 - end-of-line filters round-trip canonical content.

Pure half: law monitor on the real filter stack (``filters._get_filter_stack_for``
-> ``filtered_input_file`` / ``filtered_output_bytes``) over every byte string
of a bounded alphabet, every eol setting, several chunkings of the writer input.

  canonical for setting s := fixpoint of the reader, R_s(c) == c
  L1  R_s(W_s(chunks of c)) == c            for every canonical text c (no NUL)
  L2  NUL in x  =>  R_s(x) == x  and  join(W_s(chunks of x)) == x
  L3  exact is the identity in both directions
  L4  documented form (brz help eol, the two tables): for *plain* text (every CR
      is immediately followed by LF and not preceded by CR - ordinary LF / CRLF /
      mixed files) the committed form has only LF line ends (native, lf, crlf) or
      only CRLF line ends (*-with-crlf-in-repo), the checked-out form of a plain
      canonical text has only LF (lf*, native* on non-Windows) or only CRLF
      (crlf*), and the text is otherwise unchanged.  This pins what "canonical
      repository form" means for each setting; silent on anything not plain.

End-to-end half: user rules file in BRZ_HOME (``[name *] eol = s``), canonical
content committed raw (no rules), fresh checkout with the rules on, then:
bytes on disk read back through the tree's own filtered read equal the stored
text, binary files are byte-identical on disk, ``iter_changes`` against the
basis is empty after the stat cache has been defeated (mtime moved), the
ContentFilterAwareSHA1Provider sha equals the stored sha, and a commit in the
checkout is pointless.
"""
import itertools
import os
from io import BytesIO

ID = "C45"
LEVEL = "exploration"
TECHNIQUE = ("law monitor on the real eol filter stack, exhaustive over a bounded alphabet x 7 settings x chunkings; "
             "end-to-end checkout monitor (rules file, commit, fresh checkout, iter_changes, filtered sha)")
RULE = ("pure: every byte string of length <= 7 over {CR, LF, NUL, a, b} (thorough adds <= 9 over {CR,LF,NUL,a}, <= 11 over "
        "{CR,LF,a}, <= 16 over {CR,LF}) and random strings to 64 (thorough 400) bytes, each judged under all 7 eol settings "
        "with the writer fed the whole text, 1-byte chunks and random/all 2-splits; evaluation = one byte string judged under "
        "the 7 settings (e2e: one checked-out file); non-trivial = the string contains CR or LF and at least one law with a "
        "conversion at stake was evaluated on it (canonical text, binary, or plain text); distinct = distinct byte string "
        "(e2e: distinct (setting, content))")
CASES = {"quick": 100, "thorough": 320}
BUDGET_S = {"quick": 50, "thorough": 800}
MIN_EVALS = {"quick": 90000, "thorough": 800000}
FLOORS = {"L1_roundtrip": 60000, "L2_binary": 400000, "L3_exact": 90000, "L4_doc_commit": 10000, "L4_doc_checkout": 5000,
          "e2e_files": 400, "e2e_iter_changes": 28, "e2e_sha1_provider_calls": 300, "e2e_provider_sha": 300, "e2e_git_tree_sha": 100,
          "writer_chunked": 300000}
EXHAUSTIVE = {"quick": True, "thorough": True}
RUST = []   # anchors are pure Python (filters, cmdline); no crate needs rebuilding for this property
ASSUMPTIONS = [
    "canonical content for a setting is defined as a fixpoint of that setting's reader (DESIGN C45); content that is not a "
    "fixpoint is outside the round-trip law",
    "non-Windows host: 'native' output is LF (the Windows pairing reader=LF/writer=CRLF is the 'crlf' setting, which is covered)",
    "end-to-end half uses the default bzr format (2a, WorkingTree format 6) and, in one variant of four, a git working tree; the stat cache is defeated by moving mtimes",
    "L4 is only evaluated on plain text where the help tables are unambiguous",
]

SETTINGS = ("exact", "native", "lf", "crlf", "native-with-crlf-in-repo", "lf-with-crlf-in-repo", "crlf-with-crlf-in-repo")
CRLF_IN_REPO = {"native-with-crlf-in-repo", "lf-with-crlf-in-repo", "crlf-with-crlf-in-repo"}
CRLF_IN_TREE = {"crlf", "crlf-with-crlf-in-repo"}
LF_OUT_CRLF_IN_REPO = {"native-with-crlf-in-repo", "lf-with-crlf-in-repo"}

_stacks = {}


def stack_for(s):
    """The real filter stack for 'eol = s' through the registry (as a tree would get it)."""
    st = _stacks.get(s)
    if st is None:
        from breezy import filters

        st = filters._get_filter_stack_for((("eol", s),))
        _stacks[s] = st
    return st


def R(s, x):
    from breezy.filters import filtered_input_file

    f, size = filtered_input_file(BytesIO(x), stack_for(s))
    out = f.read()
    return out, size


def W(s, chunks):
    from breezy.filters import ContentFilterContext, filtered_output_bytes

    return b"".join(filtered_output_bytes(list(chunks), stack_for(s), ContentFilterContext(relpath="file")))


def is_plain(x):
    """Every CR is immediately followed by LF and not preceded by CR; no NUL."""
    if b"\x00" in x or b"\r\r" in x:
        return False
    return x.replace(b"\r\n", b"").find(b"\r") < 0 and not x.endswith(b"\r")


def only_lf(x):
    return b"\r" not in x


def only_crlf(x):
    return x.replace(b"\r\n", b"").find(b"\n") < 0 and x.replace(b"\r\n", b"").find(b"\r") < 0


def rt_key(s, c, written):
    """Mechanism key of the known defect: CR CR LF in crlf-in-repo canonical text, written with *every* CRLF turned into LF."""
    if s in LF_OUT_CRLF_IN_REPO and b"\r\r\n" in c and written == c.replace(b"\r\n", b"\n"):
        return "cr-cr-lf"
    return None


def chunkings(x, rng, all_splits):
    n = len(x)
    yield "whole", [x]
    if n >= 2:
        yield "bytes", [x[i:i + 1] for i in range(n)]
    if n >= 2:
        if all_splits:
            for k in range(1, n):
                yield "split", [x[:k], x[k:]]
        else:
            k = rng.randrange(1, n)
            yield "split", [x[:k], x[k:]]
            if n >= 3:
                a = rng.randrange(0, n)
                b = rng.randrange(a, n + 1)
                yield "split3", [x[:a], b"", x[a:b], x[b:]]


def judge(ctx, x, all_splits=False, sample=False):
    """Judge one byte string under all seven settings."""
    binary = b"\x00" in x
    plain = is_plain(x)
    at_stake = False
    classes = []
    for s in SETTINGS:
        d = {"setting": s, "content": repr(x)}
        rx, size = R(s, x)
        if size != len(rx):
            ctx.fail("reader:size-mismatch", "filtered_input_file size %d != len %d for %r under %s" % (size, len(rx), x, s), d)
        if s == "exact":
            ctx.count("L3_exact")
            ctx.check(rx == x, "exact:reader-not-identity", "R_exact(%r) = %r" % (x, rx), d)
            for how, ch in chunkings(x, ctx.rng, all_splits):
                ctx.check(W(s, ch) == x, "exact:writer-not-identity", "W_exact(%r) = %r" % (ch, W(s, ch)), d)
            continue
        if binary:
            ctx.count("L2_binary")
            at_stake = True
            ctx.check(rx == x, "binary-converted:reader", "R_%s(%r) = %r (content has NUL)" % (s, x, rx), d)
            for how, ch in chunkings(x, ctx.rng, all_splits):
                ctx.count("writer_chunked")
                wx = W(s, ch)
                ctx.check(wx == x, "binary-converted:writer:" + ("whole" if how == "whole" else "chunked"),
                          "W_%s(%r) = %r (content has NUL)" % (s, ch, wx), dict(d, chunks=repr(ch)))
            continue
        canonical = rx == x
        if plain:
            ctx.count("L4_doc_commit")
            at_stake = True
            if s in CRLF_IN_REPO:
                good = only_crlf(rx) and rx.replace(b"\r\n", b"\n") == x.replace(b"\r\n", b"\n")
            else:
                good = only_lf(rx) and rx == x.replace(b"\r\n", b"\n")
            ctx.check(good, "doc-form:commit", "R_%s(%r) = %r is not the documented commit form (%s line ends)"
                      % (s, x, rx, "crlf" if s in CRLF_IN_REPO else "lf"), d)
        if not canonical:
            classes.append("n")
            continue
        classes.append("c")
        ctx.count("L1_roundtrip")
        at_stake = True
        w_whole = None
        for how, ch in chunkings(x, ctx.rng, all_splits):
            ctx.count("writer_chunked")
            wx = W(s, ch)
            if how == "whole":
                w_whole = wx
            back, _ = R(s, wx)
            if back != x:
                ctx.fail(rt_key(s, x, wx) or ("roundtrip:" + ("whole" if how == "whole" else "chunked")),
                         "setting %s: canonical %r written as %r (chunks %r) read back as %r" % (s, x, wx, ch, back),
                         dict(d, chunks=repr(ch), written=repr(wx), read_back=repr(back)))
        if plain and w_whole is not None:
            ctx.count("L4_doc_checkout")
            if s in CRLF_IN_TREE:
                good = only_crlf(w_whole)
            else:
                good = only_lf(w_whole)
            good = good and w_whole.replace(b"\r\n", b"\n") == x.replace(b"\r\n", b"\n")
            ctx.check(good, "doc-form:checkout", "W_%s(%r) = %r is not the documented checkout form (%s line ends)"
                      % (s, x, w_whole, "crlf" if s in CRLF_IN_TREE else "lf"), d)
    ctx.hist("canonical_under_%d_of_6" % classes.count("c") if not binary else "binary")
    ctx.note(x, nontrivial=at_stake and (b"\r" in x or b"\n" in x),
             sample={"content": repr(x), "binary": binary, "plain": plain,
                     "canonical_under": [s for s, c in zip(SETTINGS[1:], classes) if c == "c"]} if sample else None)


# ------------------------------------------------------------------ enumeration

def universe(tier):
    """(alphabet, max length) blocks; later blocks skip strings already in an earlier block."""
    blocks = [(b"\r\n\x00ab", 7)]
    if tier == "thorough":
        blocks += [(b"\r\n\x00a", 9), (b"\r\na", 11), (b"\r\n", 16)]
    return blocks


def enum_strings(tier):
    blocks = universe(tier)
    for bi, (alpha, L) in enumerate(blocks):
        syms = [bytes([c]) for c in alpha]
        for n in range(L + 1):
            for t in itertools.product(syms, repeat=n):
                x = b"".join(t)
                dup = False
                for pa, pl in blocks[:bi]:
                    if n <= pl and all(c in pa for c in x):
                        dup = True
                        break
                if not dup:
                    yield x


def random_string(rng, maxlen):
    kind = rng.random()
    n = rng.choice([3, 8, 16, 32, maxlen])
    n = rng.randint(0, n)
    if kind < 0.35:
        pool = [b"\r", b"\n", b"a"]
    elif kind < 0.6:
        pool = [b"\r\n", b"\n", b"\r", b"\r\r\n", b"a", b"bc", b" "]
    elif kind < 0.8:
        pool = [b"\r\n", b"\n", b"line", b" ", b"x"]
    else:
        pool = [b"\r", b"\n", b"\x00", b"a", b"b", b"\r\n"]
    return b"".join(rng.choice(pool) for _ in range(n))[:maxlen]


# ------------------------------------------------------------------ end-to-end half

_provider_calls = [0]


def worker_init(tier):
    from breezy.bzr import workingtree_4

    cls = workingtree_4.ContentFilterAwareSHA1Provider
    o_sha1, o_stat = cls.sha1, cls.stat_and_sha1

    def sha1(self, abspath):
        _provider_calls[0] += 1
        return o_sha1(self, abspath)

    def stat_and_sha1(self, abspath):
        _provider_calls[0] += 1
        return o_stat(self, abspath)

    cls.sha1 = sha1
    cls.stat_and_sha1 = stat_and_sha1


def set_rules(text):
    from breezy import rules

    p = rules.rules_path()
    os.makedirs(os.path.dirname(p), exist_ok=True)
    with open(p, "w") as f:
        f.write(text)
    rules.reset_rules()


def canonical_samples(ctx, s, want, maxlen):
    """Contents that are canonical for s (fixpoints of the real reader), NUL-containing ones included."""
    out = []
    fixed = [b"", b"hello\nworld\n", b"hello\r\nworld\r\n", b"no newline at end", b"\n", b"\r\n", b"\r", b"\r\r\n", b"a\r\r\nb\r\n",
             b"\r\r\r\n\r\n", b"bin\x00\r\n\n\r", b"\x00", b"a\rb\r\n", b"\n\r", b"\r\n\r\n\r\n"]
    tries = 0
    while len(out) < want and tries < want * 40:
        tries += 1
        if fixed and ctx.rng.random() < 0.5:
            x = fixed.pop(ctx.rng.randrange(len(fixed)))
        elif ctx.rng.random() < 0.5:
            x = b"".join(ctx.rng.choice([b"\r", b"\n", b"\x00", b"a", b"b"]) for _ in range(ctx.rng.randint(0, 7)))
        else:
            x = random_string(ctx.rng, maxlen)
        for _ in range(4):  # iterate the real reader towards a fixpoint (candidates only; fixpoint is re-tested)
            y, _sz = R(s, x)
            if y == x:
                break
            x = y
        if R(s, x)[0] == x and x not in out:
            out.append(x)
    return out


def e2e(ctx, k):
    from breezy import errors
    from breezy.bzr import workingtree_4
    from breezy.commit import PointlessCommit
    from breezy.controldir import ControlDir, format_registry
    from breezy.workingtree import WorkingTree

    s = SETTINGS[k % len(SETTINGS)]
    variant = (k // len(SETTINGS)) % 4          # 0: [name *]; 1: *.bin exact first; 2: lightweight checkout; 3: git tree
    nfiles = 24 if ctx.tier == "quick" else 40
    try:
        contents = canonical_samples(ctx, s, nfiles, 64 if ctx.tier == "quick" else 300)
        d = ctx.tmp("e2e")
        set_rules("")
        fmt = format_registry.make_controldir("git") if variant == 3 else None
        wt = ControlDir.create_standalone_workingtree(os.path.join(d, "src"), format=fmt)
        files = {}
        os.mkdir(os.path.join(d, "src", "sub dir"))
        for i, c in enumerate(contents):
            name = "f%02d.txt" % i if i % 3 else "sub dir/g%02d" % i
            files[name] = (c, s)
        if variant == 1:
            # explicit earlier pattern wins: these files are 'exact' whatever they contain
            for i, c in enumerate([b"x\r\ny\n", b"\r\r\n", b"p\nq\n\r"]):
                files["raw%d.bin" % i] = (c, "exact")
        for name, (c, _s) in files.items():
            with open(os.path.join(d, "src", name), "wb") as f:
                f.write(c)
        wt.add(["sub dir"] + sorted(files))
        wt.commit("canonical content")
        basis = wt.basis_tree()
        with basis.lock_read():
            stored = {n: basis.get_file_text(n) for n in files}
            stored_sha = {n: basis.get_file_sha1(n) for n in files}
        if any(stored[n] != files[n][0] for n in files):
            ctx.discard("raw commit did not store the bytes as written")
    except errors.BzrError as e:
        ctx.discard("workload construction: %s" % type(e).__name__)
    # ---- operation under test: fresh checkout with the rules file switched on
    if variant == 1:
        set_rules("[name *.bin]\neol = exact\n\n[name *]\neol = %s\n" % s)
    else:
        set_rules("[name *]\neol = %s\n" % s)
    try:
        dst = os.path.join(d, "checkout")
        if variant == 2:
            wt.branch.create_checkout(dst, lightweight=True)
        else:
            wt.controldir.sprout(dst)
        ctx.hist("e2e_route_%s" % ("bzr-lightweight-checkout" if variant == 2 else "git-sprout" if variant == 3 else "bzr-sprout"))
        ctx.hist("e2e_setting_%s" % s)
        disk = {}
        for n in files:
            p = os.path.join(dst, n)
            with open(p, "rb") as f:
                disk[n] = f.read()
            os.utime(p, (1000000000, 1000000000))   # defeat the dirstate stat cache
        wt2 = WorkingTree.open(dst)
        with wt2.lock_read():
            if variant != 3:
                ctx.check(isinstance(wt2._sha1_provider(), workingtree_4.ContentFilterAwareSHA1Provider), "e2e:no-filter-aware-provider",
                          "tree does not use ContentFilterAwareSHA1Provider")
            bt = wt2.basis_tree()
            before = _provider_calls[0]
            with bt.lock_read():
                changed = {c.path[1] or c.path[0]: c for c in wt2.iter_changes(bt)}
                ctx.count("e2e_sha1_provider_calls", _provider_calls[0] - before)   # calls made by iter_changes itself
                delta_changed = wt2.changes_from(bt).has_changed()
            ctx.count("e2e_iter_changes")
            for n, (c, fs) in sorted(files.items()):
                det = {"setting": fs, "content": repr(c), "on_disk": repr(disk[n]), "route": variant}
                key = rt_key(fs, c, disk[n])
                ctx.count("e2e_files")
                stack = wt2._content_filter_stack(n)
                ctx.check((len(stack) == 0) == (fs == "exact"), "e2e:wrong-filter-stack", "%s: stack %r for setting %s" % (n, stack, fs), det)
                if b"\x00" in c or fs == "exact":
                    ctx.count("e2e_binary_or_exact")
                    ctx.check(disk[n] == c, "e2e:binary-converted" if fs != "exact" else "e2e:exact-converted",
                              "setting %s: stored %r checked out as %r" % (fs, c, disk[n]), det)
                with wt2.get_file(n, filtered=True) as f:
                    back = f.read()
                if back != c:
                    ctx.fail(key or "e2e:disk-roundtrip", "setting %s: stored %r, on disk %r, filtered read %r" % (fs, c, disk[n], back), det)
                if n in changed:
                    ctx.fail(key or "e2e:checkout-reports-changes",
                             "setting %s: fresh checkout of canonical %r (on disk %r) reported by iter_changes" % (fs, c, disk[n]), det)
                if variant != 3:
                    prov = wt2._sha1_provider()
                    sha = prov.sha1(wt2.abspath(n))
                    _st, sha2 = prov.stat_and_sha1(wt2.abspath(n))
                    ctx.count("e2e_provider_sha")
                else:
                    sha = sha2 = wt2.get_file_sha1(n)
                    ctx.count("e2e_git_tree_sha")
                if not (sha == sha2 == stored_sha[n] == wt2.get_file_sha1(n)):
                    ctx.fail(key or "e2e:filtered-sha-differs", "setting %s: provider sha %r/%r, tree sha %r, stored %r for %r"
                             % (fs, sha, sha2, wt2.get_file_sha1(n), stored_sha[n], c), det)
                ctx.note(("e2e", fs, c), nontrivial=(b"\r" in c or b"\n" in c),
                         sample={"e2e": True, "setting": fs, "stored": repr(c), "on_disk": repr(disk[n]), "route": variant}
                         if (b"\r" in c and len(c) > 4 and fs != "exact" and ctx.rng.random() < 0.1) else None)
            extra = set(changed) - set(files)
            ctx.check(not extra, "e2e:checkout-reports-changes:other", "iter_changes reports %r" % sorted(extra))
            ctx.check(delta_changed == bool(changed), "e2e:changes_from-disagrees-with-iter_changes",
                      "has_changed=%r iter_changes=%r" % (delta_changed, sorted(changed)))
        # a commit in an unchanged checkout must be pointless
        if not changed and variant != 2:
            ctx.count("e2e_pointless_commit")
            wt3 = WorkingTree.open(dst)
            try:
                wt3.commit("nothing", allow_pointless=False)
                ctx.fail("e2e:commit-not-pointless", "commit in a fresh checkout under %s recorded a revision" % s)
            except PointlessCommit:
                pass
    finally:
        set_rules("")


def case(ctx):
    quick = ctx.tier == "quick"
    n_enum, n_rand = (48, 24) if quick else (192, 72)
    i = ctx.index
    if i < n_enum:
        for idx, x in enumerate(enum_strings(ctx.tier)):
            if idx % n_enum != i:
                continue
            judge(ctx, x, all_splits=(not quick and len(x) <= 8), sample=(idx % 20011 == 7))
        return
    i -= n_enum
    if i < n_rand:
        maxlen = 64 if quick else 400
        for r in range(300 if quick else 2500):
            x = random_string(ctx.rng, maxlen)
            ctx.count("random_strings")
            judge(ctx, x, sample=(r == 17 and i < 2))
            # also the reader's iterates: a cheap source of long canonical strings
            y = R(ctx.rng.choice(SETTINGS[1:]), x)[0]
            if y != x:
                judge(ctx, y)
        return
    e2e(ctx, i - n_rand)
