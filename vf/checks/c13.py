"""C13 - applying a tree transform is all-or-nothing on the file system.

A real command (revert / merge / direct TreeTransform script) is run once without faults on a copy
(state A) and once per fault position on fresh copies: the k-th file-system call made while
tt.apply() runs (os.rename, delete_any, os.chmod, ... counted in a dry run) raises OSError.
Each outcome is judged with fresh objects against the states before (B) and after (A).
"""
import errno
import os
import shutil

from vf import gen, instr, observe

ID = "C13"
LEVEL = "fault_enumeration"
TECHNIQUE = "OS-call failpoint sweep over every file-system call inside tt.apply() of real transforms; before/after twin oracle on fresh objects"
LEVEL_TEXT = ("for generated working-tree states, the transforms built by revert, merge and direct TreeTransform scripts (create, delete, rename, swap, kind change, nested renames) "
              "are applied with a failure injected at every rename / deletion / chmod the dry run observed (all positions): afterwards disk and versioned layout are exactly the "
              "previous state or exactly the transformed state, metadata agrees with disk, and leftovers do not stop the next transform")
RULE = ("case = (tree state, command); fault runs = all file-system calls inside apply(); non-trivial = transform with >= 3 file-system calls; "
        "distinct = (command, call-name sequence, fault position)")
CASES = {"quick": 48, "thorough": 600}
BUDGET_S = {"quick": 50, "thorough": 800}
MIN_EVALS = {"quick": 80, "thorough": 800}
FLOORS = {"fault_runs": 80, "state_is_before": 30, "apply_windows": 20}
ASSUMPTIONS = ["fault model: one OSError (EIO or EACCES) raised instead of performing one file-system call made from breezy/transform.py, bzr/transform.py or git/transform.py while apply() runs; no double faults",
               "states are compared by file contents, kinds, exec bits and versioned (path, kind, file id); control directory internals are not compared"]

_F = None


def worker_init(tier):
    global _F
    import breezy.bzr.transform as bt
    import breezy.git.transform as gt

    _F = instr.OsFaults.get()
    _F.window(bt.InventoryTreeTransform, "apply")
    _F.window(gt.GitTreeTransform, "apply")


def _state(path):
    """(disk snapshot, versioned layout) seen by fresh objects."""
    from breezy.workingtree import WorkingTree

    disk = observe.snap_disk(path)
    wt = WorkingTree.open(path)
    ver = {}
    with wt.lock_read():
        for p, ie in wt.iter_entries_by_dir():
            if p:
                ver[p] = (ie.kind, ie.file_id if getattr(wt, "supports_file_ids", True) else None)
        # the basis the tree claims to be at belongs to its versioning metadata
        ver["<parents>"] = ("parents", tuple(wt.get_parent_ids()))
    return disk, ver


def _agree(disk, ver, missing_ok):
    """every versioned path exists on disk with the recorded kind (unless it was already missing / kind-changed before)."""
    bad = []
    ids_ok = missing_ok[1] if isinstance(missing_ok, tuple) else set()
    missing_ok = missing_ok[0] if isinstance(missing_ok, tuple) else missing_ok
    for p, (kind, fid) in ver.items():
        if p == "<parents>":
            continue
        d = disk.get(p)
        if p in missing_ok or (fid is not None and fid in ids_ok):
            continue
        if d is None or d[0] != kind:
            bad.append((p, kind, d[0] if d else None))
    return bad


def _prepare(ctx):
    """A standalone 2a tree with history and pending changes; returns (dir, command descriptor)."""
    rng = ctx.rng
    names = gen.Names(ctx.tier)
    root = ctx.tmp("c13")
    p = os.path.join(root, "t")
    wt = gen.make_tree(p, "2a")
    log = []
    gen.random_delta(rng, wt, names, rng.randint(4, 9), log=log)
    wt.smart_add([p])
    wt.commit("base", rev_id=b"base")
    cmd = rng.choice(["revert", "revert", "revert-nobackup", "merge", "merge", "script", "update", "update"])
    if cmd == "update":
        # t becomes an out-of-date heavyweight checkout: the master gets new revisions
        from breezy.workingtree import WorkingTree

        m = os.path.join(root, "m")
        wt.branch.controldir.sprout(m)
        mwt = WorkingTree.open(m)
        gen.random_delta(rng, mwt, names, rng.randint(3, 8), log=log)
        mwt.smart_add([m])
        mwt.commit("master moves on", rev_id=b"master-2")
        wt.branch.bind(mwt.branch)
        gen.random_delta(rng, wt, names, rng.randint(0, 3), log=log)
    elif cmd == "merge":
        # other branch with its own changes
        o = os.path.join(root, "o")
        wt.branch.controldir.sprout(o)
        from breezy.workingtree import WorkingTree

        owt = WorkingTree.open(o)
        gen.random_delta(rng, owt, names, rng.randint(3, 8), log=log)
        owt.smart_add([o])
        owt.commit("other", rev_id=b"other")
        gen.random_delta(rng, wt, names, rng.randint(0, 4), log=log)
        if rng.random() < 0.6:
            wt.smart_add([p])
            wt.commit("this", rev_id=b"this")
    else:
        gen.random_delta(rng, wt, names, rng.randint(3, 9), log=log)
        if rng.random() < 0.5:
            wt.smart_add([p])
    return root, cmd, log


def _script(wt, rng_seed):
    """A direct TreeTransform: swap two files through renames, delete one, create one, kind-change one."""
    import random

    rr = random.Random(rng_seed)
    with wt.lock_tree_write():
        tt = wt.transform()
        try:
            files = [p for p, ie in wt.iter_entries_by_dir() if p and ie.kind == "file" and os.path.isfile(wt.abspath(p))]
            rr.shuffle(files)
            if len(files) >= 2:
                a, b = files[0], files[1]
                ta, tb = tt.trans_id_tree_path(a), tt.trans_id_tree_path(b)
                pa, pb = tt.final_parent(ta), tt.final_parent(tb)
                na, nb = tt.final_name(ta), tt.final_name(tb)
                tt.adjust_path(nb, pb, ta)
                tt.adjust_path(na, pa, tb)
            if len(files) >= 3:
                tc = tt.trans_id_tree_path(files[2])
                tt.delete_contents(tc)
                if rr.random() < 0.5:
                    tt.unversion_file(tc)
                else:
                    tt.create_directory(tc)
            root = tt.root
            tn = tt.new_file("created-by-script", root, [b"new content\n"], b"script-file-id")
            tt.new_directory("newdir-by-script", root, b"script-dir-id")
            tt.apply()
        finally:
            tt.finalize()


def _run_command(path, cmd, root, seed):
    from breezy.branch import Branch
    from breezy.workingtree import WorkingTree

    wt = WorkingTree.open(path)
    if cmd == "update":
        wt.branch.set_bound_location(Branch.open(os.path.join(root, "m")).base)
    if cmd == "revert":
        wt.revert()
    elif cmd == "revert-nobackup":
        wt.revert(backups=False)
    elif cmd == "merge":
        with wt.lock_write():
            wt.merge_from_branch(Branch.open(os.path.join(root, "o")))
    elif cmd == "script":
        _script(wt, seed)
    elif cmd == "update":
        wt.update()


def _copy(root, ctx):
    d = ctx.tmp("c13r")
    for sub in os.listdir(root):
        shutil.copytree(os.path.join(root, sub), os.path.join(d, sub), symlinks=True)
    return d


def case(ctx):
    rng = ctx.rng
    try:
        root, cmd, log = _prepare(ctx)
    except Exception as e:
        ctx.discard("workload construction failed: %s" % type(e).__name__)
    seed = rng.random()
    before_disk, before_ver = _state(os.path.join(root, "t"))
    _miss = {p for p, (k, _) in before_ver.items() if p != "<parents>" and before_disk.get(p, (None,))[0] != k}
    # (paths, file ids) that were already missing / of another kind on disk before the command: they may stay so, also under a new name
    missing_ok = (_miss, {before_ver[p][1] for p in _miss} | {fid for q, (k, fid) in before_ver.items() if q != "<parents>" and any(q.startswith(m + "/") for m in _miss)})
    # twin: unfaulted run (also the dry run that counts the fault positions)
    twin = _copy(root, ctx)
    _F.begin(fail_at=None, only_in=("/transform.py",))
    try:
        try:
            _run_command(os.path.join(twin, "t"), cmd, twin, seed)
        finally:
            _F.end()
    except Exception as e:
        ctx.hist("twin-refused:%s" % type(e).__name__)
        ctx.discard("the unfaulted command itself failed: %s" % type(e).__name__)
    n = _F.count
    calls = list(_F.calls)
    nwin = _F.windows
    ctx.count("apply_windows")
    ctx.count("dry_fs_calls", n)
    after_disk, after_ver = _state(os.path.join(twin, "t"))
    detail0 = {"command": cmd, "ops": log[-30:], "fs_calls": [c[0] for c in calls]}
    bad = _agree(after_disk, after_ver, missing_ok)
    ctx.check(not bad, "unfaulted:metadata-disagrees-with-disk", "after %s: %r" % (cmd, bad[:4]), detail0)
    positions = list(range(1, n + 1))
    if ctx.tier == "quick" and n > 14:
        positions = sorted(rng.sample(positions, 14))
    for k in positions:
        d = _copy(root, ctx)
        en = errno.EIO if k % 2 else errno.EACCES
        # every fourth fault is the user's interrupt arriving while that file-system operation is under way (the
        # operation does not complete): the rollback promise is the same
        interrupt = rng.random() < 0.25
        _F.begin(fail_at=k, errno_=en, only_in=("/transform.py",), exc=KeyboardInterrupt if interrupt else None)
        raised = None
        try:
            try:
                _run_command(os.path.join(d, "t"), cmd, d, seed)
            finally:
                _F.end()
        except Exception as e:
            raised = e
        except KeyboardInterrupt as e:
            if _F.fired is None:
                raise
            raised = e
        if interrupt:
            ctx.count("fault_runs_interrupt")
        ctx.count("fault_runs")
        name = calls[k - 1][0] if k - 1 < len(calls) else "?"
        phase = "deletion" if name == "delete_any" and all(c[0] == "delete_any" for c in calls[k - 1:]) else "rename/insert"
        tgt = os.path.basename(str(calls[k - 1][1])) if k - 1 < len(calls) else ""
        if name == "delete_any" and tgt in ("limbo", "pending-deletion"):
            phase = "limbo-cleanup"  # finalize() could not remove its own temporary directory after the transform was applied
        detail = dict(detail0, position=k, call=name, phase=phase, raised=repr(raised)[:200], target=os.path.basename(str(calls[k - 1][1]))[:40] if k - 1 < len(calls) else None)
        if _F.fired is None:
            ctx.count("fault_not_reached")
            continue
        try:
            disk, ver = _state(os.path.join(d, "t"))
        except Exception as e:
            ctx.fail("after-fault:tree-cannot-be-opened", "fault at #%d %s (%s): %r" % (k, name, phase, e), detail)
            continue
        if phase in ("deletion", "limbo-cleanup"):
            strip = lambda v: {k: x for k, x in v.items() if k != "<parents>"}
            is_b = (disk, strip(ver)) == (before_disk, strip(before_ver))
            is_a = (disk, strip(ver)) == (after_disk, strip(after_ver))
        else:
            is_b = (disk, ver) == (before_disk, before_ver)
            is_a = (disk, ver) == (after_disk, after_ver)
        if raised is None:
            ctx.hist("fault-swallowed:" + name)
            ctx.check(is_a, "fault-swallowed:result-differs-from-clean-run", "fault at #%d %s swallowed but the result is not the transformed state" % (k, name), detail)
        elif is_b:
            ctx.count("state_is_before")
        elif is_a:
            ctx.count("state_is_after")
        else:
            what = []
            np_ = lambda v: {k: x for k, x in v.items() if k != "<parents>"}
            if np_(ver) == np_(before_ver):
                what.append("metadata=old")
                mclass = "old"
            elif np_(ver) == np_(after_ver):
                what.append("metadata=new")
                mclass = "new"
            else:
                what.append("metadata=mixed")
                mclass = None
            pclass = "old" if ver["<parents>"] == before_ver["<parents>"] else "new" if ver["<parents>"] == after_ver["<parents>"] else "other"
            # The basis/pending-merge marker is written by the command after apply() returns; it is judged where the
            # statement is explicit: a failure before the transform is committed restores everything (basis included).
            if phase not in ("deletion", "limbo-cleanup") and before_ver["<parents>"] != after_ver["<parents>"] and mclass is not None and pclass != mclass:
                what.append("basis=" + pclass)
            if disk == before_disk:
                what.append("disk=old")
            elif disk == after_disk:
                what.append("disk=new")
            else:
                what.append("disk=mixed")
            ddiff = {"differs_from_before": {p: (repr(disk.get(p))[:60], repr(before_disk.get(p))[:60]) for p in sorted(set(disk) | set(before_disk)) if disk.get(p) != before_disk.get(p)},
                     "differs_from_after": {p: (repr(disk.get(p))[:60], repr(after_disk.get(p))[:60]) for p in sorted(set(disk) | set(after_disk)) if disk.get(p) != after_disk.get(p)}}
            only_exec = ver == before_ver and set(disk) == set(before_disk) and all(
                disk[q][:2] == before_disk[q][:2] for q in disk) and phase != "deletion"
            if only_exec:
                ctx.fail("rollback:exec-bit-not-restored", "%s with fault at #%d %s: rolled back, but executable bits changed by the transform before the failure were not restored: %r" % (
                    cmd, k, name, sorted(q for q in disk if disk[q] != before_disk[q])[:4]), detail)
            elif phase == "deletion" and nwin > 1 and "metadata=mixed" in what:
                # a command made of several transforms (update): one was committed, the failing one shows the known
                # deletion-phase mechanism, so the whole is neither the old nor the new layout
                ctx.fail("fault-in-deletion-phase:multi-transform-command:metadata-mixed", "%s (%d transforms) with fault at #%d %s: %s" % (cmd, nwin, k, name, " ".join(what)), detail)
            else:
                ctx.fail("fault-in-%s-phase:%s" % (phase.replace("/", "-"), ",".join(what)),
                         "%s with fault at #%d %s: neither the previous nor the transformed state (%s); e.g. %r" % (cmd, k, name, " ".join(what), ddiff), detail)
        bad = _agree(disk, ver, missing_ok)
        if bad and not (is_b or is_a):
            ctx.fail("fault-in-%s-phase:metadata-disagrees-with-disk" % phase.replace("/", "-"), "versioned paths missing/other kind on disk: %r" % (bad[:4],), detail)
        # leftovers must not stop the next transform
        try:
            from breezy.workingtree import WorkingTree

            wt = WorkingTree.open(os.path.join(d, "t"))
            wt.revert()
            ctx.count("next_transform_ok")
        except Exception as e:
            ctx.fail("fault-in-%s-phase:next-transform-blocked:%s" % (phase.replace("/", "-"), type(e).__name__), "after the failed %s (fault #%d %s) a following revert fails: %r" % (cmd, k, name, e), detail)
        ctx.note((cmd, tuple(c[0] for c in calls), k), nontrivial=n >= 3,
                 sample={"command": cmd, "fs_calls_in_apply": [c[0] for c in calls][:30], "fault_position": k, "call": name, "raised": repr(raised)[:100],
                         "state": "before" if is_b else "after" if is_a else "OTHER"} if k == 2 else None)
    ctx.hist("command:" + cmd)
