"""C51 - rebase plans replay exactly the branch's own revisions onto the new base.

Plan half: on generated multi-branch histories (merges, criss-cross, ghosts) the real `rebase` command is
run with --dry-run for many (branch, upstream, --onto, -r start..stop, --always-rebase-merges) choices;
a tap on generate_simple_plan captures the todo set cmd_rebase computed and the plan that came back.
Both are judged with plain-set graph algebra over the repository's parent map: todo == ancestry(stop) -
ancestry(onto); planned revisions == todo (within the start..stop window; only fully merged merges may be
skipped); every new parent is the new base, an ancestor of it, an earlier rewritten revision or a
revision outside the rebased set; the plan survives marshal/unmarshal and RebaseState1 on a real tree
(unicode revision ids included).  generate_transpose_plan is judged against the substitution rule.

Replay half: feature/trunk histories that touch disjoint files are really rebased (rebase() with the
working-tree replayer, via the command): every planned revision must exist with its planned parents,
its original message / timestamp / rebase-of, the feature's files as in the original and the trunk's
files as in the new base.
"""
import io
import os

from vf import gen, observe
from vf.checks import _c16_hist as H

ID = "C51"
LEVEL = "exploration"
TECHNIQUE = ("tap on generate_simple_plan inside the real rebase command (dry run) + plain-set graph oracle; marshal / RebaseState1 round trips; differential replay "
             "(rebased revisions vs originals) on disjoint-file histories; substitution-rule oracle for generate_transpose_plan")
LEVEL_TEXT = ("generated DAG histories (3 branches, merges, two merged parents, ghosts) x (branch, upstream, onto incl. ancestors / merged / unrelated, start..stop windows, "
              "skip or rebase merges): todo set as cmd_rebase computes it equals ancestry(stop)-ancestry(onto); plan keys, parent replacement and ordering rules hold; "
              "plans round-trip through marshal and through RebaseState1 on disk; real rebases of disjoint-file histories reproduce messages, metadata, planned parents "
              "and per-side file contents")
RULE = ("plan case = one history, 10-14 (quick) / 14-24 (thorough) dry-run rebase invocations, one evaluation each; non-trivial = plan with >= 2 revisions or a refusal / "
        "no-op decided by the graph; distinct = (relation of onto to the branch, window kind, skip mode, plan size class, merges in plan, outcome). replay case = one "
        "feature/trunk history really rebased (both merge modes on copies); marshal: 40 synthetic plans per case")
CASES = {"quick": 32, "thorough": 720}
BUDGET_S = {"quick": 150, "thorough": 640}
MIN_EVALS = {"quick": 150, "thorough": 1500}
FLOORS = {"quick": {"todo_set": 60, "plan_rules": 60, "marshal_roundtrip": 400, "state_roundtrip": 20, "replay_revisions": 25, "replay_contents": 15, "transpose_plan": 25},
          "thorough": {"todo_set": 500, "plan_rules": 500, "marshal_roundtrip": 4000, "state_roundtrip": 200, "replay_revisions": 200, "replay_contents": 100, "transpose_plan": 250}}
ASSUMPTIONS = ["with a start revision the rebased window is a slice of one topological order: the oracle demands start, stop and everything between them by ancestry, "
               "forbids strict ancestors of start, and is silent on revisions unrelated to start",
               "in skip mode (the command's default) a merge revision may be left out; which ones is not judged, only that nothing else is left out and that nothing "
               "planned refers to a left-out or rewritten revision by its old id",
               "replay comparison assumes feature and trunk touch disjoint paths (true by construction), so a correct replay is conflict free",
               "revision ids contain no ASCII whitespace / control characters (breezy refuses those elsewhere)"]


class _Out(io.StringIO):
    encoding = "utf-8"


def worker_init(tier):
    os.environ["RUST_BACKTRACE"] = "0"


# ---------------------------------------------------------------- tap

class Tap:
    """Rebinds rebase.generate_simple_plan (cmd_rebase imports it from the module at call time)."""

    def __init__(self):
        self.calls = []

    def __enter__(self):
        import breezy.plugins.rewrite.rebase as R

        self.R = R
        self.orig = R.generate_simple_plan

        def tapped(todo_set, start_revid, stop_revid, onto_revid, graph, generate_revid, skip_full_merged=False):
            rec = {"todo": set(todo_set), "start": start_revid, "stop": stop_revid, "onto": onto_revid, "skip": skip_full_merged, "plan": None, "raised": None}
            self.calls.append(rec)
            try:
                r = self.orig(todo_set, start_revid, stop_revid, onto_revid, graph, generate_revid, skip_full_merged)
            except BaseException as e:
                rec["raised"] = e
                raise
            rec["plan"] = r
            return r

        R.generate_simple_plan = tapped
        return self

    def __exit__(self, *exc):
        self.R.generate_simple_plan = self.orig
        return False


def run_rebase(directory, upstream, onto=None, revision=None, dry_run=True, always=False):
    """The real command.  Returns (outcome, exception)."""
    from breezy import errors
    from breezy.plugins.rewrite.commands import cmd_rebase
    from breezy.revisionspec import RevisionSpec

    c = cmd_rebase()
    c.outf = _Out()
    rev = None
    if revision is not None:
        rev = [RevisionSpec.from_string("revid:" + r.decode()) if r is not None else None for r in revision]
    try:
        c.run(upstream_location=upstream, onto=("revid:" + onto.decode()) if onto is not None else None, revision=rev, dry_run=dry_run,
              always_rebase_merges=always, directory=directory)
        return "ok", None
    except errors.UnrelatedBranches as e:
        return "UnrelatedBranches", e
    except errors.CommandError as e:
        return "CommandError", e
    except errors.UncommittedChanges as e:
        return "UncommittedChanges", e
    except AssertionError as e:
        return "AssertionError", e
    except Exception as e:
        # integrity complaints of the pre-built dirstate (bzrformats: DirstateCorrupt, "mismatching tree_index, file_id and path") while the command
        # inspects the working tree are another property's subject (seen once in 1440 thorough cases, not reproducible); never a plan verdict
        if type(e).__module__.startswith("bzrformats"):
            return "dirstate-error", e
        raise


# ---------------------------------------------------------------- plan oracle

def judge_plan(ctx, pm, rec, detail):
    """The captured generate_simple_plan call against plain-set graph algebra."""
    todo, start, stop, onto, skip, plan = rec["todo"], rec["start"], rec["stop"], rec["onto"], rec["skip"], rec["plan"]
    anc_onto = H.ancestry(pm, [onto])
    anc_stop = H.ancestry(pm, [stop])
    our_new = anc_stop - anc_onto
    ctx.count("todo_set")
    if todo != our_new:
        ctx.fail("todo-set:not-ancestry-difference", "cmd_rebase's todo set has %d revisions, ancestry(stop)-ancestry(onto) has %d: extra %r missing %r"
                 % (len(todo), len(our_new), sorted(todo - our_new)[:4], sorted(our_new - todo)[:4]), detail)
        return
    keys = list(plan)
    kset = set(keys)
    merges = {r for r in our_new if len(pm.get(r, ())) > 1}
    ghosts = {r for r in our_new if r not in pm}
    ctx.count("plan_rules")
    # -- which revisions are planned
    if not kset <= our_new:
        ctx.fail("plan:keys:outside-branch", "planned revisions %r are not in ancestry(stop)-ancestry(onto)" % sorted(kset - our_new)[:4], detail)
    if start is None:
        window = set(our_new)
    else:
        desc_start = {r for r in our_new if start in H.ancestry(pm, [r])}
        window = desc_start  # start, stop and everything between them by ancestry
        strict_anc = (H.ancestry(pm, [start]) - {start}) & our_new
        bad = kset & strict_anc
        if bad:
            ctx.fail("plan:window:ancestor-of-start-planned", "revisions %r are strict ancestors of the start revision but planned" % sorted(bad)[:4], detail)
    missing = (window - kset) - ghosts
    if skip:
        notmerge = missing - merges
        if notmerge:
            ctx.fail("plan:keys:revision-left-out", "revisions %r of the branch are not in the plan and are not merges" % sorted(notmerge)[:4], detail)
    elif missing:
        ctx.fail("plan:keys:revision-left-out" + (":window" if start is not None else ""), "revisions %r of the branch are not in the plan" % sorted(missing)[:4], detail)
    skipped = ((our_new - kset - ghosts) & window) if skip else set()  # left-out merges inside the window (outside it, references are preserved by design)
    # -- ordering / parent replacement
    seen_new = set()
    new_of = {}
    for old in keys:
        new, parents = plan[old]
        d = dict(detail, revision=old.decode("utf-8", "replace"), new_parents=[p.decode("utf-8", "replace") for p in parents],
                 old_parents=[p.decode("utf-8", "replace") for p in pm.get(old, ())])
        if not isinstance(parents, tuple) or not parents:
            ctx.fail("plan:parents:not-a-nonempty-tuple", "%r -> %r" % (old, parents), d)
            continue
        if new == old or new in pm or new in seen_new:
            ctx.fail("plan:new-id-not-fresh", "new id %r for %r equals an existing / earlier id" % (new, old), d)
        for p in parents:
            if p == onto or p in seen_new:
                continue
            if p in kset:
                later = p not in new_of
                ctx.fail("plan:parent-is-rewritten-revision-old-id" + (":planned-later" if later else ""),
                         "%r is replayed with parent %r, which the plan rewrites%s" % (old, p, " later in the order" if later else " (its new id was not used)"), d)
            elif p in skipped:
                ctx.fail("simple-plan:child-of-skipped-merge-keeps-old-merge-as-parent",
                         "%r is replayed with parent %r: a merge revision of the branch that the plan leaves out; the rewritten history still hangs off the old one" % (old, p), d)
            elif p in anc_onto or p not in pm:
                continue  # an ancestor of the new base / a ghost
            elif start is not None and p in our_new:
                continue  # outside the window: references are preserved
            else:
                ctx.fail("plan:parent-unexplained", "%r is replayed with parent %r which is neither the new base, its ancestor, nor a rewritten revision" % (old, p), d)
        if not (set(parents) & (seen_new | {onto})):
            ctx.fail("plan:not-on-new-base", "%r is replayed with parents %r: none is the new base or an earlier rewritten revision" % (old, parents), d)
        ops = pm.get(old, ())
        if ops and ops[0] in kset:
            lp_new = plan[ops[0]][0]
            if ops[0] in new_of and lp_new not in parents:
                ctx.fail("plan:rewritten-left-parent-dropped", "%r's left parent %r is rewritten as %r, which is not among the new parents %r" % (old, ops[0], lp_new, parents), d)
        seen_new.add(new)
        new_of[old] = new
    return our_new


def _clean(wt):
    if wt.basis_tree().changes_from(wt).has_changed() or wt.get_parent_ids()[1:] or len(wt.conflicts()):
        wt.revert()
        wt.set_parent_ids(wt.get_parent_ids()[:1])
        gen.resolve_all(wt)


def plan_case(ctx):
    from breezy import errors
    from breezy.branch import Branch
    from breezy.plugins.rewrite import rebase as R
    from breezy.workingtree import WorkingTree

    rng = ctx.rng
    try:
        h = gen.build_history(ctx, rng, "2a", nrevs=rng.randint(4, 8), nbranches=3, names=gen.Names(ctx.tier), weights=H.NO_MISSING,
                              ghosts=rng.random() < 0.25, merges=True, tags=False)
        H.extend(ctx, rng, h, rounds=rng.randint(1, 3), names=gen.Names(ctx.tier))
        if rng.random() < 0.3:
            # an unrelated branch (own origin)
            up = os.path.join(h.root, "unrelated")
            uwt = gen.make_tree(up, "2a")
            gen.random_delta(rng, uwt, gen.Names(ctx.tier), 3, H.NO_MISSING, h.log)
            uwt.commit("unrelated origin", rev_id=b"unrelated-1")
            h.trees["unrelated"] = up
        for n in h.trees:
            _clean(h.wt(n))
    except AttributeError as e:
        if "PointlessCommit" not in str(e):  # vf.gen.build_history names breezy.errors.PointlessCommit (lives in breezy.commit)
            raise
        ctx.discard("workload:gen-pointless-commit")
    except Exception as e:  # history construction is not the operation under test (see C16: DirstateCorrupt from the pre-built dirstate on some trees)
        ctx.discard("workload:%s" % type(e).__name__)
    ninv = rng.randint(10, 14) if ctx.tier == "quick" else rng.randint(14, 24)
    names = sorted(h.trees)
    last_plan = None
    pm = H.hist_parent_map(h)  # union over all repositories: fetches between them do not change it
    for i in range(ninv):
        x = rng.choice([n for n in names if n != "unrelated"])
        u = rng.choice([n for n in names if n != x])
        xtip = Branch.open(h.trees[x]).last_revision()
        utip = Branch.open(h.trees[u]).last_revision()
        lh = H.lefthand(pm, xtip)
        anc_u = sorted(H.ancestry(pm, [utip]) & set(pm))
        # --onto: default (upstream tip) or some revision of the upstream's ancestry
        onto = None
        if rng.random() < 0.45 and anc_u:
            onto = rng.choice(anc_u)
        eff_onto = onto or utip
        always = rng.random() < 0.5
        revision = None
        stop = xtip
        r = rng.random()
        our_new0 = H.ancestry(pm, [xtip]) - H.ancestry(pm, [eff_onto])
        if r < 0.2 and len(lh) > 1:
            stop = rng.choice(lh)
            revision = [stop]
        elif r < 0.45 and our_new0:
            stop = rng.choice(lh[:max(1, len(lh) // 2)]) if rng.random() < 0.4 else xtip
            cands = sorted((H.ancestry(pm, [stop]) - H.ancestry(pm, [eff_onto])) & set(pm))
            if cands:
                start = rng.choice(cands)
                revision = [start, stop]
            else:
                stop = xtip
        ctx.info = {"rebase": x, "upstream": u, "onto": (onto or b"").decode(), "revision": [(r_ or b"").decode() for r_ in (revision or [])], "always": always,
                    "log": h.log[-30:]}
        with Tap() as tap:
            out, exc = run_rebase(h.trees[x], h.trees[u], onto=onto, revision=revision, dry_run=True, always=always)
        detail = {"branch": x, "upstream": u, "onto": eff_onto.decode(), "stop": stop.decode(), "start": (revision[0].decode() if revision and len(revision) == 2 else None),
                  "always_rebase_merges": always, "outcome": out}
        anc_onto = H.ancestry(pm, [eff_onto])
        anc_stop = H.ancestry(pm, [stop])
        our_new = anc_stop - anc_onto
        onto_unique = anc_onto - anc_stop
        related = bool((anc_onto & anc_stop))
        rel = "unrelated" if not related else ("onto-is-ancestor" if not onto_unique else ("branch-is-ancestor" if not our_new else "diverged"))
        ctx.hist("dry-run:%s:%s" % (rel, out))
        has_start = bool(revision and len(revision) == 2)
        # the branch is untouched by a dry run
        ctx.check(Branch.open(h.trees[x]).last_revision() == xtip, "dry-run:moved-the-branch", "tip changed during --dry-run", detail)
        if out == "dirstate-error":
            ctx.hist("dry-run:not-judged:%s" % type(exc).__name__)
            continue
        if out == "AssertionError":
            # generate_simple_plan asserts start/stop are in the todo set: input outside the property's class unless the oracle says they are in it
            inside = (revision and all(r_ in our_new for r_ in revision))
            ctx.check(not inside, "dry-run:assertion-on-valid-window", "AssertionError %s although start/stop are revisions of the branch" % exc, detail)
            ctx.note(("refused", rel, "assert"), nontrivial=False)
            continue
        if not has_start and (not onto_unique or not our_new):
            # nothing to rebase / pull instead: no plan may be generated
            ctx.check(not tap.calls, "dry-run:plan-for-nothing", "a plan was generated although %s" % rel, detail)
            ctx.check(out == "ok", "dry-run:noop-raised", "no-op rebase raised %s" % out, detail)
            ctx.note(("noop", rel), nontrivial=True)
            continue
        if not tap.calls:
            ctx.fail("dry-run:no-plan", "relation %s, outcome %s, but generate_simple_plan was not called" % (rel, out), detail)
            continue
        rec = tap.calls[0]
        ctx.check(rec["onto"] == eff_onto and rec["stop"] == stop and rec["skip"] == (not always), "dry-run:arguments",
                  "generate_simple_plan called with onto=%r stop=%r skip=%r" % (rec["onto"], rec["stop"], rec["skip"]), detail)
        if rel == "unrelated" and not has_start:
            ctx.count("unrelated")
            ctx.check(out == "UnrelatedBranches", "plan:unrelated-not-refused", "branches share no revision, outcome %s" % out, detail)
            ctx.note(("unrelated", always), nontrivial=True)
            continue
        if out != "ok" or rec["plan"] is None:
            ctx.fail("dry-run:raised:%s" % out, "rebase --dry-run raised %r" % (exc,), detail)
            continue
        plan = rec["plan"]
        judge_plan(ctx, pm, rec, detail)
        # -- marshal round trip of the real plan, with the real header
        info = Branch.open(h.trees[x]).last_revision_info()
        _marshal(ctx, info, plan, detail, "real")
        if plan:
            last_plan = (x, plan)
        nm = sum(1 for k in plan if len(pm.get(k, ())) > 1)
        ctx.note(("plan", rel, "window" if has_start else ("stop" if revision else "tip"), always, min(len(plan), 6), min(nm, 3), len(our_new) - len(plan) > 0),
                 nontrivial=len(plan) >= 2,
                 sample={"branch_revisions": len(our_new), "planned": len(plan), "merges_in_plan": nm, "relation": rel, "always_rebase_merges": always,
                         "window": bool(has_start)} if nm and len(plan) > 3 else None)
    # -- RebaseState1 on the real tree, with a real and a unicode plan
    if last_plan:
        _state(ctx, rng, h.trees[last_plan[0]], last_plan[1])
    _state(ctx, rng, h.trees[names[0]], _synthetic_plan(rng)[1])
    for _ in range(40):
        info, plan = _synthetic_plan(rng)
        _marshal(ctx, info, plan, {}, "synthetic")
    _transpose(ctx, rng, h)


# ---------------------------------------------------------------- marshal / state

_ALPH = "abcXYZ019-_.:@+=/\u00e9\u65e5\u672c\u00df\u00d8\u20ac\U0001d11e\u00a0\u2028\u0085"


def _revid(rng):
    return "".join(rng.choice(_ALPH) for _ in range(rng.randint(1, 24))).encode("utf-8")


def _synthetic_plan(rng):
    plan = {}
    for _ in range(rng.randint(0, 8)):
        plan[_revid(rng)] = (_revid(rng), tuple(_revid(rng) for _ in range(rng.choice([1, 1, 1, 2, 2, 3, 4, 5]))))
    return (rng.randint(0, 10 ** rng.randint(0, 9)), _revid(rng)), plan


def _marshal(ctx, info, plan, detail, kind):
    from breezy.plugins.rewrite.rebase import marshall_rebase_plan, unmarshall_rebase_plan

    ctx.count("marshal_roundtrip")
    text = marshall_rebase_plan(info, plan)
    back = unmarshall_rebase_plan(text)
    if back != (info, plan):
        d = dict(detail, kind=kind, text=text.decode("utf-8", "replace")[:600])
        if back[0] != info:
            ctx.fail("marshal:header", "last-revision header %r came back as %r" % (info, back[0]), d)
        elif set(back[1]) != set(plan):
            ctx.fail("marshal:keys", "plan keys differ after round trip", d)
        else:
            bad = [k for k in plan if plan[k] != back[1][k]]
            nparents = max(len(plan[k][1]) for k in bad)
            ctx.fail("marshal:entry" + (":more-than-two-parents" if nparents > 2 else ""), "entry %r came back as %r" % (plan[bad[0]], back[1][bad[0]]), d)
    ctx.hist("marshal:%s:maxparents=%d" % (kind, max([len(v[1]) for v in plan.values()] or [0])))


def _state(ctx, rng, path, plan):
    from breezy.plugins.rewrite.rebase import RebaseState1
    from breezy.workingtree import WorkingTree
    from dromedary.errors import NoSuchFile

    ctx.count("state_roundtrip")
    wt = WorkingTree.open(path)
    with wt.lock_write():
        st = RebaseState1(wt)
        ctx.check(not st.has_plan(), "state:plan-before-write", "has_plan() true on a fresh tree", None)
        try:
            st.read_plan()
            ctx.fail("state:read-without-plan", "read_plan() on a tree without a plan did not raise", None)
        except NoSuchFile:
            pass
        st.write_plan(plan)
        info = wt.branch.last_revision_info()
    wt = WorkingTree.open(path)  # from disk
    with wt.lock_write():
        st = RebaseState1(wt)
        if plan:
            ctx.check(st.has_plan(), "state:plan-lost", "has_plan() false after write_plan", None)
        got = st.read_plan()
        ctx.check(got == (info, plan), "state:plan-differs", "read_plan() returned %r / %d entries, wrote %r / %d entries" % (got[0], len(got[1]), info, len(plan)), None)
        rid = _revid(rng)
        st.write_active_revid(rid)
    wt = WorkingTree.open(path)
    with wt.lock_write():
        st = RebaseState1(wt)
        ctx.check(st.read_active_revid() == rid, "state:active-revid", "active revid %r read back as %r" % (rid, st.read_active_revid()), None)
        st.write_active_revid(None)
        ctx.check(st.read_active_revid() is None, "state:active-revid-none", "active revid None read back as %r" % (st.read_active_revid(),), None)
        st.remove_plan()
    wt = WorkingTree.open(path)
    with wt.lock_read():
        st = RebaseState1(wt)
        ctx.check(not st.has_plan(), "state:plan-after-remove", "has_plan() true after remove_plan", None)
        try:
            st.read_plan()
            ctx.fail("state:read-after-remove", "read_plan() after remove_plan did not raise", None)
        except NoSuchFile:
            pass


# ---------------------------------------------------------------- transpose plan

def _transpose(ctx, rng, h):
    from breezy.branch import Branch
    from breezy.plugins.rewrite.rebase import generate_transpose_plan
    from vcsgraph.graph import DictParentsProvider, Graph

    pm = {r: ps for r, ps in H.hist_parent_map(h).items()}
    revs = sorted(pm)
    if len(revs) < 3:
        return
    for _ in range(4):
        # rename 1-2 revisions to fresh ids that have (possibly different) existing parents
        renames = {}
        full = dict(pm)
        for r in rng.sample(revs, rng.choice([1, 1, 2])):
            v = r + b"-upgraded"
            nonanc = [q for q in revs if r not in H.ancestry(pm, [q])]  # not a descendant of r (no cycles)
            full[v] = pm[r] if rng.random() < 0.6 or not nonanc else (rng.choice(nonanc),)
            renames[r] = v
        graph = Graph(DictParentsProvider({k: (v if v else (b"null:",)) for k, v in full.items()}))
        ancestry = [(r, pm[r] if pm[r] else ()) for r in revs]
        # ghosts referenced as parents
        for ps in pm.values():
            for p in ps:
                if p not in pm:
                    ancestry.append((p, None))
        rng.shuffle(ancestry)
        plan = generate_transpose_plan(ancestry, dict(renames), graph, lambda old, ps: old + b"-x")
        ctx.count("transpose_plan")
        detail = {"renames": {k.decode(): v.decode() for k, v in renames.items()}}
        desc = {c for c in revs if any(r in H.ancestry(pm, [c]) and c != r for r in renames)} - set(renames)
        if set(plan) != desc:
            ctx.fail("transpose:keys", "plan rewrites %r, the descendants of the renamed revisions are %r" % (sorted(set(plan) ^ desc)[:5], len(desc)), detail)
            continue

        def subst(p):
            return renames.get(p) or (plan[p][0] if p in plan else p)

        for c, (new, parents) in plan.items():
            exp = tuple(subst(p) for p in pm[c])
            if len(set(exp)) != len(exp):
                ctx.hist("transpose:duplicate-parent-after-substitution")
                continue
            if new != c + b"-x":
                ctx.fail("transpose:new-id", "%r -> %r" % (c, new), detail)
            if parents != exp:
                ctx.fail("transpose:parents", "%r: new parents %r, substitution of %r gives %r" % (c, parents, pm[c], exp), detail)
        ctx.hist("transpose:plan-size=%d" % min(len(plan), 8))


# ---------------------------------------------------------------- replay half

def _side_op(rng, wt, ns, n):
    """One change inside directory ns/ (own files only)."""
    base = os.path.join(wt.basedir, ns)
    files = sorted(f for f in os.listdir(base) if os.path.isfile(os.path.join(base, f)))
    r = rng.random()
    if r < 0.35 or not files:
        name = "%s%d" % (ns[0], n)
        with open(os.path.join(base, name), "wb") as f:
            f.write(b"%s new %d\nline\n" % (ns.encode(), n))
        wt.add([ns + "/" + name])
    elif r < 0.7:
        f_ = rng.choice(files)
        with open(os.path.join(base, f_), "ab") as f:
            f.write(b"%s edit %d\n" % (ns.encode(), n))
    elif r < 0.85:
        f_ = rng.choice(files)
        wt.rename_one(ns + "/" + f_, ns + "/" + "%s%dr" % (ns[0], n))
    elif len(files) > 1:
        wt.remove([ns + "/" + rng.choice(files)], keep_files=False, force=True)
    else:
        os.chmod(os.path.join(base, files[0]), 0o755)


def _side(snap, ns):
    return {p: v[:3] for p, v in snap.items() if p == ns or p.startswith(ns + "/")}


def replay_case(ctx):
    import shutil

    from breezy import errors
    from breezy.branch import Branch
    from breezy.plugins.rewrite.commands import cmd_rebase_abort
    from breezy.plugins.rewrite.rebase import RebaseState1
    from breezy.workingtree import WorkingTree

    rng = ctx.rng
    root = os.path.join(ctx.tmp("c51r"), "w")
    os.makedirs(root)
    n = [0]

    def commit(wt, who, ns, nops=None):
        for _ in range(nops or rng.randint(1, 3)):
            n[0] += 1
            _side_op(rng, wt, ns, n[0])
        n[0] += 1
        return wt.commit(rng.choice(["%s %d", "%s multi\nline %d", "%s unicodé %d"]) % (who, n[0]), rev_id=b"%s-%d" % (who.encode(), n[0]),
                         timestamp=1600000000 + n[0] * 100, timezone=rng.choice([0, 3600, -18000]), committer=rng.choice(["Joe <joe@example.com>", "Jürgen <j@example.org>"]))

    try:
        trunk, feat, shape, dirty = _build_replay_world(rng, root, commit, n)
    except Exception as e:
        ctx.discard("workload:%s" % type(e).__name__)
    _replay_and_judge(ctx, rng, root, shape, dirty)


def _build_replay_world(rng, root, commit, n):
    from breezy.branch import Branch

    trunk = gen.make_tree(os.path.join(root, "trunk"), "2a")
    for ns in ("tdir", "fdir"):
        os.mkdir(os.path.join(trunk.basedir, ns))
        with open(os.path.join(trunk.basedir, ns, ns[0] + "0"), "wb") as f:
            f.write(b"base\n")
    trunk.add(["tdir", "fdir", "tdir/t0", "fdir/f0"])
    trunk.commit("origin", rev_id=b"origin")
    for _ in range(rng.randint(0, 2)):
        commit(trunk, "trunk", "tdir")
    feat = trunk.branch.controldir.sprout(os.path.join(root, "feat")).open_workingtree()
    shape = []
    merged = False
    dirty = set()  # merge revisions that carry changes of their own
    for i in range(rng.randint(2, 5)):
        r = rng.random()
        if r < 0.3:
            commit(trunk, "trunk", "tdir")
            shape.append("t")
        if r < 0.25 or (r > 0.85 and not merged):
            # the feature merges the trunk (no conflicts: disjoint files)
            if Branch.open(trunk.basedir).last_revision() not in H.ancestry(H.parent_map_of(feat.branch.repository), [feat.last_revision()]):
                with feat.lock_write():
                    feat.merge_from_branch(trunk.branch)
                own = rng.random() < 0.3
                if own:
                    n[0] += 1
                    _side_op(rng, feat, "fdir", n[0])
                n[0] += 1
                feat.commit("merge trunk %d" % n[0], rev_id=b"feat-merge-%d" % n[0], timestamp=1600000000 + n[0] * 100, timezone=0)
                if own:
                    dirty.add(b"feat-merge-%d" % n[0])
                merged = True
                shape.append("M")
                continue
        commit(feat, "feat", "fdir")
        shape.append("f")
    for _ in range(rng.randint(1, 2)):
        commit(trunk, "trunk", "tdir")
    return trunk, feat, shape, dirty


def _replay_and_judge(ctx, rng, root, shape, dirty):
    import shutil

    from breezy.branch import Branch
    from breezy.plugins.rewrite.commands import cmd_rebase_abort
    from breezy.plugins.rewrite.rebase import RebaseState1
    from breezy.workingtree import WorkingTree

    ctx.info = {"shape": "".join(shape)}
    for always in (True, False):
        r2 = os.path.join(ctx.tmp("c51v"), "w")
        shutil.copytree(root, r2, symlinks=True)
        fpath, tpath = os.path.join(r2, "feat"), os.path.join(r2, "trunk")
        fb = Branch.open(fpath)
        old_info = fb.last_revision_info()
        onto = Branch.open(tpath).last_revision()
        with Tap() as tap:
            out, exc = run_rebase(fpath, tpath, dry_run=False, always=always)
        detail = {"shape": "".join(shape), "always_rebase_merges": always, "outcome": out, "error": str(exc)[:200] if exc else None}
        ctx.hist("replay:%s:%s" % ("always" if always else "skip-merges", out))
        if out == "dirstate-error":
            ctx.hist("replay:not-judged:%s" % type(exc).__name__)
            continue
        if not tap.calls or tap.calls[0]["plan"] is None:
            ctx.fail("replay:no-plan", "the rebase generated no plan (%s)" % out, detail)
            continue
        plan = tap.calls[0]["plan"]
        fb = Branch.open(fpath)
        repo = fb.repository
        pm = H.parent_map_of(repo)
        our_new = judge_plan(ctx, {k: v for k, v in pm.items() if not (k in {x[0] for x in plan.values()})}, tap.calls[0], detail)
        defect = any(p in (set(our_new or ()) - set(plan)) for v in plan.values() for p in v[1])
        has_merge = any(len(pm.get(k, ())) > 1 for k in plan)
        if out != "ok":
            # a replay of disjoint changes cannot conflict - unless the plan was wrong in the first place (already reported by judge_plan), or a merge
            # revision is replayed (the replayer's choice of merge base for those is a documented FIXME and not part of the plan property)
            left_out = set(plan) != set(our_new or ())  # skip mode dropped a merge revision together with whatever it changed itself
            ctx.hist("replay:stopped:%s" % ("plan-defect" if defect else "merge-in-plan" if has_merge else "merge-left-out" if left_out else "linear"))
            if not defect and not has_merge and not left_out:
                ctx.fail("replay:conflict-on-disjoint-changes", "replaying disjoint changes failed: %s" % exc, detail)
            # the saved plan must still bring us back
            wt = WorkingTree.open(fpath)
            st = RebaseState1(wt)
            with wt.lock_read():
                ctx.check(st.has_plan(), "replay:interrupted-without-plan", "rebase stopped but no plan is stored", detail)
                ctx.check(st.read_plan() == (old_info, plan), "replay:stored-plan-differs", "stored plan/header differ from the executed plan", detail)
            c = cmd_rebase_abort()
            c.outf = _Out()
            c.run(directory=fpath)
            ctx.count("abort")
            ctx.check(Branch.open(fpath).last_revision_info() == old_info, "replay:abort-did-not-restore-tip",
                      "after rebase-abort tip %r, before the rebase %r" % (Branch.open(fpath).last_revision_info(), old_info), detail)
            ctx.note(("replay-abort", "".join(shape), always), nontrivial=True)
            continue
        if defect:
            # the plan itself is wrong (reported by judge_plan under its own key): what its replay produces is not judged
            ctx.hist("replay:not-compared:plan-defect")
            ctx.note(("replay-defect", "".join(shape), always), nontrivial=True)
            continue
        with repo.lock_read():
            onto_snap = observe.snap_tree(repo.revision_tree(onto), ids=False)
            stop = tap.calls[0]["stop"]
            ctx.check(fb.last_revision() == plan[stop][0] if stop in plan else True, "replay:tip", "branch tip %r, planned new id of the old tip %r"
                      % (fb.last_revision(), plan.get(stop, (None,))[0]), detail)
            for old, (new, parents) in plan.items():
                ctx.count("replay_revisions")
                d = dict(detail, old=old.decode(), new=new.decode())
                if not repo.has_revision(new):
                    ctx.fail("replay:planned-revision-missing", "planned revision for %r does not exist after the rebase" % old, d)
                    continue
                o, nw = repo.get_revision(old), repo.get_revision(new)
                ctx.check(tuple(nw.parent_ids) == tuple(parents), "replay:parents-differ-from-plan", "%r has parents %r, plan says %r" % (new, nw.parent_ids, parents), d)
                ctx.check(nw.message == o.message, "replay:message", "message %r became %r" % (o.message, nw.message), d)
                ctx.check((nw.timestamp, nw.timezone) == (o.timestamp, o.timezone), "replay:timestamp", "timestamp/zone %r became %r" % ((o.timestamp, o.timezone), (nw.timestamp, nw.timezone)), d)
                ctx.check(nw.properties.get("rebase-of") == old.decode(), "replay:rebase-of", "rebase-of is %r" % nw.properties.get("rebase-of"), d)
                ctx.check(o.committer in nw.get_apparent_authors() or o.committer == nw.committer, "replay:author-lost", "original committer %r not an author of the copy" % o.committer, d)
                if set(plan) != set(our_new or ()) or (dirty & set(our_new or ())):
                    # a merge revision was left out (skip mode: whatever it changed itself is dropped by design) or a merge that carries changes of its
                    # own is replayed (merge base choice is a documented FIXME of the replayer): contents are not comparable
                    continue
                ctx.count("replay_contents")
                osnap = observe.snap_tree(repo.revision_tree(old), ids=False)
                nsnap = observe.snap_tree(repo.revision_tree(new), ids=False)
                if _side(osnap, "fdir") != _side(nsnap, "fdir"):
                    a, b = _side(osnap, "fdir"), _side(nsnap, "fdir")
                    ctx.fail("replay:feature-files-differ", "the branch's own files differ between %r and its copy: %r" % (old, sorted(p for p in set(a) | set(b) if a.get(p) != b.get(p))[:5]), d)
                if _side(nsnap, "tdir") != _side(onto_snap, "tdir"):
                    a, b = _side(onto_snap, "tdir"), _side(nsnap, "tdir")
                    ctx.fail("replay:base-files-differ", "the new base's files are not those of the new base in the copy of %r: %r" % (old, sorted(p for p in set(a) | set(b) if a.get(p) != b.get(p))[:5]), d)
        wt = WorkingTree.open(fpath)
        ctx.check(not RebaseState1(wt).has_plan(), "replay:plan-left-behind", "plan still stored after a completed rebase", detail)
        ctx.check(wt.get_parent_ids() == [fb.last_revision()], "replay:tree-parents", "tree parents %r after rebase, tip %r" % (wt.get_parent_ids(), fb.last_revision()), detail)
        with wt.lock_read():
            ctx.check(not wt.changes_from(wt.basis_tree()).has_changed(), "replay:tree-dirty", "working tree differs from the rebased tip", detail)
        ctx.note(("replay", "".join(shape), always, len(plan)), nontrivial=len(plan) >= 2,
                 sample={"shape": "".join(shape), "always_rebase_merges": always, "planned": len(plan), "outcome": out})
        shutil.rmtree(os.path.dirname(r2), ignore_errors=True)


def case(ctx):
    if ctx.index % 3 == 2:
        replay_case(ctx)
    else:
        plan_case(ctx)
