"""C01 - a commit records exactly the selected working-tree state; a raising commit changes nothing.

Clean half: generated history prefix + pending delta + path selection (specific_files / exclude),
real WorkingTree.commit; by-file-id oracle against snapshots taken before the commit.
Fault half: the same commit repeated on fresh copies with one fault injected per run - an exception
at the k-th Python function entry of the commit pipeline (sys.monitoring) or a TransportError at the
k-th mutating transport operation (vf+ decorator); judged with fresh objects.
"""
import os
import shutil

from vf import gen, instr, observe

ID = "C01"
LEVEL = "exploration"
TECHNIQUE = "snapshot oracle (by file id) on real commits of generated tree states and selections; failpoint sweep (sys.monitoring PY_START + transport errors) judged on fresh objects"
LEVEL_TEXT = ("generated working-tree states (add/remove/rename/kind change/chmod/symlink/missing files, optional pending merge) x selections (none / specific files / excludes / both): "
              "new revision tree == basis with the working tree substituted for exactly the selected ids, status afterwards empty for selected and unchanged for unselected paths; "
              "for sampled fault positions of the same commit: a raising commit leaves tip and revision set unchanged, a commit that survives the fault is the correct commit")
RULE = ("case = (prefix history, delta ops, selection); non-trivial = >= 2 changed ids and a real commit or documented refusal; distinct = (op kinds, selection kind, outcome); "
        "fault runs: one per sampled position (PY_START entry index or transport op index)")
CASES = {"quick": 160, "thorough": 2400}
BUDGET_S = {"quick": 50, "thorough": 800}
MIN_EVALS = {"quick": 60, "thorough": 600}
FLOORS = {"commit_ok": 25, "oracle_selected": 25, "fault_runs": 60, "fault_raised_unchanged": 15, "veto_runs": 5}
ASSUMPTIONS = ["selection semantics: S = ids whose working or basis path lies inside a selected path and outside every excluded one; directories on the working-tree parent chain of S may take either state (the statement is silent on how parents are filled in); so may an unselected id that occupies or vacated a path of a selected id (old or new location of a selected rename)",
               "fault model: one Python exception at a function entry inside the commit pipeline modules, or one TransportError instead of a mutating transport operation; no double faults"]

PIPELINE = ("/breezy/commit.py", "/breezy/bzr/vf_repository.py", "/breezy/bzr/pack_repo.py", "/breezy/bzr/groupcompress_repo.py", "/breezy/bzr/knitpack_repo.py",
            "/breezy/bzr/workingtree_4.py", "/breezy/bzr/workingtree.py", "/breezy/bzr/inventorytree.py", "/breezy/mutabletree.py", "/breezy/bzr/branch.py", "/breezy/branch.py",
            "/breezy/repository.py", "/breezy/bzr/repository.py")


def _match(fn):
    return fn.endswith(PIPELINE)


def _fmt(name):
    from breezy.controldir import format_registry

    return format_registry.make_controldir(name)


def _view(tree, working):
    """id -> (parent_id, name, kind, content, exec); kind from disk for working trees; missing => kind None."""
    out = {}
    with tree.lock_read():
        root_id = tree.path2id("")
        for path, ie in tree.iter_entries_by_dir():
            if path == "":
                continue
            kind = ie.kind
            if working:
                try:
                    kind = tree.kind(path)
                except Exception as e:
                    if type(e).__name__ not in ("NoSuchFile", "FileNotFoundError"):
                        raise
                    kind = None
            content, ex = None, False
            if kind == "file":
                content = tree.get_file_text(path)
                ex = bool(tree.is_executable(path))
            elif kind == "symlink":
                content = tree.get_symlink_target(path)
            out[ie.file_id] = (ie.parent_id if ie.parent_id != root_id else b"ROOT", ie.name, kind, content, ex, path)
    return out


def _inside(d, p):
    return d == "" or p == d or p.startswith(d + "/")


def _changes(wt):
    out = {}
    with wt.lock_read():
        bt = wt.basis_tree()
        with bt.lock_read():
            for c in wt.iter_changes(bt):
                if c.path[0] == "" or c.path[1] == "":
                    continue  # the tree root (first commit) - always goes along
                # identified by id and parent id, not by path: a committed rename of an ancestor directory
                # legitimately changes the old *path* of a still pending change below it
                out[c.file_id] = (c.parent_id, c.changed_content, c.versioned, c.name, c.kind, c.executable)
    return out


def _copy_env(src, dst, world):
    """Copy root/{r,co}; re-point the lightweight checkout at the copied branch (through vf+ when world is given)."""
    from breezy.branch import Branch
    from breezy.bzr.branch import BranchReferenceFormat
    from breezy.controldir import ControlDir

    shutil.copytree(os.path.join(src, "r"), os.path.join(dst, "r"), symlinks=True)
    shutil.copytree(os.path.join(src, "co"), os.path.join(dst, "co"), symlinks=True)
    cod = ControlDir.open(os.path.join(dst, "co"))
    target = world.url(os.path.join(dst, "r")) if world is not None else os.path.join(dst, "r")
    BranchReferenceFormat().set_reference(cod, None, Branch.open(target))


def _state(root):
    """What fresh, uninstrumented objects see: tip, revision set."""
    from breezy.branch import Branch

    b = Branch.open(os.path.join(root, "r"))
    with b.lock_read():
        return b.last_revision_info(), frozenset(b.repository.all_revision_ids())


def _prepare(ctx, fmt):
    """root/r (branch+repo), root/co (lightweight checkout) with a history prefix and a pending delta."""
    from breezy.controldir import ControlDir

    rng = ctx.rng
    names = gen.Names(ctx.tier)
    root = ctx.tmp("c01")
    cd = ControlDir.create(os.path.join(root, "r"), format=_fmt(fmt))
    cd.create_repository()
    br = cd.create_branch()
    co = br.create_checkout(os.path.join(root, "co"), lightweight=True)
    log = []
    for i in range(rng.choice([0, 1, 1, 2, 3])):
        gen.random_delta(rng, co, names, rng.randint(2, 6), log=log)
        if rng.random() < 0.7:
            co.smart_add([co.basedir])  # version everything so trees (and selections) are not tiny
        try:
            co.commit("prefix %d" % i, rev_id=b"prefix-%d" % i)
        except Exception as e:
            if type(e).__name__ != "PointlessCommit":
                raise
    gen.random_delta(rng, co, names, rng.randint(3, 10), log=log)
    return root, log


def _select(rng, wview, bview):
    paths = sorted({v[5] for v in wview.values()} | {v[5] for v in bview.values()})
    mode = rng.choice(["none", "none", "specific", "specific", "exclude", "both"])
    spec, excl = None, None
    if rng.random() < 0.06:
        # the API's "commit no files": an empty selection is a selection, not the absence of one
        return "empty-specific", [], None
    if mode in ("specific", "both") and paths:
        spec = rng.sample(paths, min(len(paths), rng.randint(1, 3)))
    if mode in ("exclude", "both") and paths:
        excl = rng.sample(paths, min(len(paths), rng.randint(1, 2)))
    if spec is None and excl is None:
        mode = "none"
    return mode, spec, excl


BELOW_REMOVED = set()  # unselected ids whose basis directory this commit had to remove (filled by _oracle)


def _oracle(ctx, repo, new_rev, wview, bview, spec, excl, detail):
    """The by-id oracle of the statement.  Returns (S, P)."""
    def selected(fid):
        ps = [v[fid][5] for v in (wview, bview) if fid in v]
        if excl and any(_inside(e, p) for e in excl for p in ps):
            return False
        if spec is None:
            return True
        return any(_inside(s, p) for s in spec for p in ps)

    ids = set(wview) | set(bview)
    S = {f for f in ids if selected(f)}
    P = set()
    BELOW_REMOVED.clear()
    for f in S:
        if f in wview:
            p = wview[f][0]
            while p != b"ROOT" and p in wview:
                P.add(p)
                p = wview[p][0]
    # breezy (dirstate iter_changes) also looks at the *other* location of every selected id - the path a selected
    # rename vacated or took over; whatever sits there now may go along.  The statement does not say which way
    # that goes, so such ids may take either state.
    def named(fid):
        ps = [v[fid][5] for v in (wview, bview) if fid in v]
        return spec is not None and any(_inside(s_, p_) for s_ in spec for p_ in ps)

    # an unselected entry whose working-tree parent directory vanishes in this commit (missing on disk, committed as
    # deleted) cannot keep its pending state: the statement is silent, either state is accepted
    gone = {f for f, v in wview.items() if v[2] is None}
    for f in ids - S:
        if f in wview:
            p = wview[f][0]
            while p != b"ROOT" and p in wview:
                if p in gone:
                    P.add(f)
                    break
                p = wview[p][0]
    if spec is not None:
        other_paths = set()
        for f in S | {x for x in ids if named(x)}:  # named by the user, even if excluded afterwards
            for v in (wview, bview):
                if f in v:
                    other_paths.add(v[f][5])
        for f in ids - S:
            ps = [v[f][5] for v in (wview, bview) if f in v]
            if any(_inside(o, p) or _inside(p, o) for o in other_paths for p in ps):
                P.add(f)
    P -= S
    nt = repo.revision_tree(new_rev)
    nview = _view(nt, working=False)
    for f in sorted(ids | set(nview)):
        got = nview.get(f)
        g = got[:5] if got else None
        w = wview.get(f)
        w5 = w[:5] if (w and w[2] is not None) else None   # missing on disk => committed as deleted
        b = bview.get(f)
        b5 = b[:5] if b else None
        if f in S:
            ctx.count("oracle_selected")
            # an entry below a directory that is deleted/missing in the same commit goes with it
            if g != w5:
                ctx.fail("selected-id-not-as-working-tree", "id %r: committed %r, working tree %r, basis %r" % (f, g, w5, b5), detail)
        elif f in P:
            ctx.count("oracle_parent")
            if g != w5 and g != b5:
                ctx.fail("parent-dir-neither-working-nor-basis", "id %r: committed %r, working %r, basis %r" % (f, g, w5, b5), detail)
        else:
            ctx.count("oracle_unselected")
            if g is None and b is not None:
                # its basis parent directory was removed by this very commit (judged above under S or P: e.g. the old
                # directory had to give way to a new directory at the same path that a selected entry needs as parent):
                # the entry cannot stay where the basis has it, the statement is silent (thorough seed 0 case 1)
                q, under_removed = b[0], False
                while q != b"ROOT" and q in bview:
                    if q in (S | P) and q not in nview:
                        under_removed = True
                        break
                    q = bview[q][0]
                if under_removed:
                    ctx.count("oracle_unselected_below_removed_directory")
                    BELOW_REMOVED.add(f)
                    continue
            if g != b5:
                ctx.fail("unselected-id-changed", "id %r: committed %r but basis has %r (working %r)" % (f, g, b5, w5), detail)
    return S, P, nview


def _deleted_closure(wview):
    """ids whose own entry or an ancestor directory is missing on disk (they are all committed as deleted)."""
    gone = {f for f, v in wview.items() if v[2] is None}
    changed = True
    while changed:
        changed = False
        for f, v in wview.items():
            if f not in gone and v[0] in gone:
                gone.add(f)
                changed = True
    return gone


def clean_commit(ctx, root, spec, excl, detail):
    """Run the commit on `root` itself; judge it. Returns outcome tag and the new revision's view (for the fault twin)."""
    from breezy import commit as _commit
    from breezy import errors
    from breezy.workingtree import WorkingTree

    wt = WorkingTree.open(os.path.join(root, "co"))
    wview = _view(wt, working=True)
    for f in _deleted_closure(wview):
        v = wview[f]
        wview[f] = (v[0], v[1], None, None, False, v[5])
    bview = _view(wt.basis_tree(), working=False)
    pre = _changes(wt)
    tip0, revs0 = _state(root)
    kw = {}
    if spec is not None:
        kw["specific_files"] = list(spec)
    if excl is not None:
        kw["exclude"] = list(excl)
    try:
        new_rev = wt.commit("under test", rev_id=b"new-rev", **kw)
    except (_commit.PointlessCommit, _commit.CannotCommitSelectedFileMerge, errors.ConflictsInTree, errors.PathsNotVersionedError) as e:
        ctx.hist("refusal:" + type(e).__name__)
        ctx.count("refusals")
        if _state(root) != (tip0, revs0):
            ctx.fail("refusal-changed-state", "%s but tip/revisions changed" % type(e).__name__, detail)
        wt2 = WorkingTree.open(os.path.join(root, "co"))
        if _changes(wt2) != pre:
            ctx.fail("refusal-changed-tree-status", "%s but the pending changes differ afterwards" % type(e).__name__, detail)
        return "refused:" + type(e).__name__, None
    except Exception as e:
        if spec is None and excl is None:
            raise  # a plain commit of everything must not blow up
        # A partial commit whose selection cannot be turned into a consistent tree (e.g. a rename whose old path is
        # excluded and whose new parent is selected) is rejected with an internal error.  The statement only speaks
        # about successful commits and about the state after a raising one: judge the latter.
        ctx.hist("partial-commit-raised:" + type(e).__name__)
        ctx.count("partial_commit_raised")
        if _state(root) != (tip0, revs0):
            ctx.fail("commit-raised:state-changed:no-fault", "%s raised by a partial commit but tip/revisions changed" % type(e).__name__, detail)
        wt2 = WorkingTree.open(os.path.join(root, "co"))
        if _changes(wt2) != pre:
            ctx.fail("commit-raised:tree-status-changed:no-fault", "%s raised by a partial commit and the pending changes differ afterwards" % type(e).__name__, detail)
        return "raised:" + type(e).__name__, None
    ctx.count("commit_ok")
    tip1, revs1 = _state(root)
    ctx.check(tip1 == (tip0[0] + 1, new_rev), "tip-not-new-revision", "tip %r after committing %r on %r" % (tip1, new_rev, tip0), detail)
    ctx.check(revs1 == revs0 | {new_rev}, "revision-set-unexpected", "revisions %r" % (sorted(revs1 ^ (revs0 | {new_rev})),), detail)
    wt = WorkingTree.open(os.path.join(root, "co"))
    repo = wt.branch.repository
    with repo.lock_read():
        S, P, nview = _oracle(ctx, repo, new_rev, wview, bview, spec, excl, detail)
        probs = observe.check_repo(repo)
    ctx.check(not probs, "check-unclean-after-commit", repr(probs), detail)
    ctx.check(wt.get_parent_ids()[:1] == [new_rev], "tree-parent-not-new-revision", "%r" % (wt.get_parent_ids(),), detail)
    post = _changes(wt)
    for f, ch in post.items():
        if f in S:
            ctx.fail("selected-id-still-changed-after-commit", "id %r still reported: %r" % (f, ch), detail)
    for f, ch in pre.items():
        if f not in S and f not in P and f not in BELOW_REMOVED:
            ctx.count("oracle_pending_kept")
            if post.get(f) != ch:
                ctx.fail("unselected-pending-change-lost", "id %r: before %r after %r" % (f, ch, post.get(f)), detail)
    return "committed", {f: v[:5] for f, v in nview.items()}


def fault_sweep(ctx, template, spec, excl, expect_view, detail):
    """Repeat the commit on fresh copies with one fault each."""
    from breezy.workingtree import WorkingTree
    from dromedary import errors as terr

    kw = {}
    if spec is not None:
        kw["specific_files"] = list(spec)
    if excl is not None:
        kw["exclude"] = list(excl)
    tip0, revs0 = _state(template)

    def run(world, fp, fail_py=None):
        d = ctx.tmp("c01f")
        _copy_env(template, d, world)
        raised = None
        with world.active(), world.actor("A"):
            wt = WorkingTree.open(os.path.join(d, "co"))
            pre = _changes(wt)
            with fp.armed(fail_at=fail_py):
                try:
                    wt.commit("under test", rev_id=b"new-rev", **kw)
                except instr.InjectedFault as e:
                    raised = e
                except Exception as e:
                    raised = e
        return d, raised, pre

    # dry run: count positions
    w0 = instr.World(ctx.tmp("c01w"))
    fp = instr.PyFailpoints(_match)
    d, raised, pre = run(w0, fp)
    if raised is not None:
        ctx.discard("dry run of the fault twin raised %r" % (raised,))
    n_py = fp.count
    n_tr = w0.mut_count.get("A", 0)
    ctx.count("dry_py_entries", n_py)
    ctx.count("dry_transport_ops", n_tr)
    rng = ctx.rng
    k_py = 8 if ctx.tier == "quick" else 40
    k_tr = 5 if ctx.tier == "quick" else 25
    py_pos = sorted(rng.sample(range(1, n_py + 1), min(n_py, k_py)))
    tr_pos = sorted(rng.sample(range(1, n_tr + 1), min(n_tr, k_tr)))
    for kind, k in [("py", k) for k in py_pos] + [("tr", k) for k in tr_pos]:
        w = instr.World(ctx.tmp("c01w"))
        fp = instr.PyFailpoints(_match)
        if kind == "tr":
            w.fail_at["A"] = (k, lambda ev: terr.TransportError("injected at %s %s" % (ev.op, ev.path)))
            d, raised, pre = run(w, fp)
            where = next((e.op + ":" + e.path.split("/.bzr/")[-1] for e in w.log if e.error == "injected"), "?")
        else:
            d, raised, pre = run(w, fp, fail_py=k)
            where = fp.fired_in or "not-reached"
            if fp.fired_in is None and raised is None:
                ctx.count("fault_not_reached")
        ctx.count("fault_runs")
        tip1, revs1 = _state(d)
        fd = dict(detail, fault_kind=kind, position=k, where=where, raised=repr(raised)[:200])
        packnames_written = any(e.op == "put_file" and e.path.endswith("repository/pack-names") and not e.error for e in w.log)
        if raised is None:
            ctx.count("fault_swallowed_commit_succeeded")
            ok = tip1 == (tip0[0] + 1, b"new-rev") and revs1 == revs0 | {b"new-rev"}
            if ok:
                from breezy.repository import Repository

                repo = Repository.open(os.path.join(d, "r"))
                with repo.lock_read():
                    got = {f: v[:5] for f, v in _view(repo.revision_tree(b"new-rev"), working=False).items()}
                ok = got == expect_view
            ctx.check(ok, "fault-swallowed:commit-result-wrong", "commit survived the fault at %s but its result differs from the clean commit" % where, fd)
        else:
            ctx.hist("fault-raised:%s" % type(raised).__name__)
            if tip1 == tip0 and revs1 == revs0:
                ctx.count("fault_raised_unchanged")
                wt2 = WorkingTree.open(os.path.join(d, "co"))
                ctx.check(_changes(wt2) == pre, "commit-raised:tree-status-changed", "after the failed commit (fault at %s) the tree reports different changes" % where, fd)
            elif tip1 == tip0 and revs1 == revs0 | {b"new-rev"} and packnames_written:
                ctx.fail("commit-raised:revision-visible-after-pack-names-write", "commit raised (%s at %s) after the repository's pack-names write: the new revision stays visible, tip unchanged" % (type(raised).__name__, where), fd)
            elif tip1[1] == b"new-rev" and packnames_written:
                ctx.fail("commit-raised:tip-moved", "commit raised (%s at %s) after the branch tip was moved" % (type(raised).__name__, where), fd)
            else:
                ctx.fail("commit-raised:state-changed", "commit raised (%s at %s): tip %r->%r, revisions +%r" % (type(raised).__name__, where, tip0, tip1, sorted(revs1 - revs0)), fd)
        ctx.note(("fault", kind, k, where, type(raised).__name__ if raised is not None else "ok"), nontrivial=True,
                 sample={"fault": kind, "position": k, "where": where, "raised": repr(raised)[:120], "tip_after": repr(tip1)} if k % 7 == 0 else None)


def veto_case(ctx):
    """A pre_commit hook vetoes the commit (raises): tips of the branch - and of its master when bound - and the
    master's revisions must be unchanged; the tree still reports its changes."""
    from breezy.branch import Branch
    from breezy.controldir import ControlDir
    from breezy.workingtree import WorkingTree

    rng = ctx.rng
    names = gen.Names(ctx.tier)
    root = ctx.tmp("c01v")
    bound = rng.random() < 0.6
    mpath = os.path.join(root, "master")
    log = []
    try:
        mt = gen.make_tree(mpath, "2a")
        gen.random_delta(rng, mt, names, rng.randint(2, 5), log=log)
        mt.smart_add([mpath])
        mt.commit("base", rev_id=b"base")
        if bound:
            cpath = os.path.join(root, "checkout")
            wt = mt.branch.create_checkout(cpath, lightweight=False)
        else:
            wt = mt
        gen.random_delta(rng, wt, names, rng.randint(2, 6), log=log)
        wt.smart_add([wt.basedir])
    except Exception as e:
        ctx.discard("workload construction failed: %s" % type(e).__name__)
    pre = _changes(wt)
    if not pre:
        ctx.discard("no pending change")

    def state():
        out = {}
        for nm, pth in (("master", mpath),) + ((("local", wt.basedir),) if bound else ()):
            b = Branch.open(pth)
            with b.lock_read():
                out[nm] = (b.last_revision_info(), frozenset(b.repository.all_revision_ids()))
        return out

    s0 = state()

    class Veto(Exception):
        pass

    def hook(*a, **kw):
        raise Veto("vetoed by pre_commit hook")

    Branch.hooks.install_named_hook("pre_commit", hook, "vf-veto")
    raised = None
    try:
        try:
            wt.commit("vetoed", rev_id=b"vetoed-rev")
        except Veto as e:
            raised = e
    finally:
        Branch.hooks.uninstall_named_hook("pre_commit", "vf-veto")
    ctx.count("veto_runs")
    detail = {"bound": bound, "ops": log[-20:]}
    if raised is None:
        ctx.fail("veto:commit-did-not-raise", "a raising pre_commit hook did not stop the commit", detail)
        return
    s1 = state()
    for nm in s0:
        if s1[nm][0] != s0[nm][0]:
            ctx.fail("veto:%s-tip-moved" % nm, "vetoed commit moved the %s tip %r -> %r" % (nm, s0[nm][0], s1[nm][0]), detail)
        new = s1[nm][1] - s0[nm][1]
        if new and (nm == "master" and bound):
            ctx.fail("veto:master-repository-got-revision", "vetoed commit in a bound branch added %r to the master repository" % (sorted(new),), detail)
        elif new:
            # the local repository keeps the revision: the write group is committed before the hooks run (known, see fault half)
            ctx.hist("veto:local-revision-visible")
    wt2 = WorkingTree.open(wt.basedir)
    ctx.check(_changes(wt2) == pre, "veto:tree-status-changed", "pending changes differ after the vetoed commit", detail)
    ctx.note(("veto", bound, len(pre)), nontrivial=True, sample={"scenario": "pre_commit veto", "bound": bound, "pending_changes": len(pre)})


def case(ctx):
    from breezy.workingtree import WorkingTree

    instr.install()
    if ctx.index % 8 == 5:
        return veto_case(ctx)
    rng = ctx.rng
    fmt = "2a" if (ctx.tier == "quick" or rng.random() < 0.6) else rng.choice(["pack-0.92", "rich-root-pack"])
    try:
        root, log = _prepare(ctx, fmt)
    except Exception as e:
        ctx.discard("workload construction failed: %s" % type(e).__name__)
    wt = WorkingTree.open(os.path.join(root, "co"))
    wview = _view(wt, working=True)
    bview = _view(wt.basis_tree(), working=False)
    mode, spec, excl = _select(rng, wview, bview)
    detail = {"format": fmt, "ops": log[-40:], "specific_files": spec, "exclude": excl}
    ctx.info["case"] = detail
    do_faults = ctx.index % 4 == 0
    template = None
    if do_faults:
        template = ctx.tmp("c01t")
        _copy_env(root, template, None)
    nchanged = len(_changes(wt))
    outcome, view = clean_commit(ctx, root, spec, excl, detail)
    ctx.hist("selection:" + mode)
    ctx.hist("outcome:" + outcome)
    ctx.note(([o.get("op") for o in log if isinstance(o, dict)], mode, outcome), nontrivial=nchanged >= 2,
             sample={"format": fmt, "ops": log[-12:], "specific_files": spec, "exclude": excl, "outcome": outcome})
    if do_faults and outcome == "committed":
        fault_sweep(ctx, template, spec, excl, view, detail)
