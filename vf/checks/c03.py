"""C03 - fetch, push and pull copy history completely and faithfully.

A generated multi-branch history (merges, ghosts, signatures) lives in source repositories of one
format; a target of the paired format is prepared in one of four pre-states (empty / partial overlap /
already complete / stacked on a repository holding a prefix) and the requested revision is brought over
through one of the real entry points (Repository.fetch, Branch.pull, Branch.push, ControlDir.sprout,
Branch.fetch(limit)), locally or (thorough) with one side behind an in-process bzr:// server.
The target is then re-opened with fresh objects and judged against (a) plain set algebra over what the
generator recorded and (b) the source repository: presence of every non-ghost ancestor, revision
metadata, testaments, tree content, per-file graph, revision graph, signatures, Repository.check().
Finally the same operation is repeated twice (plain and through the vf+ transport): the target
directory must stay byte-identical and no mutating transport operation may touch the repository.
"""
import os

from vf import boot, gen, instr, observe
from vf.checks import _c03_lib as L

ID = "C03"
LEVEL = "exploration"
TECHNIQUE = ("differential oracle source-vs-target (testaments, trees, per-file graph, signatures) + generator-recorded graph algebra "
             "+ Repository.check() + refetch no-op monitor on the vf+ transport log and directory fingerprints")
LEVEL_TEXT = ("every generated (history, format pair, target pre-state, entry point, requested revision) case is executed on the real "
              "repositories and the re-opened target is compared revision by revision with the source and with the recorded graph; "
              "a repeated fetch is observed at transport level")
RULE = ("case = random history (<= 8 quick / <= 16 thorough revisions, <= 3 branches, merges, ghosts, signatures) x format pair x pre-state "
        "(empty|partial|complete|stacked) x entry point (fetch|pull|push|sprout|fetch-limit) x requested revision x transport (local|vf+|bzr://); "
        "non-trivial = at least 2 revisions requested; distinct = (pair, pre-state, entry, transport, shape of the requested ancestry, overlap size)")
CASES = {"quick": 32, "thorough": 800}
BUDGET_S = {"quick": 45, "thorough": 780}
MIN_EVALS = {"quick": 16, "thorough": 600}
FLOORS = {"quick": {"present": 12, "testament": 40, "file_graph": 12, "check_clean": 12, "refetch_noop": 8, "refetch_i1": 8, "generic_stream_merge_plans": 4},
          "thorough": {"present": 500, "testament": 1500, "file_graph": 300, "check_clean": 500, "refetch_noop": 400, "refetch_i1": 400,
                       "smart_cases": 30, "generic_stream_merge_plans": 60}}
ASSUMPTIONS = [
    "ghost = parent id the generator never committed; the property demands nothing about ghosts",
    "cross-model pairs (plain root -> rich root) are compared with Testament v1 and StrictTestament 2.1 (neither attests the synthesised root entry) and the per-file graph without the root id",
    "rich-root -> plain-root is unsupported: IncompatibleRepositories is counted, nothing else is demanded there",
    "signatures are treated as part of 'copy history completely': a signed source revision must arrive with the identical signature text",
    "refetch monitor: lock directory traffic and rewriting branch files with identical bytes are allowed; any mutating transport op below .bzr/repository (other than lock/) is not",
    "ghost-fill scenario, cross-model pairs: Repository.check() is not consulted (the synthesised root text of a revision converted while its parent was "
    "still a ghost legitimately lacks that parent; check reports it as inconsistent once the ghost materialises - an artefact of the scenario, not of fetch)",
    "every history gets a private 'asymmetric merge' extension (one side changes several files, the other one, merged back); for cross-serializer pairs one plan "
    "per case is pinned to the generic stream path (vf+ / bzr:// transport or stacked target) with that merge and both its parents in one stream",
    "smart-server variants (thorough only) run client and server in one process over 127.0.0.1",
]

PAIRS_Q = [("2a", "2a", False), ("pack-0.92", "pack-0.92", False), ("knit", "knit", False), ("pack-0.92", "2a", False),
           ("knit", "2a", False), ("rich-root-pack", "2a", False), ("2a", "2a", True)]
PAIRS_T = PAIRS_Q + [("1.9", "1.9", True), ("1.9", "2a", False), ("pack-0.92", "2a", True), ("rich-root-pack", "rich-root-pack", False),
                     ("1.9", "1.9", False), ("pack-0.92", "1.9", False), ("knit", "pack-0.92", False), ("1.9-rich-root", "2a", True),
                     ("2a", "pack-0.92", False), ("rich-root-pack", "pack-0.92", False)]
UNSUPPORTED = {("2a", "pack-0.92"), ("rich-root-pack", "pack-0.92")}


def worker_init(tier):
    instr.install()


_rich_cache = {}


def _rich(fmt_name):
    if fmt_name not in _rich_cache:
        _rich_cache[fmt_name] = L.fmt(fmt_name).repository_format.rich_root_data
    return _rich_cache[fmt_name]


def _make_branch(path, fmt_name):
    from breezy.controldir import ControlDir

    return ControlDir.create_branch_convenience(path, force_new_tree=False, format=L.fmt(fmt_name))


def _shape(g, E, req):
    """Canonical shape of the requested ancestry: parents as indices in a deterministic order."""
    order = sorted(E)
    idx = {r: i for i, r in enumerate(order)}
    return [[idx.get(p, "g") for p in g.pm[r]] for r in order]


# ---------------------------------------------------------------- the judge

def judge(ctx, g, src_repo, tgt_repo, E, same_model, src_rich, stacked, label, hist=None, old=(), do_check=True):
    """Compare the (fresh, read-locked) target with the source for every revision in E."""
    from breezy.bzr.testament import StrictTestament, StrictTestament3, Testament

    d = {"case": label}
    E = set(E)
    # 1. presence
    ctx.count("present")
    have = set(tgt_repo.has_revisions(E))
    if not stacked:
        have &= set(tgt_repo.all_revision_ids())
    missing = E - have
    if missing:
        ctx.fail("missing-ancestor", "%s: %d non-ghost ancestors absent from the target: %r" % (label, len(missing), sorted(missing)[:4]), d)
        E = E - missing
    # 2. revision graph as the target reports it
    ctx.count("rev_graph")
    tpm = tgt_repo.get_parent_map(E)
    bad = [r for r in E if tuple(tpm.get(r, ())) != g.pm[r] and not (not g.pm[r] and tuple(tpm.get(r, ())) == (L.NULL,))]
    if bad:
        ctx.fail("revision-graph:differs", "%s: parents of %r are %r in the target, committed as %r" % (label, bad[0], tpm.get(bad[0]), g.pm[bad[0]]), d)
    for r in sorted(E):
        # 3. metadata
        ctx.count("metadata")
        try:
            tm = L.snap_rev(tgt_repo, r)
        except Exception as e:
            ctx.fail("unreadable:revision", "%s: %r get_revision: %r" % (label, r, e), d)
            continue
        sm = L.snap_rev(src_repo, r)
        if tm != sm:
            ctx.fail("metadata:differs", "%s: %r source %r target %r" % (label, r, sm, tm), d)
        rec = hist.recorded.get(r) if hist is not None else None
        if rec is not None:
            ok = (tm["parents"] == tuple(rec["parents"]) and tm["message"] == rec["message"] and tm["committer"] == rec["committer"]
                  and int(tm["timestamp"]) == rec["timestamp"] and tm["timezone"] == rec["timezone"])
            ctx.check(ok, "metadata:differs-from-commit-request", "%s: %r target %r, committed %r" % (
                label, r, tm, {k: rec[k] for k in ("parents", "message", "committer", "timestamp", "timezone")}), d)
        # 4. testaments
        kinds = (StrictTestament3,) if same_model else (Testament, StrictTestament)
        for T in kinds:
            ctx.count("testament")
            try:
                tt = T.from_revision(tgt_repo, r).as_short_text()
            except Exception as e:
                ctx.fail("unreadable:testament", "%s: %r %s on target: %r" % (label, r, T.__name__, e), d)
                continue
            st = T.from_revision(src_repo, r).as_short_text()
            if tt != st:
                ctx.fail("testament:differs:%s" % T.__name__, "%s: %r\nsource:\n%s\ntarget:\n%s" % (
                    label, r, T.from_revision(src_repo, r).as_text().decode("utf-8", "replace")[:700],
                    T.from_revision(tgt_repo, r).as_text().decode("utf-8", "replace")[:700]), d)
        # 5. tree content through the public Tree API
        ctx.count("tree_content")
        try:
            tt = observe.snap_tree(tgt_repo.revision_tree(r))
        except Exception as e:
            ctx.fail("unreadable:tree", "%s: %r tree: %r" % (label, r, e), d)
            continue
        st = observe.snap_tree(src_repo.revision_tree(r))
        if tt != st:
            diff = sorted(p for p in set(tt) | set(st) if tt.get(p) != st.get(p))
            bad = L.sha_mismatches(tgt_repo.revision_tree(r), [p for p in diff if p in tt])
            if bad and len(bad) == len(diff):
                # same inventory, different bytes: the target's storage layer hands out a text that does not hash to its recorded sha1
                ctx.fail("stored-text:" + L.corruption_kind(tt[bad[0]][1], st.get(bad[0], (None, None))[1]), "%s: %r: target bytes of %r do not hash to the recorded text_sha1 (got %r, source has %r)" % (
                    label, r, bad[:3], tt[bad[0]][1][-40:], st.get(bad[0], (None, b""))[1][-40:]), d)
            else:
                ctx.fail("tree:differs", "%s: %r differs at %r" % (label, r, diff[:4]), d)
        # 6. signatures
        if r not in old and src_repo.has_signature_for_revision_id(r):
            ctx.count("signature")
            if not tgt_repo.has_signature_for_revision_id(r):
                ctx.fail("signature:dropped", "%s: signed revision %r arrived without its signature" % (label, r), d)
            elif tgt_repo.get_signature_text(r) != src_repo.get_signature_text(r):
                ctx.fail("signature:differs", "%s: %r" % (label, r), d)
    # 7. per-file graph
    ctx.count("file_graph")
    skip_root = not (same_model and src_rich)
    keys = L.text_keys_of(src_repo, E, skip_root)
    spm = src_repo.texts.get_parent_map(keys)
    tfm = tgt_repo.texts.get_parent_map(spm)
    lost = sorted(k for k in spm if k not in tfm)
    if lost:
        ctx.fail("file-graph:missing-text", "%s: %d text versions absent, e.g. %r" % (label, len(lost), lost[:3]), d)
    diff = sorted(k for k in spm if k in tfm and tuple(tfm[k]) != tuple(spm[k]))
    if diff:
        k = diff[0]
        ctx.fail("file-graph:differs", "%s: %r parents %r in source, %r in target" % (label, k, spm[k], tfm[k]), d)
    ctx.count("file_graph_keys", len(spm))
    if same_model:
        ctx.count("inv_graph")
        si = src_repo.inventories.get_parent_map([(r,) for r in E])
        ti = tgt_repo.inventories.get_parent_map([(r,) for r in E])
        bad = sorted(k for k in si if k not in ti or tuple(ti[k]) != tuple(si[k]))
        if bad:
            ctx.fail("inventory-graph:differs", "%s: %r source %r target %r" % (label, bad[0], si[bad[0]], ti.get(bad[0])), d)
    # 8. check
    if not do_check:
        return
    ctx.count("check_clean")
    probs = observe.check_repo(tgt_repo)
    if probs:
        ctx.fail("check-unclean", "%s: %r" % (label, probs), d)


# ---------------------------------------------------------------- the operation

class Plan:
    pass


class _NoOverlap(Exception):
    pass


def _run_entry(pl, tgt_url, src_url, first):
    """Perform the planned entry point once; target / source opened fresh from the given URLs."""
    from breezy.branch import Branch
    from breezy.controldir import ControlDir
    from breezy.repository import Repository

    e = pl.entry
    if e == "sprout" and first:
        sb = Branch.open(src_url)
        try:
            sb.controldir.sprout(tgt_url, revision_id=pl.req_arg, stacked=pl.sprout_stacked, create_tree_if_local=False,
                                 source_branch=sb)
        finally:
            L.disconnect(sb)
        return
    if e in ("fetch", "sprout"):
        sr = Repository.open(src_url)
        if pl.stacked or e == "sprout":
            tr = Branch.open(tgt_url).repository
        else:
            tr = Repository.open(tgt_url)
        try:
            tr.fetch(sr, revision_id=pl.req_arg if e == "fetch" else pl.req, find_ghosts=pl.find_ghosts)
        finally:
            L.disconnect(sr, tr)
    elif e == "fetch-limit":
        sb, tb = Branch.open(src_url), Branch.open(tgt_url)
        try:
            tb.fetch(sb, stop_revision=pl.req_arg, limit=pl.limit if first else None)
        finally:
            L.disconnect(sb, tb)
    elif e == "pull":
        sb, tb = Branch.open(src_url), Branch.open(tgt_url)
        try:
            tb.pull(sb, stop_revision=pl.req_arg, overwrite=pl.overwrite)
        finally:
            L.disconnect(sb, tb)
    elif e == "push":
        sb, tb = Branch.open(src_url), Branch.open(tgt_url)
        try:
            sb.push(tb, stop_revision=pl.req_arg, overwrite=pl.overwrite)
        finally:
            L.disconnect(sb, tb)
    else:
        raise ValueError(e)


SRC_Q = ["2a", "pack-0.92", "knit", "rich-root-pack", "2a", "pack-0.92", "knit"]
PLANS = {"quick": 3, "thorough": 4}


def case(ctx):
    from breezy import errors
    from breezy.branch import Branch

    rng = ctx.rng
    quick = ctx.tier == "quick"
    pairs = PAIRS_Q if quick else PAIRS_T
    srcs = SRC_Q if quick else [p[0] for p in PAIRS_T]
    sfmt = srcs[ctx.index % len(srcs)]
    # ---- source history (shared by the plans of this case; only signatures are added to it, once)
    try:
        hist = gen.build_history(ctx, rng, fmt=sfmt, nrevs=rng.randint(3, 8 if quick else 16), nbranches=3, ghosts=True, merges=True,
                                 tags=(sfmt != "knit" and rng.random() < 0.5), names=gen.Names(ctx.tier))
    except (errors.BzrError, AttributeError) as e:  # AttributeError: gen.build_history names errors.PointlessCommit (lives in breezy.commit)
        ctx.discard("history-construction:%s" % type(e).__name__)
    merged_branch = None
    try:
        merged_branch = _asymmetric_merge(ctx, rng, hist)
        ctx.hist("history:asymmetric-merge:%s" % ("yes" if merged_branch else "no"))
    except Exception as e:  # workload construction, not judged
        ctx.hist("history:asymmetric-merge-refused:%s" % type(e).__name__)
    g = L.MGraph(hist)
    # the same revisions are signed in every source repository that holds them
    chosen = {r for r in sorted(g.pm) if rng.random() < 0.4}
    for bn in sorted(hist.trees):
        repo = Branch.open(hist.trees[bn]).repository
        with repo.lock_read():
            here = set(repo.all_revision_ids())
        L.sign_some(repo, chosen & here, rng, p=1.1)
    cands = [p for p in pairs if p[0] == sfmt]
    # cross-serializer pairs: one plan of the case is pinned to the generic stream path (inventory-deltas substream; the local fast path
    # InterDifferingSerializer only serves file:// to file://) with the asymmetric merge and both its parents travelling in one stream
    cross = [p for p in cands if p[0] != p[1] and (p[0], p[1]) not in UNSUPPORTED]
    for k in range(PLANS[ctx.tier]):
        _sf, tfmt, stacked = cands[(ctx.index // len(srcs) + k) % len(cands)]
        force = None
        if k == 0 and cross and merged_branch is not None:
            _sf, tfmt, stacked = cross[(ctx.index // len(srcs)) % len(cross)]
            force = {"bname": merged_branch, "pre": rng.choice(["empty", "empty", "below-fork"]),
                     "transport": "vf+" if quick or stacked else rng.choice(["vf+", "bzr-target", "bzr-source"]),
                     "entry": rng.choice(["fetch", "pull", "push"])}
            ctx.count("generic_stream_merge_plans")
        _one(ctx, rng, hist, g, sfmt, tfmt, stacked, len(chosen), force)
    plain = [p for p in cands if not p[2] and (p[0], p[1]) not in UNSUPPORTED]
    if plain:
        _ghost_fill(ctx, rng, hist, g, sfmt, rng.choice(plain)[1])


def _asymmetric_merge(ctx, rng, hist):
    """Private extension of the history: a fork where one side changes several files and the other a single one, merged back
    (usually small side into big side, so the smallest inventory delta of the merge is the one against its FIRST parent).
    Returns the name of the branch holding the merge, or None."""
    from breezy.commit import PointlessCommit
    from breezy.workingtree import WorkingTree

    names = gen.Names(ctx.tier)
    big_name = rng.choice(sorted(hist.trees))
    big = WorkingTree.open(hist.trees[big_name])
    small_name = "bm"
    small_path = os.path.join(hist.root, small_name)
    big.branch.controldir.sprout(small_path)
    hist.trees[small_name] = small_path
    hist.log.append({"branch": small_name, "from": big_name})
    small = WorkingTree.open(small_path)
    fork = big.last_revision()
    # big side: several files created/edited/renamed, in one or two commits
    for _ in range(rng.randint(1, 2)):
        gen.random_delta(rng, big, names, rng.randint(4, 7), {"mkfile": 5, "add": 8, "edit": 8, "rename": 3, "mkdir": 1, "chmod": 1}, hist.log)
        try:
            gen.commit(hist, big_name, big, rng)
        except PointlessCommit:
            pass
    # small side: one change
    gen.random_delta(rng, small, names, 1, {"edit": 6, "mkfile": 2, "add": 4, "chmod": 1}, hist.log)
    try:
        gen.commit(hist, small_name, small, rng)
    except PointlessCommit:
        return None
    if big.last_revision() == fork or small.last_revision() == fork:
        return None
    into, other, into_name = (big, small, big_name) if rng.random() < 0.8 else (small, big, small_name)
    with into.lock_write():
        into.merge_from_branch(other.branch)
    gen.resolve_all(into)
    hist.log.append({"merge": "asymmetric", "into": into_name})
    gen.commit(hist, into_name, into, rng)
    if rng.random() < 0.4:
        gen.random_delta(rng, into, names, rng.randint(1, 2), None, hist.log)
        try:
            gen.commit(hist, into_name, into, rng)
        except PointlessCommit:
            pass
    return into_name


def _ghost_fill(ctx, rng, hist, g, sfmt, tfmt):
    """A revision that is a ghost in the target but present in the source is copied when find_ghosts is asked for.

    Repository A holds X whose parent G is absent; repository B holds X and a real G.  The target first
    fetches from A (G stays a ghost), then fetches the same tip from B.
    """
    from breezy.branch import Branch
    from breezy.repository import Repository

    cands = sorted((r, p) for r in g.pm for p in g.pm[r] if g.is_ghost(p))
    if not cands:
        ctx.hist("ghost-fill:no-ghost-in-history")
        return
    X, G = rng.choice(cands)
    holders = [bn for bn in sorted(hist.trees) if X in g.ancestry(Branch.open(hist.trees[bn]).last_revision())]
    if not holders:
        return
    A = Branch.open(hist.trees[rng.choice(holders)])
    tipA = A.last_revision()
    root = ctx.tmp("c03g")
    wtB = gen.make_tree(os.path.join(root, "B"), sfmt)
    with open(os.path.join(root, "B", "was-a-ghost"), "wb") as f:
        f.write(b"content of %s\n" % G)
    wtB.add(["was-a-ghost"])
    wtB.commit("the ghost materialises", rev_id=G, timestamp=1400000000, timezone=0, committer="G <g@example.com>")
    wtB.branch.repository.fetch(A.repository, revision_id=tipA)
    g2 = L.MGraph(parents=dict(g.pm))
    g2.add(G, ())
    T = _make_branch(os.path.join(root, "T"), tfmt)
    T.repository.fetch(A.repository, revision_id=tipA)
    find_ghosts = rng.random() < 0.75
    label = "%s->%s/ghost-fill/find_ghosts=%s" % (sfmt, tfmt, find_ghosts)
    ctx.info = {"label": label, "log": hist.log[-40:], "X": X.decode(), "G": G.decode(), "tip": tipA.decode()}
    Repository.open(os.path.join(root, "T")).fetch(Repository.open(os.path.join(root, "B")), revision_id=tipA, find_ghosts=find_ghosts)
    src_repo, tgt_repo = Repository.open(os.path.join(root, "B")), Repository.open(os.path.join(root, "T"))
    with src_repo.lock_read(), tgt_repo.lock_read():
        filled = G in set(tgt_repo.all_revision_ids())
        ctx.hist("ghost-fill:find_ghosts=%s:filled=%s" % (find_ghosts, filled))
        same_model = _rich(sfmt) == _rich(tfmt)
        if find_ghosts:
            ctx.count("ghost_fill")
            if not filled:
                ctx.fail("find-ghosts:not-filled", "%s: %r is present in the source, a ghost in the target, and was not copied" % (label, G), {"case": label})
            judge(ctx, g2, src_repo, tgt_repo, g2.ancestry(tipA), same_model, _rich(sfmt), False, label, do_check=same_model)
        else:
            judge(ctx, g2, src_repo, tgt_repo, g2.ancestry(tipA) - ({G} if not filled else set()), same_model, _rich(sfmt), False, label,
                  do_check=same_model)
    ctx.note(("ghost-fill", sfmt, tfmt, find_ghosts, _shape(g, g.ancestry(tipA), tipA)), nontrivial=True)


def _one(ctx, rng, hist, g, sfmt, tfmt, stacked, signed, force=None):
    from breezy import errors
    from breezy.branch import Branch
    from breezy.controldir import ControlDir
    from breezy.repository import Repository

    quick = ctx.tier == "quick"
    same_model = _rich(sfmt) == _rich(tfmt)
    unsupported = (sfmt, tfmt) in UNSUPPORTED
    bname = rng.choice(sorted(hist.trees))
    if force:
        bname = force["bname"]
    src_path = hist.trees[bname]
    src_branch = Branch.open(src_path)
    tip = src_branch.last_revision()
    # ---- plan
    pl = Plan()
    pl.stacked = stacked
    anc_tip = sorted(g.ancestry(tip))
    pl.req = tip if rng.random() < 0.65 else rng.choice(anc_tip)
    entries = ["fetch", "fetch", "pull", "push", "sprout"] + ([] if unsupported else ["fetch-limit"])
    pl.entry = rng.choice(entries)
    if force:
        pl.req, pl.entry = tip, force["entry"]
    pl.req_arg = pl.req
    if pl.entry in ("pull", "push", "fetch-limit") and pl.req == tip and rng.random() < 0.6:
        pl.req_arg = None
    fetch_all = False
    if pl.entry == "fetch" and rng.random() < 0.12:
        pl.req_arg = None
        fetch_all = True
    pl.find_ghosts = rng.random() < 0.5
    pl.sprout_stacked = False
    pl.limit = rng.randint(1, 4)
    pres = ["empty", "partial", "partial", "complete"]
    pre = rng.choice(pres)
    transport = "local"
    r = rng.random()
    if r < (0.3 if sfmt == tfmt else 0.5):
        transport = "vf+"          # keeps InterDifferingSerializer out: the generic stream path converts
    elif not quick and r < 0.7:
        transport = rng.choice(["bzr-target", "bzr-source"])
    below_fork = False
    if force:
        transport = force["transport"]
        pre, below_fork = ("empty", False) if force["pre"] == "empty" else ("partial", True)
        fetch_all = False
        pl.req_arg = pl.req if pl.entry == "fetch" else pl.req_arg
    root = ctx.tmp("c03")
    tgt_path = os.path.join(root, "tgt")
    base_path = os.path.join(root, "base")
    label = "%s->%s%s/%s/%s/%s" % (sfmt, tfmt, "+stacked" if stacked else "", pre, pl.entry, transport)
    ctx.info = {"label": label, "log": hist.log[-40:], "req": pl.req.decode(), "tip": tip.decode(), "branch": bname}
    pm_req = g.ancestry(pl.req)

    # ---- target pre-state (built with the real code, uninstrumented; failures here are failures of fetch too)
    other = None
    shared = False
    try:
        if stacked:
            # base repository holds the ancestry of a left-hand prefix point of the requested revision
            lh, _gh = g.lefthand(pl.req)
            prefix = rng.choice(lh[1:]) if len(lh) > 1 and rng.random() < 0.85 else None
            bb = _make_branch(base_path, tfmt)
            if prefix is not None:
                bb.pull(src_branch, stop_revision=prefix)
            if pl.entry == "sprout":
                # sprout(stacked=True) stacks on its own source: use the prefix holder as fallback of a fresh branch instead
                pl.entry = "pull"
            if rng.random() < 0.5 and prefix is not None:
                Branch.open(base_path).controldir.sprout(tgt_path, stacked=True, create_tree_if_local=False)
                label += "/sprouted"
            else:
                tb = _make_branch(tgt_path, tfmt)
                tb.set_stacked_on_url(bb.base if rng.random() < 0.5 else "../base")
            pl.prefix = prefix
        elif pl.entry == "sprout":
            if sfmt != tfmt or pre != "empty":
                os.mkdir(tgt_path)
                ControlDir.create(tgt_path, format=L.fmt(tfmt)).create_repository(shared=True)
                shared = True
        else:
            _make_branch(tgt_path, tfmt)
    except errors.IncompatibleRepositories as e:
        if unsupported:
            ctx.hist("unsupported:refused:%s->%s" % (sfmt, tfmt))
            ctx.note(("unsupported", sfmt, tfmt, "pre"), nontrivial=False)
            return
        raise
    tgt_repo_path = tgt_path
    if pl.entry == "sprout" and shared:
        tgt_path = os.path.join(tgt_path, "br")
    pre_revs = set()
    try:
        if pre in ("partial", "complete") and (not pl.entry == "sprout" or shared):
            if pre == "complete":
                o_branch, o = src_branch, pl.req
            elif below_fork:
                # overlap strictly below the newest mainline merge: both its parents still travel in the stream under test
                common = None
                for m in g.lefthand(pl.req)[0]:
                    ps = [p for p in g.pm[m] if not g.is_ghost(p)]
                    if len(ps) > 1:
                        common = set.intersection(*[g.ancestry(p) for p in ps])
                        break
                if not common:
                    raise _NoOverlap()
                o_branch, o = src_branch, rng.choice(sorted(common))
            else:
                on = rng.choice(sorted(hist.trees))
                o_branch = Branch.open(hist.trees[on])
                o = rng.choice(sorted(g.ancestry(o_branch.last_revision())))
            other = o
            if stacked or (pl.entry in ("pull", "push") and rng.random() < 0.6):
                tb0 = Branch.open(tgt_path)
                try:
                    tb0.pull(o_branch, stop_revision=o, overwrite=True)
                except errors.DivergedBranches:
                    raise
            else:
                Repository.open(tgt_repo_path).fetch(o_branch.repository, revision_id=o)
    except _NoOverlap:
        pre = "empty"
    except errors.IncompatibleRepositories:
        if unsupported:
            ctx.hist("unsupported:refused:%s->%s" % (sfmt, tfmt))
            ctx.note(("unsupported", sfmt, tfmt, "pre"), nontrivial=False)
            return
        raise
    if os.path.isdir(os.path.join(tgt_repo_path, ".bzr")):
        r0 = (Branch.open(tgt_repo_path).repository if stacked else Repository.open(tgt_repo_path))
        with r0.lock_read():
            pre_revs = set(r0.all_revision_ids())
    if pl.entry == "fetch-limit":
        nwant = len(pm_req - pre_revs)
        pl.limit = rng.randint(1, max(1, nwant - 1)) if rng.random() < 0.8 else rng.randint(1, nwant + 2)
    # pull / push without overwrite must not be asked to do something the branch API refuses
    if pl.entry in ("pull", "push"):
        ttip = Branch.open(tgt_path).last_revision()
        pl.overwrite = (g.relation(ttip, pl.req) == "diverged") or rng.random() < 0.15
    else:
        pl.overwrite = False

    # ---- run the operation under test
    refused = None
    try:
        if transport == "vf+":
            w = instr.World(root)
            with w.active(), w.actor("A"):
                try:
                    _run_entry(pl, w.url(tgt_path), src_path, True)
                except errors.IncompatibleRepositories as e:
                    refused = e
        elif transport.startswith("bzr-"):
            served = boot.scratch_root()
            with L.smart_server(served) as base_url:
                ctx.count("smart_cases")
                rel = lambda p: base_url.rstrip("/") + "/" + os.path.relpath(p, served)
                if transport == "bzr-target":
                    tgt_url, src_url = rel(tgt_path), src_path
                else:
                    tgt_url, src_url = tgt_path, rel(src_path)
                try:
                    _run_entry(pl, tgt_url, src_url, True)
                except errors.IncompatibleRepositories as e:
                    refused = e
        else:
            try:
                _run_entry(pl, tgt_path, src_path, True)
            except errors.IncompatibleRepositories as e:
                refused = e
    except errors.LockContention:
        if transport == "bzr-target" and pl.entry == "sprout" and sfmt == "knit":
            # sprouting a format-5 (knit era) branch onto a bzr:// URL contends with its own remote lock and is refused before
            # anything is copied: a liveness problem the property does not speak about (see fixes/C03-remote-sprout-knit-lock.md)
            ctx.hist("refused:LockContention:sprout-knit-to-bzr")
            ctx.note(("refused", sfmt, tfmt, pl.entry, transport), nontrivial=False)
            return
        raise
    except errors.DivergedBranches:
        ctx.fail("diverged-raised-on-non-diverged-or-overwrite", "%s: model relation %s overwrite=%s" % (
            label, g.relation(Branch.open(tgt_path).last_revision(), pl.req), pl.overwrite), {"case": label})
        return
    ctx.hist("entry:" + pl.entry)
    ctx.hist("pre:" + ("stacked-" if stacked else "") + pre)
    ctx.hist("pair:%s->%s%s" % (sfmt, tfmt, "+stacked" if stacked else ""))
    ctx.hist("transport:" + transport)
    if refused is not None:
        if unsupported:
            ctx.hist("unsupported:refused:%s->%s" % (sfmt, tfmt))
            ctx.note(("unsupported", sfmt, tfmt, pl.entry), nontrivial=False)
            return
        ctx.fail("refused-supported-pair", "%s: %r" % (label, refused), {"case": label})
        return
    if unsupported:
        ctx.hist("unsupported:accepted:%s->%s" % (sfmt, tfmt))
        # nothing was promised; only an empty transfer is plausible here
        ctx.note(("unsupported-accepted", sfmt, tfmt, pl.entry), nontrivial=False)
        return

    # ---- judge with fresh objects
    src_repo = Repository.open(src_path)
    tgt_repo = Branch.open(tgt_path).repository if (stacked or pl.entry == "sprout") else Repository.open(tgt_repo_path)
    with src_repo.lock_read(), tgt_repo.lock_read():
        if fetch_all:
            E = set(src_repo.all_revision_ids())
        else:
            E = set(pm_req)
        after = set(tgt_repo.all_revision_ids())
        if pl.entry == "fetch-limit":
            # documented: at most `limit` revisions are fetched; what is fetched must be parent-closed
            ctx.count("limit")
            want = E - pre_revs
            new = after - pre_revs
            exp_n = min(pl.limit, len(want))
            if stacked:
                pass  # all_revision_ids of a stacked repository includes the fallback's: counts are not comparable
            elif len(new & want) != exp_n or not new <= want | pre_revs:
                ctx.fail("limit:wrong-count", "%s: limit=%d missing=%d but %d new revisions arrived" % (label, pl.limit, len(want), len(new)),
                         {"case": label, "new": sorted(new)[:6]})
            for r in new:
                for p in g.pm.get(r, ()):
                    if not g.is_ghost(p) and p not in after:
                        ctx.fail("limit:not-parent-closed", "%s: %r arrived without its parent %r" % (label, r, p), {"case": label})
            ctx.hist("limit:%s" % ("partial" if exp_n < len(want) else "all"))
            E_now = new & E if not stacked else set(tgt_repo.has_revisions(E))
            judge(ctx, g, src_repo, tgt_repo, E_now, same_model, _rich(sfmt), stacked, label, hist, pre_revs)
        else:
            if not pre_revs <= after and not stacked:
                ctx.fail("lost-preexisting-revisions", "%s: %r" % (label, sorted(pre_revs - after)[:4]), {"case": label})
            judge(ctx, g, src_repo, tgt_repo, E, same_model, _rich(sfmt), stacked, label, hist, pre_revs)
        n_new = len(after - pre_revs)
    if pl.entry in ("pull", "push"):
        ctx.count("tip_moved")
        nt = Branch.open(tgt_path).last_revision()
        ctx.check(nt == pl.req or (not pl.overwrite and g.is_ancestor(pl.req, nt)), "branch-tip-not-at-request",
                  "%s: tip %r, requested %r" % (label, nt, pl.req), {"case": label})
    elif pl.entry == "sprout":
        nt = Branch.open(tgt_path).last_revision()
        ctx.check(nt == pl.req, "sprout-tip-not-at-request", "%s: tip %r requested %r" % (label, nt, pl.req), {"case": label})

    # ---- the same request again: nothing moves
    if pl.entry == "fetch-limit":
        # finish the transfer first (limit=None), then judge completeness, then refetch
        _run_entry(pl, tgt_path, src_path, False)
        with src_repo.lock_read():
            t2 = Branch.open(tgt_path).repository
            with t2.lock_read():
                judge(ctx, g, src_repo, t2, E, same_model, _rich(sfmt), stacked, label + "/completed", hist, pre_revs)
    watched = [tgt_repo_path] + ([base_path] if stacked else [])
    fp0 = [L.fingerprint(os.path.join(p, ".bzr")) for p in watched]
    ctx.count("refetch_noop")
    _run_entry(pl, tgt_path, src_path, False)
    fp1 = [L.fingerprint(os.path.join(p, ".bzr")) for p in watched]
    if fp0 != fp1:
        ctx.fail("refetch:changed-target", "%s: second identical request changed %r" % (label, [L.fp_diff(a, b) for a, b in zip(fp0, fp1)]),
                 {"case": label})
    w2 = instr.World(root)
    ctx.count("refetch_i1")
    with w2.active(), w2.actor("R"):
        _run_entry(pl, w2.url(tgt_path), src_path, False)
    fp2 = [L.fingerprint(os.path.join(p, ".bzr")) for p in watched]
    if fp1 != fp2:
        ctx.fail("refetch:changed-target", "%s: third identical request (vf+) changed %r" % (label, [L.fp_diff(a, b) for a, b in zip(fp1, fp2)]),
                 {"case": label})
    touched = []
    for ev in w2.mutating_events():
        p = ev.path
        if "/.bzr/repository/" in p:
            rest = p.split("/.bzr/repository/", 1)[1]
            if rest == "lock" or rest.startswith("lock/"):
                continue
            touched.append("%s %s" % (ev.op, rest))
    ctx.count("refetch_ops_seen", len(w2.log))
    if touched:
        ctx.fail("refetch:repository-written", "%s: refetch performed %r" % (label, touched[:8]), {"case": label})
    ctx.distinct("relation", (pre, len(pre_revs & E) if not stacked else -1 > 0, n_new > 0))
    ctx.note((sfmt, tfmt, stacked, pre, pl.entry, transport, _shape(g, pm_req, pl.req), len(pre_revs & pm_req)),
             nontrivial=len(E) >= 2,
             sample={"case": label, "requested": pl.req.decode(), "ancestry": len(pm_req), "ghosts": len(g.ghosts_of(pl.req)),
                     "pre_existing": len(pre_revs), "new_revisions": n_new, "signed": signed, "other_tip": other.decode() if other else None,
                     "overwrite": pl.overwrite, "req_arg_none": pl.req_arg is None})
