"""C17 - tree merges obey the three-way merge laws.

BASE is a generated tree committed in a real branch; THIS and OTHER are real branches
sprouted from it and changed by generated deltas related as each law requires:

  other=base   OTHER's tree equals BASE           => THIS unchanged, no conflicts
  this=base    THIS's tree equals BASE            => result equals OTHER, no conflicts
  identical    both sides made the same changes   => THIS unchanged, no conflicts
  disjoint     changes confined to two different
               top-level subtrees                 => union of both, no conflicts

Mergers: Merge3Merger, WeaveMerger, LCAMerger on 2a; Merge3Merger on git trees.  THIS is
merged both committed and as a working tree with the delta uncommitted.  A quarter of the
cases run on a criss-cross history whose common ancestors all have BASE's tree, so the
same laws are judged through Merge3Merger._entries_lca / _lca_multi_way.  The C18 law
monitor is armed on the live _three_way / _lca_multi_way call sites during every merge.
"""
import os
import re
import shutil

from vf import gen, observe
from vf.runner import Discard

ID = "C17"
LEVEL = "exploration"
TECHNIQUE = ("law oracles over observed tree snapshots (path/kind/bytes/exec/file-id, disk content, conflict list) of real merges of generated "
             "branch triples; C18 decision-law monitor armed on the live call sites")
LEVEL_TEXT = ("for generated BASE trees and deltas related as each law requires, the working tree after a real merge (three merge types on 2a, merge3 on git, "
              "both incl. criss-cross histories; THIS committed or uncommitted) equals the tree the law prescribes, with no conflicts and no helper files")
RULE = ("case = BASE tree (seed skeleton + 0-6 random ops) + law + deltas of 1-6 model-legal ops (add/edit/chmod/rename/remove/unversion/kind change/"
        "symlink/delete-on-disk) + format (2a / git) + history shape (plain / criss-cross) + THIS committed or not; every merger run is one evaluation; "
        "non-trivial = the law's delta(s) applied at least one op; distinct = (law, format, shape, merger, op-kind sequences, resulting tree hash)")
CASES = {"quick": 176, "thorough": 4800}
BUDGET_S = {"quick": 35, "thorough": 700}
MIN_EVALS = {"quick": 120, "thorough": 3000}
FLOORS = {"law:other=base": 20, "law:this=base": 20, "law:identical": 15, "law:disjoint": 20, "oracle_tree": 100, "oracle_disk": 100,
          "oracle_conflicts": 100, "C18live_law_S_three_way": 200, "C18live_law_S_lca": 200, "live_call:three_way": 150, "live_call:lca_multi_way": 50}
ASSUMPTIONS = [
    "the law's precondition is verified by observation (snapshots of BASE/THIS/OTHER) before the merge; cases whose generated deltas do not satisfy it are discarded",
    "disjoint = every path touched by a delta lies strictly inside that side's own top-level directory; or (file-level flavour, 35 %) the deltas only "
    "edit / chmod / add files and no path is changed on both sides; or (entry-level flavour, 2a only) no file id is changed on both sides and the union "
    "of the two entry sets is a well-formed tree (every parent present and a directory, no two entries with one name in one directory, no loop) - "
    "there the expected tree is computed from (parent id, name, kind, content, exec) per file id, so paths may overlap freely",
    "criss-cross cases: both LCAs and the unique ancestor all have BASE's tree, so the laws are unambiguous about what BASE is",
    "git trees: directories are not versioned, so the disk comparison ignores directories there",
]

# the file-level flavour of the disjoint law: content, exec bit, new files and symlinks only (no renames / removals / kind changes)
W_FILES = {"mkfile": 4, "symlink": 1, "add": 6, "edit": 8, "chmod": 4}
# the entry-level (file id) flavour of the disjoint law, bzr trees: THIS restructures, OTHER touches entries in place
W_RESTRUCTURE = {"rename": 8, "mkdir": 2, "mkfile": 3, "add": 6, "symlink": 1}
W_TOUCH = {"edit": 8, "chmod": 4, "mkfile": 4, "add": 6, "rename": 3}
MERGERS = ("Merge3Merger", "WeaveMerger", "LCAMerger")
LAWS = ("other=base", "this=base", "identical", "disjoint")
SUFFIXES = (".BASE", ".THIS", ".OTHER", ".moved")

# criss-cross histories on git trees too (the property names git trees and the lca entry walk alike)
GIT_CRISS_CROSS = True

_cur = [None]


def _live_ctx():
    """Current case ctx for the C18 live monitor - but None while one of its law evaluations is already running.

    c18.install_live() rebinds Merge3Merger._three_way; the original _lca_multi_way that c18.laws() calls resolves
    Merge3Merger._three_way at run time and so re-enters the wrapper, which would evaluate the laws again, recursively
    and without bound.  Evaluating the laws once per real call site is what is wanted, so nested calls are not monitored.
    """
    import sys

    from vf.checks import c18

    code = c18.laws.__code__
    f = sys._getframe(1)
    caller = f.f_code.co_name
    while f is not None:
        if f.f_code is code:
            return None
        f = f.f_back
    if _cur[0] is not None:
        _cur[0].count("live_call:" + caller)
    return _cur[0]


def worker_init(tier):
    from vf.checks import c18

    c18.install_live(_live_ctx)


# ---------------------------------------------------------------- workload

def _op_paths(op):
    return [op[k] for k in ("path", "src", "dst") if k in op]


def _delta(rng, wt, names, nops, weights, inside=None, idtag="", avoid=(), motif=False, motif_log=None):
    """Apply up to nops model-legal random ops (confined to the subtree `inside`); returns (ops, clean).

    idtag keeps the file ids of entries added on the two sides apart (the model numbers new ids from the
    size of the tree, so two deltas starting from the same BASE would otherwise mint the same id).
    """
    ops = []
    clean = True
    if motif:
        kind, mops, clean = _apply_motif(rng, wt, names, inside, idtag)
        ops += mops
        if kind and motif_log is not None:
            motif_log.append(kind if clean else kind + ":refused")
    w = gen.world_from_tree(wt)
    nops += len(ops)
    for _ in range(nops * 14):
        if len(ops) >= nops:
            break
        op = gen.gen_op(rng, w, names, weights)
        if op is None:
            continue
        if inside is not None and not all(p.startswith(inside + "/") for p in _op_paths(op)):
            continue
        if avoid and any(p in avoid for p in _op_paths(op)):
            continue
        if idtag and op["op"] == "add":
            op["id"] = idtag + op["id"]
        try:
            gen.apply_real(wt, op)
        except Exception:
            # refused by breezy (C09's subject): the tree may be half changed - resync the model, remember it
            clean = False
            w = gen.world_from_tree(wt)
            continue
        w.apply(op)
        ops.append(op)
    return ops, clean


def _free_name(rng, w, parent_path, names, kind):
    pool = list(names.dirs if kind == "directory" else names.files) + ["old", "tmp-x", "kept"]
    rng.shuffle(pool)
    for n in pool:
        q = (parent_path + "/" + n) if parent_path else n
        if w.free(q):
            return q
    return None


def _motif(rng, w, names, inside=None, idtag="", path_based=False):
    """A structured op sequence the random generator almost never produces: a path that comes to name a
    different entry than before (directory renamed away and re-created, sibling directories swapped, a file
    renamed onto the path of a removed file, two files swapped through a temporary name, a file replaced by a
    directory and the reverse, byte-identical copies of a file with the original deleted / renamed / kept), combined with
    in-place renames, additions and content edits below / at those paths.  Returns (kind, [op, ...]) or None."""
    from vf.model import ROOT

    def ok(path):
        return inside is None or path.startswith(inside + "/")

    def kids(i, kind):
        return sorted(c for c in w.children(i) if w.ents[c].kind == kind and not w.ents[c].missing)

    live = {i: e for i, e in w.ents.items() if i != ROOT and not e.missing and not gen._under_missing(w, i) and not e.kc and ok(w.path(i))}
    dirs = sorted(i for i, e in live.items() if e.kind == "directory")
    files = sorted(i for i, e in live.items() if e.kind == "file")
    cands = []
    for d in dirs:
        if kids(d, "file"):
            cands.append(("dir-recreate", d))
        sib = [x for x in dirs if x != d and w.ents[x].parent == w.ents[d].parent and (kids(x, "file") or kids(d, "file"))]
        if sib:
            cands.append(("dir-swap", d))
    for f in files:
        others = [g for g in files if g != f]
        if others:
            cands.append(("file-replace", f))
            cands.append(("file-swap", f))
    for f in files:
        if w.ents[f].content:
            # byte-identical additions next to a deletion / rename / the surviving original: on path-based (git) trees
            # the rename detector then reports renames and exact copies instead of plain deletions and additions
            cands += [("copy-delete-two", f), ("copy-rename", f), ("copy-keep", f)]
    for f in files:
        cands.append(("file-becomes-dir", f))
    for d in dirs:
        cands.append(("dir-becomes-file", d))
    if not cands:
        return None
    kinds = sorted({k for k, _ in cands})
    kind = rng.choices(kinds, [2 if k.startswith("dir-") else ((4 if path_based else 1) if k.startswith("copy-") else 1) for k in kinds])[0]
    a = rng.choice([x for k, x in cands if k == kind])
    ops = []
    pa = w.path(a)
    parent = pa.rpartition("/")[0]

    def content():
        return gen.gen_content(rng, hostile=False) or b"motif\n"

    if kind.startswith("copy-"):
        data = w.ents[a].content
        if rng.random() < 0.2:
            data = data + b"a line more\n"  # a modified copy
        n1 = _free_name(rng, w, parent, names, "file")
        if n1 is None or not ok(n1):
            return None
        if kind == "copy-delete-two":
            ops.append({"op": "remove", "path": pa})
        elif kind == "copy-rename":
            ops.append({"op": "rename", "src": pa, "dst": n1})
            n1 = None
        for n in (n1, None):
            if n is None:
                # a second / only copy somewhere else in the tree
                d2 = rng.choice([""] + [w.path(d) for d in dirs]) if inside is None else rng.choice([inside] + [w.path(d) for d in dirs])
                taken = {o.get("dst") for o in ops} | {o.get("path") for o in ops}
                pool = [x for x in names.files + ["copy-of", "dup"] if w.free((d2 + "/" + x) if d2 else x) and ((d2 + "/" + x) if d2 else x) not in taken]
                if not pool:
                    continue
                x = rng.choice(pool)
                n = (d2 + "/" + x) if d2 else x
                if not ok(n) and inside is not None:
                    continue
            if kind == "copy-keep" and n == n1 and rng.random() < 0.5:
                continue  # sometimes one copy only
            ops.append({"op": "mkfile", "path": n, "content": data})
            ops.append({"op": "add", "path": n, "id": idtag + w.new_id("cp")})
        if not any(o["op"] == "mkfile" for o in ops):
            return None
    elif kind == "file-becomes-dir":
        # the path of a removed file is taken by a new directory with content (on git an empty one would not exist)
        inner = rng.choice(names.files)
        ops += [{"op": "remove", "path": pa}, {"op": "mkdir", "path": pa}, {"op": "add", "path": pa, "id": idtag + w.new_id("fd")},
                {"op": "mkfile", "path": pa + "/" + inner, "content": content()}, {"op": "add", "path": pa + "/" + inner, "id": idtag + w.new_id(inner)}]
    elif kind == "dir-becomes-file":
        ops += [{"op": "remove", "path": pa}, {"op": "mkfile", "path": pa, "content": content()}, {"op": "add", "path": pa, "id": idtag + w.new_id("df")}]
    elif kind == "dir-recreate":
        moved = _free_name(rng, w, parent, names, "directory")
        if moved is None or not ok(moved):
            return None
        f = rng.choice(kids(a, "file"))
        fname = w.ents[f].name
        ops.append({"op": "rename", "src": pa, "dst": moved})
        ops.append({"op": "mkdir", "path": pa})
        ops.append({"op": "add", "path": pa, "id": idtag + w.new_id("redir")})
        fresh = rng.choice(names.files)
        ops.append({"op": "mkfile", "path": pa + "/" + fresh, "content": content()})
        ops.append({"op": "add", "path": pa + "/" + fresh, "id": idtag + w.new_id(fresh)})
        newname = rng.choice([n for n in names.files + ["kernel"] if n != fname and not any(w.ents[c].name == n for c in w.children(a))])
        ops.append({"op": "rename", "src": moved + "/" + fname, "dst": moved + "/" + newname})
        if rng.random() < 0.5:
            ops.append({"op": "edit", "path": moved + "/" + newname, "content": content()})
    elif kind == "dir-swap":
        sib = [x for x in dirs if x != a and w.ents[x].parent == w.ents[a].parent and (kids(x, "file") or kids(a, "file"))]
        b = rng.choice(sib)
        pb = w.path(b)
        tmp = _free_name(rng, w, parent, names, "directory")
        if tmp is None or not ok(tmp):
            return None
        ops += [{"op": "rename", "src": pa, "dst": tmp}, {"op": "rename", "src": pb, "dst": pa}, {"op": "rename", "src": tmp, "dst": pb}]
        # entry a now lives at pb, entry b at pa
        for ent, where in ((a, pb), (b, pa)):
            fk = kids(ent, "file")
            r = rng.random()
            if fk and r < 0.6:
                f = rng.choice(fk)
                fname = w.ents[f].name
                newname = rng.choice([n for n in names.files + ["kernel"] if n != fname and not any(w.ents[c].name == n for c in w.children(ent))])
                ops.append({"op": "rename", "src": where + "/" + fname, "dst": where + "/" + newname})
            else:
                fresh = rng.choice([n for n in names.files + ["fresh"] if not any(w.ents[c].name == n for c in w.children(ent))])
                ops.append({"op": "mkfile", "path": where + "/" + fresh, "content": content()})
                ops.append({"op": "add", "path": where + "/" + fresh, "id": idtag + w.new_id(fresh)})
    else:
        # prefer a partner whose executable bit differs
        others = [g for g in files if g != a]
        diff = [g for g in others if w.ents[g].exec != w.ents[a].exec]
        b = rng.choice(diff if diff and rng.random() < 0.8 else others)
        pb = w.path(b)
        if kind == "file-replace":
            # b takes over a's path (a is removed) and gets new content, its own exec bit untouched
            ops += [{"op": "remove", "path": pa}, {"op": "rename", "src": pb, "dst": pa}, {"op": "edit", "path": pa, "content": content()}]
        else:
            tmp = _free_name(rng, w, parent, names, "file")
            if tmp is None or not ok(tmp):
                return None
            ops += [{"op": "rename", "src": pa, "dst": tmp}, {"op": "rename", "src": pb, "dst": pa}, {"op": "rename", "src": tmp, "dst": pb}]
            ops.append({"op": "edit", "path": rng.choice([pa, pb]), "content": content()})
            if rng.random() < 0.5:
                ops.append({"op": "edit", "path": pb if ops[-1]["path"] == pa else pa, "content": content()})
    return kind, ops


def _apply_motif(rng, wt, names, inside=None, idtag=""):
    """Apply one motif to wt; returns (kind or None, applied ops, clean)."""
    w = gen.world_from_tree(wt)
    try:
        m = _motif(rng, w, names, inside, idtag, path_based=not wt.supports_setting_file_ids())
    except (IndexError, KeyError, ValueError):
        m = None
    if m is None:
        return None, [], True
    kind, ops = m
    done = []
    for op in ops:
        try:
            gen.apply_real(wt, op)
        except Exception:
            return kind, done, False
        done.append(op)
    return kind, done, True


def _replay(wt, ops):
    for op in ops:
        gen.apply_real(wt, op)


def _add_all(wt, counter):
    """Version everything on disk whose parent is versioned (explicit ids on bzr trees)."""
    use_ids = wt.supports_setting_file_ids()
    disk = observe.snap_disk(wt.basedir)
    for q in sorted(disk, key=lambda x: (x.count("/"), x)):
        if wt.is_versioned(q):
            continue
        parent = os.path.dirname(q)
        if use_ids and parent and not wt.is_versioned(parent):
            continue
        if not use_ids and disk[q][0] == "directory":
            continue  # git: directories are versioned through their files
        counter[0] += 1
        if use_ids:
            wt.add([q], ids=[("s%d-%s" % (counter[0], "".join(ch for ch in os.path.basename(q) if ch.isalnum())[:8])).encode()])
        else:
            wt.add([q])


def _commit(wt, name, n, git, **kw):
    kw = dict(kw, timestamp=1600000000 + 10 * n, timezone=0, committer="C17 <c17@example.com>")
    if not git:
        kw["rev_id"] = ("c17-%s" % name).encode()
    return wt.commit("c17 %s" % name, **kw)


def _seed(rng, wt, names, git):
    """BASE: a skeleton with two or three populated top-level directories plus a few random ops, everything versioned."""
    base = wt.basedir
    tops = rng.sample(names.dirs, rng.randint(2, min(3, len(names.dirs))))
    for t in tops:
        os.mkdir(os.path.join(base, t))
        for f in rng.sample(names.files, rng.randint(1, 3)):
            with open(os.path.join(base, t, f), "wb") as fh:
                fh.write(gen.gen_content(rng, hostile=False) or b"seed\n")
            if rng.random() < 0.4:
                os.chmod(os.path.join(base, t, f), 0o755)
        if rng.random() < 0.6:
            sub = rng.choice([d for d in names.dirs if d != t] or names.dirs)
            os.mkdir(os.path.join(base, t, sub))
            with open(os.path.join(base, t, sub, rng.choice(names.files)), "wb") as fh:
                fh.write(gen.gen_content(rng, hostile=False) or b"sub\n")
        if rng.random() < 0.3:
            os.symlink(rng.choice(["f1", "../x", "nowhere"]), os.path.join(base, t, "lnk"))
    for f in rng.sample(names.files, rng.randint(0, 2)):
        with open(os.path.join(base, f), "wb") as fh:
            fh.write(gen.gen_content(rng))
    counter = [0]
    with wt.lock_write():
        _add_all(wt, counter)
    w_base = dict(gen.DEFAULT_WEIGHTS, delete_disk=0, unversion=0)
    _delta(rng, wt, names, rng.randint(0, 6), w_base)
    with wt.lock_write():
        _add_all(wt, counter)
    return _commit(wt, "base", 0, git)


def _tops(snap):
    """Top-level versioned directories that have at least one versioned child."""
    out = []
    for p, v in snap.items():
        if "/" not in p and v[0] == "directory" and any(q.startswith(p + "/") for q in snap):
            out.append(p)
    return sorted(out)


def _rev_snap(branch, revid):
    t = branch.repository.revision_tree(revid)
    return observe.snap_tree(t)


def _inside(top, p):
    return p == top or p.startswith(top + "/")


def _materialize(snap):
    return {p: (v[0], v[1], v[2]) for p, v in snap.items() if v[0] is not None}


def _diff(a, b, limit=5):
    out = []
    for p in sorted(set(a) | set(b)):
        if a.get(p) != b.get(p):
            out.append((p, "got=%r" % (a.get(p),), "want=%r" % (b.get(p),)))
    return out[:limit]


def _nodirs(d):
    return {p: v for p, v in d.items() if v[0] != "directory"}


def _entries(snap):
    """{file_id: (parent_file_id, name, kind, content, exec)} of a snapshot with file ids (None if it has none / missing files)."""
    ids = {"": "ROOT"}
    out = {}
    for p in sorted(snap, key=lambda q: q.count("/")):
        kind, content, ex, fid = snap[p]
        if fid is None or kind is None:
            return None
        ids[p] = fid
        parent, _, name = p.rpartition("/")
        out[fid] = (ids[parent], name, kind, content, ex)
    return out


def _tree_of(entries):
    """The snapshot {path: (kind, content, exec, file_id)} the entry set describes, or None if it is not a tree
    (missing / non-directory parent, two entries with one name in one directory, parent loop)."""
    seen = set()
    paths = {}

    def path(fid, depth=0):
        if fid == "ROOT":
            return ""
        if fid in paths:
            return paths[fid]
        if depth > 40 or fid not in entries:
            return None
        parent, name = entries[fid][0], entries[fid][1]
        if parent != "ROOT" and (parent not in entries or entries[parent][2] != "directory"):
            return None
        pp = path(parent, depth + 1)
        if pp is None:
            return None
        paths[fid] = (pp + "/" + name) if pp else name
        return paths[fid]

    out = {}
    for fid, (parent, name, kind, content, ex) in entries.items():
        if (parent, name) in seen:
            return None
        seen.add((parent, name))
        p = path(fid)
        if p is None:
            return None
        out[p] = (kind, content, ex, fid)
    return out


def _criss_cross(twt, owt, git):
    """Turn the two sprouts of BASE into a criss-cross whose every common ancestor has BASE's tree."""
    _commit(twt, "x1", 1, git, allow_pointless=True)
    x2 = _commit(owt, "x2", 2, git, allow_pointless=True)
    x1 = twt.last_revision()
    with twt.lock_write():
        twt.merge_from_branch(owt.branch, to_revision=x2)
    _commit(twt, "y1", 3, git)
    with owt.lock_write():
        owt.merge_from_branch(twt.branch, to_revision=x1)
    _commit(owt, "y2", 4, git)


def _do_merge(wt, ob, other_rev, mt, driver, uncommitted):
    from breezy.merge import Merger

    if driver == "merge_from_branch":
        with wt.lock_write():
            # force: merge_from_branch's refusal to merge into a changed tree is not the subject here
            return list(wt.merge_from_branch(ob, to_revision=other_rev, merge_type=mt, force=True)), None
    with wt.lock_write():
        merger = Merger.from_revision_ids(wt, other_rev, other_branch=ob)
        merger.merge_type = mt
        cooked = merger.do_merge()
        merger.set_pending()
        return list(cooked), merger


def _git_mechanism(base_tree, this_tree, other_tree, base_snap, this_snap, other_snap):
    """Name the path-pairing mechanism behind a failed law on git trees, by asking the real find_previous_path.

    Merge3Merger._entries3 pairs every entry of OTHER-vs-BASE with a path in THIS through find_previous_path; on
    git trees that is content-similarity rename detection plus a look at the disk.  Only classifies - never judges.
    """
    from breezy import tree as _mod_tree

    try:
        with base_tree.lock_read(), this_tree.lock_read(), other_tree.lock_read():
            image = {}
            for p, v in sorted(base_snap.items()):
                tp = _mod_tree.find_previous_path(base_tree, this_tree, p)
                if tp is None:
                    continue
                if tp not in this_snap:
                    return "unversioned-directory-on-disk" if v[0] == "directory" else "unversioned-path-on-disk"
                if v[0] != "directory":
                    image.setdefault(tp, []).append(p)
            if any(len(ps) > 1 for ps in image.values()):
                return "copy-taken-for-rename"
    except Exception:
        return None
    return None


def _path_reused(base_snap, other_snap):
    """True if some path holds entries of different kinds in BASE and in OTHER while BASE's entry (or, for a directory,
    something below it) lives on at another path of OTHER: OTHER moved an entry away and put another one in its place.
    Path-based trees cannot tell the two entries apart by anything but that (classifier only, never a verdict)."""
    where = {}
    for r, v in other_snap.items():
        if v[0] in ("file", "symlink"):
            where.setdefault(v[:2], set()).add(r)
    for q, b in base_snap.items():
        o = other_snap.get(q)
        if o is None or b[0] is None or o[0] is None or b[0] == o[0]:
            continue
        if b[0] in ("file", "symlink"):
            old = [(q, b[:2])]
        else:
            old = [(x, v[:2]) for x, v in base_snap.items() if x.startswith(q + "/") and v[0] in ("file", "symlink")]
        for x, kc in old:
            if any(r != x and base_snap.get(r, (None, None))[:2] != kc for r in where.get(kc, ())):
                return True
    return False


def case(ctx):
    _cur[0] = ctx
    try:
        _case(ctx)
    finally:
        _cur[0] = None


def _case(ctx):
    from breezy import merge as _mod_merge
    from breezy.branch import Branch
    from breezy.workingtree import PointlessMerge, WorkingTree

    rng = ctx.rng
    names = gen.Names(ctx.tier)
    fmt = "git" if rng.random() < 0.3 else "2a"
    git = fmt == "git"
    law = LAWS[ctx.index % 4] if rng.random() < 0.8 else rng.choice(LAWS)
    criss = (not git or GIT_CRISS_CROSS) and rng.random() < 0.25
    uncommitted = law != "this=base" and rng.random() < 0.45
    pointless_tip = rng.random() < 0.5  # the unchanged side: same revision as BASE, or a new revision with BASE's tree
    by_files = law == "disjoint" and rng.random() < 0.35
    by_ids = law == "disjoint" and not by_files and not git and rng.random() < 0.45
    root = ctx.tmp("c17")
    log = {"law": law, "format": fmt, "criss_cross": criss, "this_uncommitted": uncommitted}
    if law == "disjoint":
        log["disjoint_by"] = "files" if by_files else ("file-ids" if by_ids else "subtrees")
    ctx.info["case"] = log

    # ---- BASE and the two branches
    try:
        bwt = gen.make_tree(os.path.join(root, "base"), fmt)
        base_rev = _seed(rng, bwt, names, git)
        base_snap = _rev_snap(bwt.branch, base_rev)
        tdir, odir = os.path.join(root, "this"), os.path.join(root, "other")
        bwt.branch.controldir.sprout(tdir)
        bwt.branch.controldir.sprout(odir)
        twt, owt = WorkingTree.open(tdir), WorkingTree.open(odir)
        if criss:
            _criss_cross(twt, owt, git)
            twt, owt = WorkingTree.open(tdir), WorkingTree.open(odir)
    except Exception as e:  # workload construction (commit / sprout of a generated tree) is other properties' subject
        ctx.hist("build-refused:base:%s" % type(e).__name__)
        ctx.discard("build-base:%s" % type(e).__name__)
    tops = _tops(base_snap)
    if len(tops) < 2:
        ctx.discard("fewer than two populated top-level directories")
    A, B = rng.sample(tops, 2)
    log["base_paths"] = sorted(base_snap)

    # ---- deltas
    weights = dict(gen.DEFAULT_WEIGHTS)
    w_this = dict(weights)
    if uncommitted and (law == "identical" or git):
        # an uncommitted kind change / missing file makes "THIS's tree" ambiguous for the identical-changes law,
        # and git working trees cannot list such states (C09's subject)
        w_this.update(kindchange=0, delete_disk=0)
    n1 = rng.randint(1, 6)
    n2 = rng.randint(1, 6)
    ops1 = ops2 = []
    # structured sequences (path reuse: directory re-created / swapped, file renamed onto a vacated path) lead the delta
    m1, m2 = rng.random() < (0.6 if git else 0.45), rng.random() < (0.6 if git else 0.45)
    mlog = []
    log["motifs"] = mlog
    try:
        if law == "other=base":
            ops1, _ = _delta(rng, twt, names, n1, w_this, motif=m1, motif_log=mlog)
        elif law == "this=base":
            ops2, _ = _delta(rng, owt, names, n2, weights, motif=m2, motif_log=mlog)
        elif law == "identical":
            ops1, clean = _delta(rng, twt, names, n1, w_this, motif=m1, motif_log=mlog)
            if not clean:
                ctx.discard("identical: an op was refused half-way")
            _replay(owt, ops1)
            ops2 = ops1
        elif by_files:
            # disjoint sets of *files* anywhere in the tree: no structural ops, the second delta avoids the first one's paths
            ops1, _ = _delta(rng, twt, names, n1, W_FILES, idtag="t-")
            ops2, _ = _delta(rng, owt, names, n2, W_FILES, idtag="o-", avoid={p for o in ops1 for p in _op_paths(o)})
        elif by_ids:
            # disjoint sets of *entries* (file ids) anywhere in the tree, paths may overlap: THIS restructures (renames, swaps,
            # re-created directories, new entries), OTHER edits / chmods / renames in place / adds below the same directories
            ops1, _ = _delta(rng, twt, names, n1, W_RESTRUCTURE, idtag="t-", motif=True, motif_log=mlog)
            with twt.lock_write():
                _add_all(twt, [5000])
            # OTHER keeps away from the entries THIS changed (their BASE paths are still OTHER's paths)
            et_now = _entries(observe.snap_tree(twt)) or {}
            eb_now = _entries(base_snap) or {}
            taken = {p for p, v in base_snap.items() if et_now.get(v[3]) != eb_now.get(v[3])}
            ops2, _ = _delta(rng, owt, names, n2, W_TOUCH, idtag="o-", avoid=taken, motif_log=mlog)
        else:
            log["A"], log["B"] = A, B
            ops1, _ = _delta(rng, twt, names, n1, w_this, inside=A, idtag="t-", motif=m1, motif_log=mlog)
            ops2, _ = _delta(rng, owt, names, n2, weights, inside=B, idtag="o-", motif=m2, motif_log=mlog)
        log["ops_this"] = [gen.op_json(o) for o in ops1]
        log["ops_other"] = [gen.op_json(o) for o in ops2]
        n = 5
        if ops1 and not uncommitted:
            _commit(twt, "this", n, git)
        elif law == "this=base" and pointless_tip:
            _commit(twt, "this-same", n, git, allow_pointless=True)
        if ops2:
            _commit(owt, "other", n + 1, git)
        elif law == "other=base" and pointless_tip:
            _commit(owt, "other-same", n + 1, git, allow_pointless=True)
    except Discard:
        raise
    except Exception as e:  # e.g. commit of a generated delta refused or failing: C01 / C09 / C10 judge that, not this check
        ctx.hist("build-refused:delta:%s" % type(e).__name__)
        ctx.discard("build-delta:%s:%s" % (law, type(e).__name__))
    ob = Branch.open(odir)
    other_rev = ob.last_revision()
    try:
        other_snap = _rev_snap(ob, other_rev)
        twt = WorkingTree.open(tdir)
        this_snap = observe.snap_tree(twt)
        this_disk = observe.snap_disk(tdir)
    except OSError as e:
        ctx.discard("snapshot:%s" % type(e).__name__)

    # ---- the law's precondition, by observation
    base_disk = _materialize(base_snap)
    if law == "other=base":
        pre = other_snap == base_snap
    elif law == "this=base":
        pre = this_snap == base_snap and _nodirs(this_disk) == _nodirs(_materialize(base_snap))
    elif law == "identical":
        pre = this_snap == other_snap
    elif by_ids:
        eb, et, eo = _entries(base_snap), _entries(this_snap), _entries(other_snap)
        merged = {}
        pre = eb is not None and et is not None and eo is not None and set(this_disk) == set(_materialize(this_snap))
        if not pre:
            ctx.hist("ids-precondition:missing-or-unversioned-in-this")
        if pre:
            for fid in set(eb) | set(et) | set(eo):
                b, t, o = eb.get(fid), et.get(fid), eo.get(fid)
                if t != b and o != b:
                    pre = False  # the same entry changed on both sides
                    ctx.hist("ids-precondition:entry-changed-on-both-sides")
                    break
                v = o if t == b else t
                if v is not None:
                    merged[fid] = v
        want_by_ids = _tree_of(merged) if pre else None
        if pre and want_by_ids is None:
            ctx.hist("ids-precondition:union-is-not-a-tree")
        pre = want_by_ids is not None
    elif by_files:
        allp = set(this_snap) | set(other_snap) | set(base_snap)
        changed_o = {p for p in allp if other_snap.get(p) != base_snap.get(p)}
        pre = (all(this_snap.get(p) == base_snap.get(p) for p in changed_o)           # no path changed on both sides
               and all(this_disk.get(p) == base_disk.get(p) for p in changed_o))      # nor occupied by unversioned files of THIS
    else:
        pre = (all(this_snap.get(p) == base_snap.get(p) for p in set(this_snap) | set(base_snap) if not _inside(A, p))
               and all(other_snap.get(p) == base_snap.get(p) for p in set(other_snap) | set(base_snap) if not _inside(B, p))
               and all(_inside(A, p) or v == base_disk.get(p) or (git and v[0] == "directory") for p, v in this_disk.items()))
    if not pre:
        ctx.discard("precondition-not-met:%s" % law)

    # ---- what the law prescribes
    if law in ("other=base", "identical"):
        want_tree, want_disk = this_snap, this_disk
    elif law == "this=base":
        want_tree, want_disk = other_snap, _materialize(other_snap)
    elif by_ids:
        want_tree, want_disk = want_by_ids, _materialize(want_by_ids)
    elif by_files:
        want_tree, want_disk = dict(this_snap), dict(this_disk)
        for p in changed_o:
            want_tree.pop(p, None)
            want_disk.pop(p, None)
            if p in other_snap:
                want_tree[p] = other_snap[p]
                want_disk[p] = other_snap[p][:3]
    else:
        want_tree = {p: v for p, v in this_snap.items() if not _inside(B, p)}
        want_tree.update({p: v for p, v in other_snap.items() if _inside(B, p)})
        want_disk = {p: v for p, v in this_disk.items() if not _inside(B, p)}
        want_disk.update({p: v for p, v in _materialize(other_snap).items() if _inside(B, p)})
    nontrivial = bool(ops1 and ops2) if law == "disjoint" else bool(ops1 or ops2)
    kinds1 = [o["op"] for o in ops1]
    kinds2 = [o["op"] for o in ops2]
    for k in set(kinds1 + kinds2):
        ctx.hist("op:" + k)
    for k in mlog:
        ctx.hist("motif:%s:%s" % (law, k))
        if not k.endswith(":refused"):
            ctx.count("motif:" + k)
    ctx.hist("shape:%s%s%s" % (fmt, ":criss-cross" if criss else "", ":uncommitted" if uncommitted else ""))

    mergers = MERGERS if not git else MERGERS[:1]
    for mname in mergers:
        mt = getattr(_mod_merge, mname)
        mdir = os.path.join(root, "m-" + mname)
        shutil.copytree(tdir, mdir, symlinks=True)
        wt = WorkingTree.open(mdir)
        driver = "merge_from_branch" if rng.random() < 0.35 else "from_revision_ids"
        detail = dict(log, merger=mname, driver=driver)
        ctx.count("law:" + law)
        ctx.hist("merge:%s%s:%s:%s" % (law, "-files" if by_files else ("-ids" if by_ids else ""), mname, fmt))
        try:
            cooked, _merger = _do_merge(wt, ob, other_rev, mt, driver, uncommitted)
        except PointlessMerge:
            # documented refusal of merge_from_branch when OTHER's revision is the base revision itself
            ctx.hist("refused:PointlessMerge")
            ctx.check(driver == "merge_from_branch" and other_rev == base_rev, "pointless-merge:unexpected",
                      "PointlessMerge for law %s via %s although OTHER has its own revision" % (law, driver), detail)
            cooked = []
        wt = WorkingTree.open(mdir)
        got_tree = observe.snap_tree(wt)
        got_disk = observe.snap_disk(mdir)
        confl = list(wt.conflicts())
        tag = "%s:%s" % (law, ("git-lca" if criss else "git") if git else ("lca" if criss else "bzr"))
        failures = []
        ctx.count("oracle_conflicts")
        if confl or cooked:
            allc = list(confl) + list(cooked)
            what = sorted({getattr(c, "typestring", type(c).__name__) for c in allc})[0].replace(" ", "-")
            if git and not confl and all(this_snap.get(c.path, (None,))[0] == "directory" and other_snap.get(c.path, (None,))[0] == "directory"
                                         and c.path not in base_snap for c in allc):
                # every reported path is a directory that both sides have and BASE has not (renamed / created identically on both sides)
                what = "directory-new-on-both-sides"
            failures.append(("conflicts", what, "law %s: merge reported conflicts %r (returned %r)" % (law, confl, cooked)))
        ctx.count("oracle_tree")
        if got_tree != want_tree:
            what = "paths" if set(got_tree) != set(want_tree) else (
                "ids" if observe.strip_ids(got_tree) == observe.strip_ids(want_tree) else
                "exec" if {p: v[:2] for p, v in got_tree.items()} == {p: v[:2] for p, v in want_tree.items()} else "content")
            failures.append(("tree", what, "law %s: tree after merge differs: %r" % (law, _diff(got_tree, want_tree))))
        ctx.count("oracle_disk")
        gd, wd = (got_disk, want_disk) if not git else (_nodirs(got_disk), _nodirs(want_disk))
        if gd != wd:
            extra = sorted(set(gd) - set(wd))
            helpers = [p for p in extra if p.endswith(SUFFIXES) or re.search(r"\.~\d+~$", p)]
            what = "helper-files" if helpers else ("extra-files" if extra else ("missing-files" if set(wd) - set(gd) else "content"))
            failures.append(("disk", what, "law %s: disk after merge differs: %r" % (law, _diff(gd, wd))))
        if failures:
            mech = None
            if git and _path_reused(base_snap, other_snap):
                mech = "path-names-different-entries"
            elif git:
                mech = _git_mechanism(bwt.branch.repository.revision_tree(base_rev), WorkingTree.open(tdir),
                                      ob.repository.revision_tree(other_rev), base_snap, this_snap, other_snap)
            for oracle, what, msg in failures:
                ctx.fail("%s:%s:%s" % (oracle, tag, mech or what), msg, detail)
        ctx.distinct("result-tree", sorted((p, repr(v)) for p, v in got_tree.items()))
        ctx.note((law, fmt, criss, uncommitted, mname, kinds1, kinds2, sorted((p, repr(v[:3])) for p, v in want_tree.items())),
                 nontrivial=nontrivial,
                 sample={"law": law, "format": fmt, "criss_cross": criss, "this_uncommitted": uncommitted, "merger": mname, "driver": driver,
                         "ops_this": log.get("ops_this", [])[:6], "ops_other": log.get("ops_other", [])[:6],
                         "result_paths": sorted(got_tree)[:20]} if mname == "Merge3Merger" else None)
