"""Shared machinery of C29 / C30: MWire message generator, wire taps (I6) and
drivers that push the bytes written by the REAL smart-protocol encoders through
the REAL decoders / media.

Nothing here decides a verdict by re-implementing the codec: the model (MWire)
is just the generated value ("what was put in must come out"); the byte layout
is only looked at to choose cut points for the segmentations.

Vocabulary
  exchange  one request + the response the harness verb answers with
  R / S     bytes of the encoded request / response (as written by the real
            client / server encoder into a recorder)
  E         extra bytes appended after a message (must come back as unused)
"""
import sys

from breezy import errors as berrors
from breezy import transport as _mod_transport
from breezy.bzr.smart import client as CL
from breezy.bzr.smart import medium as M
from breezy.bzr.smart import message as MSG
from breezy.bzr.smart import protocol as P
from breezy.bzr.smart import request as RQ
from breezy.bzr.smart import vfs
from dromedary import errors as te

VERB_NOBODY = b"vf.echo"      # do() answers at once (request carries no body)
VERB_BODY = b"vf.echob"       # do() returns None: a body / end-of-message is awaited
VERB_UNKNOWN = b"vf.nosuch"   # not registered: the server must answer "unknown method"

V1_ERROR_CODES = [b"norepository", b"NoSuchFile", b"FileExists", b"DirectoryNotEmpty", b"ShortReadvError",
                  b"ReadOnlyError", b"nobranch", b"NoSuchRevision", b"LockContention", b"TokenMismatch",
                  b"ReadError", b"PermissionDenied"]

# exceptions a response body stream may raise (v3) -> tuple the client must see.
# validated against the real request._translate_error in install() (entries that
# do not translate as listed are dropped: that is a harness assumption, not a verdict)
_EXC = {
    "NoSuchFile": (lambda: te.NoSuchFile("some/path"), (b"NoSuchFile", b"some/path")),
    "LockContention": (lambda: berrors.LockContention("lock"), (b"LockContention",)),
    "TokenMismatch": (lambda: berrors.TokenMismatch(b"given", b"lock"), (b"TokenMismatch", b"given", b"lock")),
    "MemoryError": (lambda: MemoryError(), (b"MemoryError",)),
}
EXC = {}

ADVERSARIAL = [b"done\n", b"END\n", b"ERR\n", b"chunked\n", b"0\n", b"e", b"oS", b"oE", b"s\0\0\0\x02le", b"\n", b"\n\n",
               b"success\n", b"failed\n", P.REQUEST_VERSION_TWO, P.RESPONSE_VERSION_TWO, P.MESSAGE_VERSION_THREE,
               b"\x01", b"\0\0\0\0", b"\xff\xff\xff\xff", b"b\0\0\0\x01", b"ffff\n", b"10\n", b"1,2\n3,4"]


class StreamBoom(Exception):
    """Raised by a request body stream the harness hands to the real client encoder."""


# --------------------------------------------------------------------------
# harness verbs + observers (installed once per process)

_CUR = [None]        # the Expect object of the request being decoded right now
_DECODERS = []       # body decoders constructed by the code under test since last reset
_installed = [False]


class Expect:
    """What the server side observed while decoding one request."""

    def __init__(self, x):
        self.x = x
        self.calls = []       # ("do", args) ("chunk", bytes) ("body", bytes) ("post_error", args)
        self.responses = 0

    def make_response(self):
        self.responses += 1
        x = self.x
        kind = x["rbody"][0]
        body = stream = None
        if kind == "bytes":
            body = x["rbody"][1]
        elif kind == "stream":
            stream = iter(list(x["rbody"][1]))
        elif kind == "stream_err":
            stream = _err_stream(x["rbody"])
        cls = RQ.SuccessfulSmartServerResponse if x["ok"] else RQ.FailedSmartServerResponse
        return cls(x["rargs"], body, stream)


def _err_stream(rbody):
    _, chunks, form, spec = rbody
    for c in chunks:
        yield c
    if form == "failed":
        yield RQ.FailedSmartServerResponse(spec)
    else:
        raise EXC[spec][0]()


def install():
    """Register the two harness verbs and the observers. Idempotent."""
    if _installed[0]:
        return
    _installed[0] = True

    class _Echo(RQ.SmartServerRequest):
        expects_body = False

        def do(self, *args):
            cur = _CUR[0]
            cur.calls.append(("do", args))
            if self.expects_body:
                return None
            return cur.make_response()

        def do_chunk(self, chunk_bytes):
            _CUR[0].calls.append(("chunk", chunk_bytes))
            RQ.SmartServerRequest.do_chunk(self, chunk_bytes)

        def do_body(self, body_bytes):
            cur = _CUR[0]
            if not self.expects_body:
                # v3 calls do_end() on every verb; a body-less verb sees b"" and answers nothing new
                cur.calls.append(("end_body", body_bytes))
                return RQ.SmartServerRequest.do_body(self, body_bytes)
            cur.calls.append(("body", body_bytes))
            return cur.make_response()

    class _EchoBody(_Echo):
        expects_body = True

    RQ.request_handlers.register(VERB_NOBODY, _Echo, info="read")
    RQ.request_handlers.register(VERB_BODY, _EchoBody, info="read")

    orig_post = RQ.SmartServerRequestHandler.post_body_error_received

    def post_body_error_received(self, error_args):
        if _CUR[0] is not None:
            _CUR[0].calls.append(("post_error", error_args))
        return orig_post(self, error_args)

    RQ.SmartServerRequestHandler.post_body_error_received = post_body_error_received

    # observers for body decoders created inside read_body_bytes / read_streamed_body
    base_lp, base_ch = P.LengthPrefixedBodyDecoder, P.ChunkedBodyDecoder

    class LPD(base_lp):
        def __init__(self):
            base_lp.__init__(self)
            _DECODERS.append(self)

    class CBD(base_ch):
        def __init__(self):
            base_ch.__init__(self)
            _DECODERS.append(self)

    LPD.__name__ = LPD.__qualname__ = "LengthPrefixedBodyDecoder"
    CBD.__name__ = CBD.__qualname__ = "ChunkedBodyDecoder"
    P.LengthPrefixedBodyDecoder = LPD
    P.ChunkedBodyDecoder = CBD

    for name, (ctor, tup) in _EXC.items():
        try:
            if tuple(RQ._translate_error(ctor())) == tup:
                EXC[name] = (ctor, tup)
        except Exception:
            pass


_transport = [None]


def backing():
    if _transport[0] is None:
        _transport[0] = _mod_transport.get_transport_from_url("memory:///")
    return _transport[0]


# --------------------------------------------------------------------------
# MWire generator

def _blob(rng, n):
    """n bytes: random, or built from protocol-looking fragments."""
    if n == 0:
        return b""
    m = rng.random()
    if m < 0.5:
        return rng.randbytes(n)
    if m < 0.6:
        return bytes([rng.choice(b"\n\x01e0")]) * n
    out = []
    tot = 0
    while tot < n:
        f = rng.choice(ADVERSARIAL) if rng.random() < 0.7 else rng.randbytes(rng.randint(1, 9))
        out.append(f)
        tot += len(f)
    return b"".join(out)[:n]


def _body_size(rng, big_p):
    r = rng.random()
    if r < big_p:
        return rng.choice([65535, 65536, 65537, 65531, 65541, 65536 - 6, 65536 + 5, 66000, 69999, 70000,
                           rng.randint(60000, 70000)])
    r = rng.random()
    if r < 0.12:
        return 0
    if r < 0.22:
        return 1
    if r < 0.6:
        return rng.randint(2, 50)
    if r < 0.93:
        return rng.randint(51, 3000)
    return rng.randint(3001, 20000)


def _arg12(rng):
    """One argument in the v1/v2 domain (no \\x01, no \\n)."""
    r = rng.random()
    if r < 0.12:
        return b""
    if r < 0.4:
        return rng.choice([b"ok", b"done", b"END", b"ERR", b"chunked", b"success", b"failed", b"123", b"0", b"ffff",
                           b"bzr request 2", b"bzr message 3 (bzr 1.6)", b"error", b"e", b"\r", b"a b", b"\xc3\xa9", b"\0"])
    n = rng.randint(1, 30)
    return bytes(b for b in rng.randbytes(n) if b not in (1, 10)) or b"x"


def _arg3(rng, depth=0):
    r = rng.random()
    if r < 0.45:
        return _arg12(rng)
    if r < 0.65:
        return _blob(rng, rng.randint(0, 40))
    if r < 0.8:
        return rng.choice([0, 1, -1, 7, 255, 256, 65536, 2 ** 31, 2 ** 32, -2 ** 40, 10 ** 20, rng.randint(-10 ** 6, 10 ** 6)])
    if depth < 2:
        return tuple(_arg3(rng, depth + 1) for _ in range(rng.randint(0, 3)))
    return b"deep"


def _args(rng, v, lo=0):
    n = rng.randint(lo, 4)
    if v == 3:
        return tuple(_arg3(rng) for _ in range(n))
    return tuple(_arg12(rng) for _ in range(n))


def _chunks(rng, big_p):
    n = rng.randint(0, 5)
    out = []
    for _ in range(n):
        r = rng.random()
        if r < 0.2:
            out.append(b"")
        elif r < big_p + 0.2:
            out.append(_blob(rng, _body_size(rng, 1.0)))
        else:
            out.append(_blob(rng, rng.randint(1, 300)))
    return out


def _extra(rng):
    r = rng.random()
    if r < 0.25:
        return b""
    if r < 0.6:
        return rng.randbytes(rng.randint(1, 20))
    return (rng.choice(ADVERSARIAL) + rng.randbytes(rng.randint(0, 6)))[:20]


def gen_exchange(rng, big_p=0.06, allow_extra=True):
    """One exchange of the MWire grammar (see DESIGN C29)."""
    v = rng.choice([1, 2, 3])
    x = {"v": v, "headers": None}
    # ---- request
    kinds = ["none", "bytes", "readv"] + (["stream", "stream_err"] if v == 3 else [])
    qk = rng.choice(kinds)
    unknown = rng.random() < 0.06
    if unknown and v < 3:
        qk = "none"      # a v1/v2 server cannot skip the body of a verb it does not know
    if qk == "none":
        x["qbody"] = ("none",)
    elif qk == "bytes":
        x["qbody"] = ("bytes", _blob(rng, _body_size(rng, big_p)))
    elif qk == "readv":
        n = rng.choice([0, 1, 2, 3, rng.randint(4, 30), rng.randint(4, 30)] + ([rng.randint(100, 6000)] if rng.random() < big_p * 3 else []))
        x["qbody"] = ("readv", [(rng.choice([0, rng.randint(0, 99), rng.randint(0, 2 ** 40)]), rng.choice([0, 1, rng.randint(0, 70000)]))
                                for _ in range(n)])
    elif qk == "stream":
        x["qbody"] = ("stream", _chunks(rng, big_p))
    else:
        x["qbody"] = ("stream_err", _chunks(rng, big_p))
    if unknown:
        x["verb"] = VERB_UNKNOWN
    elif qk == "none" and (v < 3 or rng.random() < 0.7):
        x["verb"] = VERB_NOBODY
    else:
        x["verb"] = VERB_BODY
    x["known"] = not unknown
    x["args"] = _args(rng, v)
    if v == 3:
        x["headers"] = {rng.choice([b"Software version", b"k", b"", b"x\ny"]) + bytes([97 + i]): _blob(rng, rng.randint(0, 12))
                        for i in range(rng.choice([0, 1, 1, 3]))}
    # ---- response
    x["ok"] = rng.random() < 0.8
    if x["ok"]:
        rkinds = ["none", "bytes"] + (["stream", "stream_err"] if v >= 2 else [])
        rk = rng.choice(rkinds)
        x["rargs"] = _args(rng, v, lo=1 if v < 3 else 0)
        if v == 1 and x["rargs"][0] in V1_ERROR_CODES + [b"error"]:
            x["rargs"] = (b"ok",) + x["rargs"][1:]
    else:
        rk = "none"
        x["rargs"] = _args(rng, v, lo=1)
        if v == 1:
            x["rargs"] = (rng.choice(V1_ERROR_CODES),) + x["rargs"][1:]
        elif x["rargs"][0] in (b"UnknownMethod", b"error"):
            x["rargs"] = (b"SomeError",) + x["rargs"][1:]
    if rk == "none":
        x["rbody"] = ("none",)
    elif rk == "bytes":
        x["rbody"] = ("bytes", _blob(rng, _body_size(rng, big_p)))
    elif rk == "stream":
        x["rbody"] = ("stream", _chunks(rng, big_p))
    else:
        chunks = _chunks(rng, big_p)
        if v == 3 and EXC and rng.random() < 0.4:
            x["rbody"] = ("stream_err", chunks, "exc", rng.choice(sorted(EXC)))
        else:
            ea = _args(rng, v, lo=1)
            if ea[0] == b"UnknownMethod":
                ea = (b"E",) + ea[1:]
            x["rbody"] = ("stream_err", chunks, "failed", ea)
    # does the calling code expect a body? (decided before the response is seen)
    if x["ok"] and rk != "none":
        x["expect_body"] = True
    else:
        x["expect_body"] = rng.random() < 0.4
    x["eq"] = _extra(rng) if allow_extra else b""
    x["er"] = _extra(rng) if allow_extra else b""
    return x


def expected_response(x):
    """MWire: what the client side must observe."""
    if not x["known"]:
        return {"status": "unknown", "args": x["verb"]}
    if not x["ok"]:
        return {"status": "error", "args": x["rargs"]}
    e = {"status": "ok", "args": x["rargs"]}
    rb = x["rbody"]
    if rb[0] == "bytes":
        e["body"] = rb[1]
    elif rb[0] == "stream":
        e["chunks"] = list(rb[1])
        e["stream_err"] = None
    elif rb[0] == "stream_err":
        e["chunks"] = list(rb[1])
        e["stream_err"] = rb[3] if rb[2] == "failed" else EXC[rb[3]][1]
    return e


def shape(x):
    """Small JSON-able description (signature / sample)."""
    def b(body):
        k = body[0]
        if k == "none":
            return "none"
        if k == "bytes":
            return "bytes:%d" % len(body[1])
        if k == "readv":
            return "readv:%d" % len(body[1])
        if k == "stream":
            return "stream:" + ",".join(str(len(c)) for c in body[1])
        return "stream_err@" + ",".join(str(len(c)) for c in body[1]) + (":" + body[2] if len(body) > 2 else "")
    return {"v": x["v"], "verb": x["verb"].decode(), "nargs": len(x["args"]), "req_body": b(x["qbody"]),
            "ok": x["ok"], "nrargs": len(x["rargs"]), "resp_body": b(x["rbody"]), "expect_body": x["expect_body"],
            "E": [len(x["eq"]), len(x["er"])]}


def shape_class(x):
    """Coarse class for histograms."""
    return "v%d %s>%s%s" % (x["v"], x["qbody"][0], x["rbody"][0] if x["known"] and x["ok"] else ("unknown" if not x["known"] else "failed"), "")


# --------------------------------------------------------------------------
# wire taps

class Recorder:
    """File-like sink that remembers every write (piece boundaries = structure)."""

    def __init__(self):
        self.pieces = []
        self.dirty = False
        self.closed = False
        self.flushes = 0

    def write(self, b):
        self.pieces.append(bytes(b))
        self.dirty = True
        return len(b)

    def flush(self):
        self.flushes += 1
        self.dirty = False

    def close(self):
        self.closed = True

    def size(self):
        return sum(len(p) for p in self.pieces)

    def value(self):
        return b"".join(self.pieces)

    def bounds(self):
        out, c = [], 0
        for p in self.pieces:
            c += len(p)
            out.append(c)
        return out


def tap_v3_encoder(enc, sink):
    """Record the length of every piece a _ProtocolThreeEncoder emits (observer)."""
    orig = enc._write_func

    def _write_func(b):
        sink.append(len(b))
        return orig(b)

    enc._write_func = _write_func


class FakeSock:
    """Socket stand-in: recv() hands out the prepared segments (never more than asked)."""

    def __init__(self, data, sizes, lockstep_ends=None):
        self.data = data
        self.sizes = list(sizes)
        self.pos = 0
        self.si = 0
        self.sent = Recorder()
        self.closed = False
        self.eof_reads = 0
        self.sent_at_first_eof = None
        self.lockstep_ends = lockstep_ends   # message end offsets, or None = everything available
        self.released = 1                    # number of messages made available (lockstep)
        self.blocked = []                    # recv() calls that would have blocked for ever
        self.carry = 0

    def setblocking(self, flag):
        pass

    def getpeername(self):
        return ("vf", 0)

    def _limit(self):
        if self.lockstep_ends is None:
            return len(self.data)
        k = min(self.released, len(self.lockstep_ends))
        return self.lockstep_ends[k - 1]

    def recv(self, n):
        if self.pos >= len(self.data):
            self.eof_reads += 1
            if self.sent_at_first_eof is None:
                self.sent_at_first_eof = self.sent.size()
            return b""
        lim = self._limit()
        if self.pos >= lim:
            # nothing more will arrive before the response is complete: a real server hangs here
            self.blocked.append(self.pos)
            self.released += 1
            lim = self._limit()
        if self.carry:
            sz = self.carry
            self.carry = 0
        elif self.si < len(self.sizes):
            sz = self.sizes[self.si]
            self.si += 1
        else:
            sz = len(self.data) - self.pos
        take = max(1, min(sz, n, lim - self.pos))
        if take < sz:
            self.carry = sz - take
        d = self.data[self.pos:self.pos + take]
        self.pos += take
        return d

    def send(self, view):
        b = bytes(view)
        self.sent.write(b)
        return len(b)

    def close(self):
        self.closed = True


class StingyIn:
    """Pipe stand-in.  read(n) checks n against what is left of the CURRENT message,
    then returns between 1 and n bytes.  Never raises (the serving loop would swallow it)."""

    def __init__(self, msgs, rng, mode, boundary_hook=None):
        self.data = b"".join(msgs)
        self.ends = []
        c = 0
        for m in msgs:
            c += len(m)
            self.ends.append(c)
        self.pos = 0
        self.rng = rng
        self.mode = mode
        self.reads = 0
        self.eof_reads = 0
        self.over = []       # (asked, remaining, message index, offset in message)
        self.bad = []        # read(n<=0)
        self.hook = boundary_hook
        self.k = 0
        self.max_slack = None

    def read(self, n=-1):
        self.reads += 1
        if self.pos >= len(self.data):
            if self.eof_reads == 0 and self.hook:
                self.hook(len(self.ends))
            self.eof_reads += 1
            return b""
        while self.pos >= self.ends[self.k]:
            self.k += 1
        start = self.ends[self.k - 1] if self.k else 0
        if self.pos == start and self.k and self.hook:
            self.hook(self.k)
        rem = self.ends[self.k] - self.pos
        if n is None or n <= 0:
            self.bad.append((n, rem, self.k, self.pos - start))
            return b""
        if n > rem:
            if len(self.over) < 5:
                self.over.append((n, rem, self.k, self.pos - start))
            else:
                self.over.append(None)
            n = rem
        m = self.mode
        if m == "full":
            take = n
        elif m == "one":
            take = 1 if n < 600 else self.rng.randint(1, min(n, 8192))
        elif m == "rand":
            take = self.rng.randint(1, n)
        else:
            r = self.rng.random()
            take = 1 if r < 0.3 else n if r < 0.5 else n - 1 if (r < 0.6 and n > 1) else self.rng.randint(1, n)
        d = self.data[self.pos:self.pos + take]
        self.pos += take
        return d

    def close(self):
        pass


# --------------------------------------------------------------------------
# segmentations

def structural_bounds(data, pieces_bounds):
    """Cut candidates: encoder piece boundaries, every position after a newline near the
    head and the tail, 64 KiB multiples."""
    n = len(data)
    b = {p for p in pieces_bounds if 0 < p <= n}
    head = data[:300]
    i = head.find(b"\n")
    while i != -1:
        b.add(i + 1)
        i = head.find(b"\n", i + 1)
    tail_off = max(0, n - 40)
    tail = data[tail_off:]
    i = tail.find(b"\n")
    while i != -1:
        b.add(tail_off + i + 1)
        i = tail.find(b"\n", i + 1)
    for k in range(65536, n, 65536):
        b.add(k)
    b.add(n)
    return sorted(b)


def seg_struct(total, bounds):
    cuts = sorted({c for p in bounds for c in (p - 1, p, p + 1) if 0 < c < total})
    sizes, last = [], 0
    for c in cuts:
        sizes.append(c - last)
        last = c
    sizes.append(total - last)
    return [s for s in sizes if s > 0]


def seg_one(rng, total, bounds):
    if total <= 4096:
        return [1] * total
    hot = bytearray(total + 1)
    for p in list(bounds) + [0, total]:
        for c in range(max(0, p - (300 if p in (0, total) else 10)), min(total, p + (300 if p in (0, total) else 10)) + 1):
            hot[c] = 1
    sizes, pos = [], 0
    while pos < total:
        if hot[pos]:
            sizes.append(1)
            pos += 1
        else:
            nxt = pos
            lim = min(total, pos + rng.randint(1, 8192))
            while nxt < lim and not hot[nxt]:
                nxt += 1
            sizes.append(nxt - pos)
            pos = nxt
    return sizes


def seg_random(rng, total):
    mode = rng.choice(["tiny", "small", "wide", "mixed"])
    sizes, pos = [], 0
    while pos < total:
        if mode == "tiny":
            s = rng.randint(1, 3) if total < 6000 else rng.randint(1, 400)
        elif mode == "small":
            s = rng.randint(1, 64) if total < 20000 else rng.randint(1, 2000)
        elif mode == "wide":
            s = rng.randint(1, max(1, total))
        else:
            s = rng.choice([1, 2, 5, rng.randint(1, 100), rng.randint(1, 70000)])
        s = min(s, total - pos)
        sizes.append(s)
        pos += s
    return sizes


def segmentations(rng, data, bounds):
    total = len(data)
    return [("all", [total] if total else []), ("one", seg_one(rng, total, bounds)),
            ("random", seg_random(rng, total)), ("struct", seg_struct(total, bounds))]


def cap(sizes, mx=65536):
    out = []
    for s in sizes:
        while s > mx:
            out.append(mx)
            s -= mx
        if s:
            out.append(s)
    return out


# --------------------------------------------------------------------------
# encoders (real client stack / real server stack writing into recorders)

def _client_stack(x, med):
    cl = CL._SmartClient(med, headers=x["headers"] if x["headers"] is not None else None)
    qb = x["qbody"]
    kw = {}
    if qb[0] == "bytes":
        kw["body"] = qb[1]
    elif qb[0] == "readv":
        kw["readv_body"] = list(qb[1])
    elif qb[0] == "stream":
        kw["body_stream"] = iter(list(qb[1]))
    elif qb[0] == "stream_err":
        kw["body_stream"] = _boom_stream(qb[1])
    creq = CL._SmartClientRequest(cl, x["verb"], x["args"], expect_response_body=x["expect_body"], **kw)
    enc, handler = creq._construct_protocol(x["v"])
    return creq, enc, handler


def _boom_stream(chunks):
    for c in chunks:
        yield c
    raise StreamBoom()


def _send(creq, enc):
    try:
        creq._send_no_retry(enc)
    except StreamBoom:
        pass


def encode_request(x):
    """Real client encoder -> (R, piece boundaries)."""
    rec = Recorder()
    med = M.SmartSimplePipesClientMedium(None, rec, "vf://wire/")
    creq, enc, _ = _client_stack(x, med)
    lens = []
    if x["v"] == 3:
        tap_v3_encoder(enc, lens)
    _send(creq, enc)
    data = rec.value()
    if x["v"] == 3:
        b, c = [], 0
        for n in lens:
            c += n
            b.append(c)
    else:
        b = rec.bounds()
    return data, b, rec


# --------------------------------------------------------------------------
# server-side judge

def judge_request(x, exp, fail, tag):
    """Compare what the harness verb saw with what was generated."""
    calls = exp.calls
    dos = [c[1] for c in calls if c[0] == "do"]
    chunks = [c[1] for c in calls if c[0] == "chunk"]
    bodies = [c[1] for c in calls if c[0] == "body"]
    posts = [c[1] for c in calls if c[0] == "post_error"]
    d = {"shape": shape(x), "driver": tag}
    if not x["known"]:
        if dos or bodies:
            fail("request:unknown-verb-dispatched", "a handler ran for an unregistered verb", d)
        return
    if len(dos) != 1:
        fail("request:not-dispatched-exactly-once", "do() called %d times" % len(dos), d)
        return
    if tuple(dos[0]) != tuple(x["args"]):
        fail("request:args-differ", "decoded %r != encoded %r" % (dos[0], x["args"]), d)
    qb = x["qbody"]
    if x["verb"] == VERB_NOBODY:
        ends = [c[1] for c in calls if c[0] == "end_body"]
        if bodies or chunks or any(ends):
            fail("request:phantom-body", "body delivered for a body-less request", d)
    elif len(bodies) != 1:
        fail("request:body-not-delivered-exactly-once", "do_body() called %d times" % len(bodies), d)
    else:
        got = bodies[0]
        if qb[0] == "none":
            want = b""
        elif qb[0] == "bytes":
            want = qb[1]
        elif qb[0] == "readv":
            want = None
            try:
                offs = vfs.ReadvRequest._deserialise_offsets(None, got)
            except Exception as e:
                offs = repr(e)
            if offs != [tuple(o) for o in qb[1]]:
                fail("request:readv-offsets-differ", "decoded %r != encoded %r" % (str(offs)[:200], str(qb[1])[:200]), d)
        else:
            want = b"".join(qb[1])
        if want is not None and got != want:
            fail("request:body-differs", "decoded body len %d != encoded len %d (first diff at %s)" % (len(got), len(want), _first_diff(got, want)), d)
        if x["v"] == 3 and qb[0] in ("stream", "stream_err", "bytes"):
            wantc = list(qb[1]) if qb[0] != "bytes" else [qb[1]]
            if chunks != wantc:
                fail("request:stream-chunks-differ", "decoded chunk sizes %r != encoded %r" % ([len(c) for c in chunks], [len(c) for c in wantc]), d)
        if b"".join(chunks) != got:
            fail("request:chunks-vs-body-differ", "chunks delivered to do_chunk do not add up to the body", d)
    if qb[0] == "stream_err":
        if posts != [(b"error",)]:
            fail("request:stream-error-lost", "post-body error seen by server: %r" % (posts,), d)
    elif posts:
        fail("request:phantom-stream-error", "post-body error %r for a request without one" % (posts,), d)
    if exp.responses != 1:
        fail("request:response-not-built-exactly-once", "%d responses built" % exp.responses, d)


def _first_diff(a, b):
    n = min(len(a), len(b))
    for i in range(n):
        if a[i] != b[i]:
            return i
    return n


# --------------------------------------------------------------------------
# server-side drivers

class ServerRun:
    def __init__(self):
        self.exp = None
        self.out = Recorder()
        self.proto = None
        self.v3_piece_lens = []
        self.leftover = None
        self.finished = False
        self.error = None


def _build_server_proto(first_bytes, out, lens=None):
    factory, rest = M._get_protocol_factory_for_bytes(first_bytes)
    proto = factory(backing(), out.write, "/")
    if lens is not None and isinstance(proto, P.ProtocolThreeDecoder):
        try:
            tap_v3_encoder(proto.message_handler.responder, lens)
        except AttributeError:
            pass
    proto.accept_bytes(rest)
    return proto


def server_direct(x, data, sizes, feed_all):
    """Feed data (= R + E) cut into `sizes` straight into the real server protocol object,
    choosing the protocol exactly like the medium does (_get_protocol_factory_for_bytes)."""
    run = ServerRun()
    run.exp = _CUR[0] = Expect(x)
    pending = b""
    off = 0
    try:
        for sz in sizes:
            if run.proto is None:
                pending += data[off:off + sz]
                off += sz
                if b"\n" in pending:
                    run.proto = _build_server_proto(pending, run.out, run.v3_piece_lens)
                continue
            if not feed_all and run.proto.next_read_size() == 0:
                break
            run.proto.accept_bytes(data[off:off + sz])
            off += sz
        if run.proto is not None:
            run.finished = run.proto.next_read_size() == 0
            run.leftover = run.proto.unused_data + data[off:]
    except Exception as e:   # the decoder under test raised on a well-formed message
        run.error = e
    finally:
        _CUR[0] = None
    return run


def server_stingy(x, R, rng, mode):
    """C30 monitor 1 on the bare protocol object: ask next_read_size(), check it against
    what is left of the message, deliver 1..n bytes."""
    run = ServerRun()
    run.exp = _CUR[0] = Expect(x)
    L = len(R)
    res = {"over": [], "zero_early": None, "not_finished": False, "steps": 0, "finish_at": None, "run": run}
    try:
        # the medium reads the first line byte by byte (1 <= remaining always holds there)
        c = R.find(b"\n") + 1
        run.proto = _build_server_proto(R[:c], run.out)
        while True:
            n = run.proto.next_read_size()
            res["steps"] += 1
            if n == 0:
                res["finish_at"] = c
                if c < L:
                    res["zero_early"] = c
                break
            if c >= L:
                res["not_finished"] = True
                res["over"].append((n, 0, c))
                break
            if n < 0 or n > L - c:
                res["over"].append((n, L - c, c))
                n = max(1, min(n, L - c))
            if mode == "full":
                k = n
            elif mode == "one":
                k = 1 if n < 600 else rng.randint(1, min(n, 8192))
            else:
                r = rng.random()
                k = 1 if r < 0.3 else n if r < 0.5 else rng.randint(1, n)
            run.proto.accept_bytes(R[c:c + k])
            c += k
        run.finished = res["finish_at"] is not None
        run.leftover = run.proto.unused_data
    except Exception as e:
        run.error = e
    finally:
        _CUR[0] = None
    return res


class LoopRun:
    def __init__(self):
        self.exps = []
        self.snaps = []       # output size when request k started being read
        self.dirty_at = []    # output not flushed at that moment
        self.terminated = None
        self.error = None
        self.out = None
        self.inp = None
        self.medium = None


def _arm_loop(med, xs, run, on_build=None):
    orig_build = med._build_protocol
    orig_term = med.terminate_due_to_error
    state = {"k": 0}

    def _build_protocol():
        k = state["k"]
        state["k"] += 1
        if k < len(xs):
            _CUR[0] = run.exps[k]
        else:
            _CUR[0] = Expect(xs[-1])   # EOF probe
        if on_build:
            on_build(k)
        return orig_build()

    def terminate_due_to_error():
        run.terminated = sys.exc_info()[1]
        return orig_term()

    med._build_protocol = _build_protocol
    med.terminate_due_to_error = terminate_due_to_error


def server_pipe_loop(xs, Rs, rng, mode):
    """The real SmartServerPipeStreamMedium.serve() over a stingy, asserting input."""
    run = LoopRun()
    run.exps = [Expect(x) for x in xs]
    out = run.out = Recorder()

    def hook(k):
        run.snaps.append(out.size())
        run.dirty_at.append(out.dirty)

    inp = run.inp = StingyIn(Rs, rng, mode, boundary_hook=hook)
    med = run.medium = M.SmartServerPipeStreamMedium(inp, out, backing(), timeout=300)
    _arm_loop(med, xs, run)
    try:
        med.serve()
    except Exception as e:
        run.error = e
    finally:
        _CUR[0] = None
    return run


def server_socket_loop(xs, Rs, sizes, lockstep):
    """The real SmartServerSocketStreamMedium.serve() over a fake socket (real push-back)."""
    run = LoopRun()
    run.exps = [Expect(x) for x in xs]
    data = b"".join(Rs)
    ends, c = [], 0
    for r in Rs:
        c += len(r)
        ends.append(c)
    sock = run.inp = FakeSock(data, cap(sizes), lockstep_ends=ends if lockstep else None)
    run.out = sock.sent
    med = run.medium = M.SmartServerSocketStreamMedium(sock, backing(), "/", timeout=300)
    med._wait_for_bytes_with_timeout = lambda t: None   # select() on a fake socket: timing only

    def on_build(k):
        if k >= 1:
            run.snaps.append(sock.sent.size())
        if lockstep:
            sock.released = k + 1

    _arm_loop(med, xs, run, on_build)
    try:
        med.serve()
    except Exception as e:
        run.error = e
    finally:
        _CUR[0] = None
    return run


# --------------------------------------------------------------------------
# client-side drivers

class ClientObs:
    def __init__(self):
        self.obs = {}
        self.error = None
        self.leftover = None
        self.state = None
        self.decoder_unused = None


def read_response(x, handler, obs):
    """Drive the real response handler the way RemoteXxx code does."""
    o = obs.obs
    want = x["rbody"][0] if (x["known"] and x["ok"]) else "none"
    try:
        tup = handler.read_response_tuple(expect_body=x["expect_body"])
    except te.ErrorFromSmartServer as e:
        o["status"] = "error"
        o["args"] = tuple(e.error_tuple)
        return
    except te.UnknownSmartMethod as e:
        o["status"] = "unknown"
        o["args"] = e.verb
        return
    o["status"] = "ok"
    o["args"] = tup
    if not x["expect_body"]:
        return
    if want == "none":
        handler.cancel_read_body()
    elif want == "bytes":
        o["body"] = handler.read_body_bytes()
    else:
        o["chunks"] = []
        o["stream_err"] = None
        try:
            for c in handler.read_streamed_body():
                if isinstance(c, RQ.FailedSmartServerResponse):
                    o["stream_err"] = tuple(c.args)
                else:
                    o["chunks"].append(c)
        except te.ErrorFromSmartServer as e:
            o["stream_err"] = tuple(e.error_tuple)


def _medium_request(x, enc):
    return enc._medium_request if x["v"] == 3 else enc._request


def client_sock(x, data, sizes):
    """Real client stack over SmartClientAlreadyConnectedSocketMedium; recv() returns the
    prepared segments regardless of the size asked for (as a socket may)."""
    co = ClientObs()
    sock = FakeSock(data, cap(sizes))
    med = M.SmartClientAlreadyConnectedSocketMedium("vf://c/", sock)
    del _DECODERS[:]
    try:
        creq, enc, handler = _client_stack(x, med)
        _send(creq, enc)
        co.sent = sock.sent.value()
        read_response(x, handler, co)
        co.state = _medium_request(x, enc)._state
        if x["v"] == 3:
            unused = handler._protocol_decoder.unused_data
        else:
            unused = b"".join(d.unused_data for d in _DECODERS)
            co.ndec = len(_DECODERS)
        pb = med._push_back_buffer or b""
        co.leftover = unused + pb + data[sock.pos:]
    except Exception as e:
        co.error = e
    finally:
        med._socket = None
        med._connected = False
    return co


def client_pipe(x, S, rng, mode):
    """C30, client side: real SmartSimplePipesClientMedium over a stingy, asserting pipe."""
    co = ClientObs()
    inp = StingyIn([S], rng, mode)
    med = M.SmartSimplePipesClientMedium(inp, Recorder(), "vf://c/")
    try:
        creq, enc, handler = _client_stack(x, med)
        _send(creq, enc)
        read_response(x, handler, co)
        co.state = _medium_request(x, enc)._state
    except Exception as e:
        co.error = e
    co.inp = inp
    return co


def response_body_start(x, S):
    """Offset of the body part in a v1/v2 response (documented layout: v1 = args line,
    v2 = marker line, status line, args line)."""
    n = 1 if x["v"] == 1 else 3
    p = 0
    for _ in range(n):
        p = S.index(b"\n", p) + 1
    return p


def client_direct(x, data, sizes):
    """Decoders fed directly (feed-everything mode): unused_data must be exactly E.
    v3: data = S + E into ProtocolThreeDecoder + ConventionalResponseHandler;
    v1/v2: data = body part of S + E into the body decoder."""
    co = ClientObs()
    try:
        if x["v"] == 3:
            med = M.SmartSimplePipesClientMedium(StingyIn([b""], None, "full"), Recorder(), "vf://c/")
            creq, enc, handler = _client_stack(x, med)
            _send(creq, enc)
            dec = handler._protocol_decoder
            off = 0
            for sz in sizes:
                dec.accept_bytes(data[off:off + sz])
                off += sz
            read_response(x, handler, co)
            co.leftover = dec.unused_data
            co.state = enc._medium_request._state
            co.finished = dec.next_read_size() == 0
        else:
            kind = x["rbody"][0]
            dec = P.LengthPrefixedBodyDecoder() if kind == "bytes" else P.ChunkedBodyDecoder()
            o = co.obs
            if kind == "bytes":
                o["body"] = b""
            else:
                o["chunks"], o["stream_err"] = [], None
            off = 0
            for sz in sizes:
                dec.accept_bytes(data[off:off + sz])
                off += sz
                if kind == "bytes":
                    o["body"] += dec.read_pending_data()
                else:
                    for c in iter(dec.read_next_chunk, None):
                        if isinstance(c, RQ.FailedSmartServerResponse):
                            o["stream_err"] = tuple(c.args)
                        else:
                            o["chunks"].append(c)
            co.leftover = dec.unused_data
            co.finished = dec.finished_reading
    except Exception as e:
        co.error = e
    return co


def judge_response(x, obs, fail, tag, fields=None):
    want = expected_response(x)
    d = {"shape": shape(x), "driver": tag}
    o = obs
    for f in fields or ("status", "args", "body", "chunks", "stream_err"):
        if f not in want and f not in o:
            continue
        if f in ("status", "args") and fields is not None and f not in o:
            continue
        w, g = want.get(f), o.get(f)
        if f == "args" and isinstance(w, tuple) and g is not None:
            g = tuple(g)
        if f == "stream_err" and w is not None and g is not None:
            w, g = tuple(w), tuple(g)
        if w != g:
            if f == "body" and isinstance(w, bytes) and isinstance(g, bytes):
                msg = "decoded body len %d != encoded len %d (first diff at %d)" % (len(g), len(w), _first_diff(g, w))
            elif f == "chunks" and isinstance(w, list) and isinstance(g, list):
                msg = "decoded chunk sizes %r != encoded %r%s" % ([len(c) for c in g], [len(c) for c in w],
                                                                  "" if [len(c) for c in g] != [len(c) for c in w] else " (content differs)")
            else:
                msg = "decoded %s %.300r != encoded %.300r" % (f, g, w)
            fail("response:%s-differ" % f.replace("_", "-"), msg, d)
            if f == "status":
                return False
    return True


def exc_key(e):
    return type(e).__name__
