"""C21 - pull and push never silently drop history.

A generated DAG (merges, ghosts, optionally a ghost on the mainline) lives in source branches.  For every
evaluation a target branch is placed at revision t and a source branch at revision s (by sprouting the
real history), their relation drawn from the tip-relationship table (equal / ancestor on the mainline /
ancestor only through a merge / descendant / diverged / empty target / ghost in the left-hand history),
and one real operation runs: Branch.pull or Branch.push, with or without stop_revision, with or without
overwrite, with a plain or a bound target (master judged too), locally or (thorough) with one side
behind an in-process bzr:// server.  A second family enables append_revisions_only on the target and drives
every tip-moving API (pull / push with and without overwrite, set_last_revision_info,
generate_revision_history, uncommit).

The oracle is plain graph algebra over what the generator committed (independent of vcsgraph):
  req in ancestry(tip)            -> no error, tip unchanged
  tip in ancestry(req)            -> tip == req
  otherwise (no overwrite)        -> DivergedBranches, tip unchanged
  overwrite                       -> tip == req
  always                          -> stored revno == length of the left-hand history of the tip; the source branch is untouched;
                                     without overwrite the old tip is an ancestor of the new tip
  append-only                     -> an accepted move has old tip in left-hand-history(new tip); a refusal leaves the tip unchanged
"""
import os

from vf import boot, gen, instr
from vf.checks import _c03_lib as L

ID = "C21"
LEVEL = "exploration"
TECHNIQUE = "tip-relationship table driven through the real pull/push/tip-moving APIs; oracle = set algebra over the generator-recorded DAG (ancestry, left-hand history)"
LEVEL_TEXT = ("every generated (DAG, target tip, source tip, requested revision, operation, overwrite, bound, append-only) combination is executed on real "
              "branches re-opened with fresh objects; outcome (tip, revno, exception class) compared with the model")
RULE = ("case = random history (<= 9 quick / <= 16 thorough revisions, <= 3 branches, merges, ghosts, 25% with a ghost on a mainline) x K evaluations, each = "
        "relation class x (pull|push, API or brz command) x stop_revision? x overwrite form (False|True|[history]|[tags]|[history,tags]|set forms|empty) x bound? x transport, or an append-only evaluation x tip-moving API; "
        "non-trivial = target and requested revision both non-null and different; distinct = (format, op, flags, relation class, shapes of the two left-hand histories)")
CASES = {"quick": 32, "thorough": 640}
BUDGET_S = {"quick": 45, "thorough": 780}
MIN_EVALS = {"quick": 40, "thorough": 1500}
FLOORS = {"quick": {"tip_oracle": 25, "revno_oracle": 30, "diverged_expected": 2, "append_only": 8, "append_only_to_null": 1, "bound_master_ahead": 1, "tags_only_overwrite": 4, "cmd_ops": 2},
          "thorough": {"tip_oracle": 1200, "revno_oracle": 1200, "diverged_expected": 100, "append_only": 250, "smart_ops": 100, "git_ops": 40, "append_only_to_null": 30, "bound_master_ahead": 40, "tags_only_overwrite": 200, "tags_only_overwrite_diverged": 20, "cmd_ops": 100}}
ASSUMPTIONS = [
    "the requested revision is the stop_revision if given, else the source branch tip",
    "with a history overwrite (True, or a collection naming 'history') the documented behaviour 'always set the branch pointer' is demanded (tip == requested revision); a tags-only or empty overwrite collection is judged exactly like overwrite=False",
    "when the left-hand history of a tip runs into a ghost no revno is defined: GhostRevisionsHaveNoRevno is classified (tip must stay), a stored revno is not judged",
    "append-only: spurious refusals (AppendRevisionsOnlyViolation although the old tip is on the new left-hand history) are only counted; the statement forbids wrong acceptances",
    "a bound target is prepared in step with its master or behind it (its tip an ancestor of the master's, an out-of-date heavy checkout); both are judged, each by its own relation to the request, and a refused operation must leave both unchanged; when the bound target is addressed through bzr:// its master is not judged (RemoteBranch is never bound)",
    "git<->git pairs (thorough) use a small private generator (fork, merge) because generated revision ids cannot be chosen for git commits",
]

OW_FORMS = [("True", True, True), ("[history]", ["history"], True), ("[tags]", ["tags"], False), ("[tags]", ["tags"], False),
            ("[history,tags]", ["history", "tags"], True), ("{tags}", {"tags"}, False), ("{history}", {"history"}, True),
            ("{history,tags}", {"history", "tags"}, True), ("[]", [], False), ("set()", set(), False)]
CMD_FLAGS = {"False": [], "True": ["--overwrite"], "[history,tags]": ["--overwrite"], "[tags]": ["--overwrite-tags"], "{tags}": ["--overwrite-tags"]}

CLASSES = ["equal", "mainline-ancestor", "merged-ancestor", "descendant", "diverged", "empty-target", "random", "random"]


def worker_init(tier):
    instr.install()


def _make_empty(path, fmt_name):
    from breezy.controldir import ControlDir

    return ControlDir.create_branch_convenience(path, force_new_tree=False, format=L.fmt(fmt_name))


class Env:
    """History + where each revision can be fetched from."""

    def __init__(self, ctx, hist, g, fmt):
        from breezy.branch import Branch

        self.ctx, self.hist, self.g, self.fmt = ctx, hist, g, fmt
        self.holder = {}
        for bn in sorted(hist.trees):
            tip = Branch.open(hist.trees[bn]).last_revision()
            for r in g.ancestry(tip):
                self.holder.setdefault(r, hist.trees[bn])
        self.revs = sorted(self.holder)
        self.n = 0

    def branch_at(self, root, name, rev):
        """A fresh standalone branch whose tip is rev (null: = empty branch)."""
        from breezy.branch import Branch

        path = os.path.join(root, name)
        if rev == L.NULL:
            _make_empty(path, self.fmt)
        else:
            Branch.open(self.holder[rev]).controldir.sprout(path, revision_id=rev, create_tree_if_local=False)
        return path

    def pick(self, rng, cls):
        """(t, req) in the wanted relation class, or None."""
        g = self.g
        revs = self.revs
        for _ in range(30):
            req = rng.choice(revs)
            anc = g.ancestry(req)
            lh, _gh = g.lefthand(req)
            if cls == "equal":
                return req, req
            if cls == "mainline-ancestor":
                if len(lh) > 1:
                    return rng.choice(lh[1:]), req
            elif cls == "merged-ancestor":
                c = sorted(anc - set(lh))
                if c:
                    return rng.choice(c), req
            elif cls == "descendant":
                c = sorted(anc - {req})
                if c:
                    return req, rng.choice(c)
            elif cls == "diverged":
                c = [r for r in revs if r not in anc and req not in g.ancestry(r)]
                if c:
                    return rng.choice(c), req
            elif cls == "empty-target":
                return L.NULL, req
            else:
                return rng.choice(revs + [L.NULL]), req
        return None


def _info(path):
    from breezy.branch import Branch

    b = Branch.open(path)
    with b.lock_read():
        return b.last_revision_info()


def _expected_revno(g, tip):
    lh, ghost = g.lefthand(tip)
    return (None if ghost else len(lh)), ghost


def _check_revno(ctx, g, path, what, label, d):
    revno, tip = _info(path)
    exp, ghost = _expected_revno(g, tip)
    if ghost:
        ctx.hist("revno:mainline-ghost:not-judged")
        return
    ctx.count("revno_oracle")
    ctx.check(revno == exp, "revno:not-lefthand-length:%s" % what, "%s: %s tip %r stored revno %r, left-hand history has %r revisions" % (label, what, tip, revno, exp), d)


def _relation_class(g, t, req):
    rel = g.relation(t, req)
    if rel == "tip-in-req" and t != L.NULL:
        lh, _ = g.lefthand(req)
        return "tip-in-req:mainline" if t in lh else "tip-in-req:merged"
    if t == L.NULL:
        return "empty-target"
    return rel


def _shape(g, r):
    lh, gh = g.lefthand(r)
    return (len(lh), gh, sum(1 for x in lh if len(g.pm[x]) > 1))


# ---------------------------------------------------------------- pull / push table

def eval_pullpush(ctx, env, rng):
    from breezy import errors
    from breezy.branch import Branch

    g = env.g
    quick = ctx.tier == "quick"
    cls = rng.choice(CLASSES)
    # the overwrite argument in all its forms; only True or a collection naming 'history' licenses moving a diverged tip,
    # a tags-only overwrite (what --overwrite-tags sends) must behave like no overwrite for the revision history
    if rng.random() < 0.3:
        ow_name, ow_arg, overwrite = "False", False, False
    else:
        ow_name, ow_arg, overwrite = rng.choice(OW_FORMS)
    if ow_name in ("[tags]", "{tags}") and rng.random() < 0.5:
        cls = rng.choice(["diverged", "diverged", "descendant"])   # where a history overwrite would show
    bound = rng.random() < 0.3 and env.fmt != "git"
    if bound and rng.random() < 0.5:
        # an out-of-date checkout whose own tip can still fast-forward to the request (its master may not)
        cls = rng.choice(["mainline-ancestor", "mainline-ancestor", "merged-ancestor", "empty-target"])
    pr = env.pick(rng, cls)
    if pr is None:
        ctx.hist("class-unavailable:" + cls)
        pr = env.pick(rng, "random")
    t, req = pr
    # the source branch tip: the request itself, or (with stop_revision) something that has it in its ancestry
    use_stop = rng.random() < 0.45
    s = req
    if use_stop:
        desc = [r for r in env.revs if req in g.ancestry(r)]
        s = rng.choice(desc)
    op = rng.choice(["pull", "push"])
    transport = "local"
    if not quick and env.fmt != "git" and rng.random() < 0.3:
        transport = rng.choice(["bzr-target", "bzr-source"])
    via_cmd = transport == "local" and env.fmt != "git" and ow_name in CMD_FLAGS and rng.random() < 0.3
    env.n += 1
    root = ctx.tmp("c21")
    T = env.branch_at(root, "T", t)
    S = env.branch_at(root, "S", s)
    M = None
    m = t
    if bound:
        # the master is either in step with the bound branch or ahead of it (an out-of-date heavy checkout); when ahead,
        # half of the time on a line that diverged from the requested revision
        if rng.random() < 0.6:
            ahead = [r for r in env.revs if r != t and g.is_ancestor(t, r)]
            div = [r for r in ahead if g.relation(r, req) == "diverged"]
            if div and rng.random() < 0.6:
                m = rng.choice(div)
            elif ahead:
                m = rng.choice(ahead)
        M = env.branch_at(root, "M", m)
        Branch.open(T).bind(Branch.open(M))
    rel = g.relation(t, req)
    rc = _relation_class(g, t, req)
    label = "%s/%s%s%s%s%s/%s/%s" % (env.fmt, "cmd-" + op if via_cmd else op, "+stop" if use_stop else "", "+overwrite=%s" % ow_name if ow_name != "False" else "",
                                    "(history)" if overwrite else "",
                                  ("+bound" + ("(master ahead, %s)" % g.relation(m, req) if m != t else "")) if bound else "", rc, transport)
    d = {"case": label, "t": t.decode(), "s": s.decode(), "req": req.decode(), "m": m.decode(), "parents": {k.decode(): [p.decode() for p in v] for k, v in g.pm.items()}}
    ctx.info = {"label": label, "t": t.decode(), "s": s.decode(), "req": req.decode(), "log": env.hist.log[-30:] if env.hist else None}
    before_T, before_S = _info(T), _info(S)
    before_M = _info(M) if M else None
    stop = req if use_stop else None
    exc = None

    def run(turl, surl):
        if via_cmd:
            # the command line: brz pull -d T S / brz push -d S T  [--overwrite | --overwrite-tags] [-r revid:X]
            from breezy import commands

            commands.install_bzr_command_hooks()
            ctx.count("cmd_ops")
            argv = ["pull", "-d", turl, surl] if op == "pull" else ["push", "-d", surl, turl]
            argv += CMD_FLAGS[ow_name] + (["-r", "revid:" + stop.decode()] if stop is not None else [])
            commands.run_bzr(argv)
            return
        tb, sb = Branch.open(turl), Branch.open(surl)
        try:
            if op == "pull":
                tb.pull(sb, stop_revision=stop, overwrite=ow_arg)
            else:
                sb.push(tb, stop_revision=stop, overwrite=ow_arg)
        finally:
            L.disconnect(tb, sb)

    try:
        if transport == "local":
            run(T, S)
        else:
            served = boot.scratch_root()
            with L.smart_server(served) as url:
                ctx.count("smart_ops")
                rel_url = lambda p: url.rstrip("/") + "/" + os.path.relpath(p, served)
                if transport == "bzr-target":
                    run(rel_url(T), S)
                else:
                    run(T, rel_url(S))
    except errors.DivergedBranches as e:
        exc = "DivergedBranches"
    except errors.CommandError as e:
        # brz push reports divergence as a CommandError
        if not (via_cmd and "diverged" in str(e)):
            raise
        exc = "DivergedBranches"
    except errors.GhostRevisionsHaveNoRevno as e:
        exc = "GhostRevisionsHaveNoRevno"
    except errors.LockContention as e:
        if bound and M is not None and "/M/" in str(e):
            # the operation locked the master, then asked for a second master object and locked that too
            ctx.fail("bound-target:tag-merge-relocks-master", "%s: %s into a bound branch fails with LockContention on its own master "
                     "(source has tags: %r); tips now target=%r master=%r" % (label, op, bool(Branch.open(S).tags.get_tag_dict()), _info(T), _info(M)), d)
            ctx.note((env.fmt, op, "lock-contention"), nontrivial=False)
            return
        raise
    ctx.hist("op:%s%s%s%s" % (op, "+stop" if use_stop else "", "+overwrite" if overwrite else "", "+bound" if bound else ""))
    ctx.hist("overwrite-form:%s%s" % (ow_name, ":cmd" if via_cmd else ""))
    if ow_name in ("[tags]", "{tags}"):
        ctx.count("tags_only_overwrite")
        if not overwrite and "diverged" in (g.relation(t, req), g.relation(m, req)):
            ctx.count("tags_only_overwrite_diverged")
    ctx.hist("relation:" + rc)
    ctx.hist("outcome:%s:%s" % (rc if not overwrite else "overwrite", exc or "ok"))
    judged = [("target", T, before_T, t)]
    if M:
        if transport == "bzr-target":
            # RemoteBranch has no notion of being bound: a push/pull addressed to bzr://.../T does not involve T's master (long-standing
            # behaviour, the statement is about the target tip only) - counted, not judged
            ctx.hist("bound:remote-target:master-%s" % ("followed" if _info(M)[1] == _info(T)[1] else "left-behind"))
        else:
            judged.append(("master", M, before_M, m))
            if m != t:
                ctx.count("bound_master_ahead")
                ctx.hist("bound:master-ahead:%s:%s" % (g.relation(m, req), exc or "ok"))
    rels = {what: g.relation(tipw, req) for what, _p, _b, tipw in judged}
    expect_diverged = (not overwrite) and "diverged" in rels.values()
    if M and transport == "bzr-target" and exc == "DivergedBranches" and not overwrite and g.relation(m, req) == "diverged":
        # whether an operation addressed to bzr://.../T consults T's master depends on the path taken (pull opens the real, bound branch;
        # push does not): a refusal because of the diverged master is legitimate - nothing may have moved
        ctx.hist("bound:remote-target:refused-because-of-master")
        ctx.count("refused_unchanged")
        ctx.check(_info(T) == before_T and _info(M) == before_M, "refused:tip-moved:remote-bound", "%s: DivergedBranches but target %r -> %r, master %r -> %r" % (
            label, before_T, _info(T), before_M, _info(M)), d)
        judged = []
    for what, path, before, tipw in judged:
        after = _info(path)
        rel_w = rels[what]
        ctx.count("tip_oracle")
        if exc is not None:
            # a refused operation leaves every tip where it was (the bound branch AND its master)
            ctx.count("refused_unchanged")
            ctx.check(after == before, "refused:tip-moved:%s" % what, "%s: operation raised %s but %s moved %r -> %r" % (label, exc, what, before, after), d)
        if exc == "GhostRevisionsHaveNoRevno":
            _lh, ghost = g.lefthand(req)
            if not ghost:
                ctx.fail("ghost-revno-error:no-mainline-ghost", "%s: GhostRevisionsHaveNoRevno but the left-hand history of %r has no ghost" % (label, req), d)
            continue
        if overwrite:
            if exc:
                ctx.fail("overwrite:raised-%s" % exc, "%s: %s" % (label, what), d)
            else:
                ctx.check(after[1] == req, "overwrite:tip-not-request:%s" % what, "%s: %s tip %r, requested %r" % (label, what, after[1], req), d)
        elif expect_diverged:
            ctx.count("diverged_expected")
            if exc != "DivergedBranches":
                ctx.fail("diverged:not-reported", "%s: tips diverged (%r), no DivergedBranches; %s %r -> %r" % (label, rels, what, before, after), d)
            if after != before:
                ctx.fail("diverged:tip-moved", "%s: %s %r -> %r" % (label, what, before, after), d)
        elif rel_w in ("equal", "req-in-tip"):
            ctx.check(exc is None, "already-merged:raised-%s" % exc, "%s: %s already contains the requested revision" % (label, what), d)
            ctx.check(after == before, "already-merged:tip-moved:%s" % what, "%s: %s %r -> %r; %r is already in the ancestry of the tip" % (label, what, before, after, req), d)
        else:
            ctx.check(exc is None, "descends:raised-%s" % exc, "%s: requested revision descends from the %s tip" % (label, what), d)
            ctx.check(after[1] == req, "descends:tip-not-request:%s" % what, "%s: %s tip %r, requested %r" % (label, what, after[1], req), d)
        # history never silently dropped without overwrite
        if not overwrite and exc is None:
            ctx.count("no_drop")
            ctx.check(g.is_ancestor(before[1], after[1]), "history-dropped:%s" % what, "%s: %s old tip %r is not an ancestor of new tip %r" % (label, what, before[1], after[1]), d)
        _check_revno(ctx, g, path, what, label, d)
    ctx.count("source_untouched")
    ctx.check(_info(S) == before_S, "source-branch-changed", "%s: %r -> %r" % (label, before_S, _info(S)), d)
    ctx.distinct("table", (op, use_stop, ow_name, bound, rc, exc))
    ctx.note((env.fmt, op, via_cmd, use_stop, ow_name, bound, transport, rc, _shape(g, t), _shape(g, req)),
             nontrivial=t != L.NULL and t != req,
             sample={"case": label, "target_tip": t.decode(), "source_tip": s.decode(), "requested": req.decode(), "outcome": exc or "ok",
                     "after": [_info(T)[0], _info(T)[1].decode()]})


# ---------------------------------------------------------------- append-only

APPEND_OPS = ["pull", "push", "pull-overwrite", "push-overwrite", "set_last_revision_info", "generate_revision_history", "uncommit"]


def eval_append_only(ctx, env, rng):
    from breezy import errors
    from breezy.branch import Branch
    from breezy.uncommit import uncommit
    from vcsgraph import errors as _vg_errors

    g = env.g
    op = rng.choice(APPEND_OPS)
    cls = rng.choice(["mainline-ancestor", "merged-ancestor", "merged-ancestor", "merged-ancestor", "descendant", "diverged", "equal", "random"])
    if op == "uncommit":
        cls = "descendant"
    pr = env.pick(rng, cls) or env.pick(rng, "random")
    t, req = pr
    if t == L.NULL:
        t = req
    # the null revision as the requested tip: throwing the whole history away is the extreme non-append move
    to_null = rng.random() < 0.22
    if to_null:
        op = rng.choice(["pull-overwrite", "push-overwrite", "set_last_revision_info", "generate_revision_history", "uncommit"])
    if op == "uncommit":
        lh, gh = g.lefthand(t)
        if (len(lh) < 2 and not to_null) or gh:
            ctx.hist("append-only:uncommit:no-mainline")
            return
    root = ctx.tmp("c21a")
    T = env.branch_at(root, "T", t)
    S = env.branch_at(root, "S", t if to_null else req)
    if to_null:
        req = L.NULL
        ctx.count("append_only_to_null")
    stop = L.NULL if to_null else None
    tb = Branch.open(T)
    if not tb._format.supports_set_append_revisions_only():
        ctx.hist("append-only:unsupported-format")
        return
    tb.set_append_revisions_only(True)
    label = "%s/append-only/%s/%s" % (env.fmt, op, "to-null" if to_null else _relation_class(g, t, req))
    d = {"case": label, "t": t.decode(), "req": req.decode(), "parents": {k.decode(): [p.decode() for p in v] for k, v in g.pm.items()}}
    ctx.info = {"label": label, "t": t.decode(), "req": req.decode()}
    before = _info(T)
    exc = None
    tb = Branch.open(T)
    sb = Branch.open(S)
    try:
        if op == "pull":
            tb.pull(sb)
        elif op == "push":
            sb.push(tb)
        elif op == "pull-overwrite":
            tb.pull(sb, overwrite=True, stop_revision=stop)
        elif op == "push-overwrite":
            sb.push(tb, overwrite=True, stop_revision=stop)
        elif op in ("set_last_revision_info", "generate_revision_history"):
            if not to_null:
                tb.repository.fetch(sb.repository, revision_id=req)
            lh, gh = g.lefthand(req)
            with tb.lock_write():
                if op == "set_last_revision_info":
                    tb.set_last_revision_info(len(lh), req)
                else:
                    tb.generate_revision_history(req)
        else:
            lh, _gh = g.lefthand(t)
            k = len(lh) if to_null else rng.randint(1, len(lh) - 1)  # new tip = lh[k], or null: when k == len(lh)
            req = lh[k] if k < len(lh) else L.NULL
            uncommit(tb, revno=len(lh) - k + 1)
    except errors.AppendRevisionsOnlyViolation:
        exc = "AppendRevisionsOnlyViolation"
    except errors.DivergedBranches:
        exc = "DivergedBranches"
    except errors.GhostRevisionsHaveNoRevno:
        exc = "GhostRevisionsHaveNoRevno"
    except _vg_errors.RevisionNotPresent:
        # the append-only check walks the left-hand history of the new tip and runs into a ghost: a refusal
        # with an undocumented error class; only legitimate when there is such a ghost, and the tip must stay
        if not g.lefthand(req)[1]:
            raise
        exc = "RevisionNotPresent(mainline ghost)"
    after = _info(T)
    ctx.count("append_only")
    ctx.hist("append-only:%s:%s" % (op, exc or ("moved" if after != before else "unchanged")))
    lh_new, _gh = g.lefthand(after[1])
    if after[1] != before[1]:
        ctx.count("append_only_moves")
        if exc is not None:
            ctx.fail("append-only:tip-moved-despite-%s" % exc, "%s: %r -> %r" % (label, before, after), d)
        if before[1] != L.NULL and before[1] not in lh_new:
            ctx.fail("append-only:violated:%s" % op, "%s: tip moved %r -> %r whose left-hand history %r lacks the previous tip" % (
                label, before[1], after[1], [x.decode() for x in lh_new]), d)
    else:
        ctx.check(after == before, "append-only:revno-changed-tip-same", "%s: %r -> %r" % (label, before, after), d)
    if exc == "AppendRevisionsOnlyViolation":
        lh_req, _g2 = g.lefthand(req)
        ctx.hist("append-only:refusal:%s" % ("justified" if before[1] not in lh_req else "spurious"))
    _check_revno(ctx, g, T, "target", label, d)
    ctx.distinct("append_table", (op, _relation_class(g, t, req), exc, after != before))
    ctx.note((env.fmt, "append-only", op, _relation_class(g, t, req), _shape(g, t), _shape(g, req)), nontrivial=t != req,
             sample=None)


# ---------------------------------------------------------------- histories

def _mainline_ghost(ctx, rng, hist, fmt):
    """Private extension: one more branch whose left-hand history runs into a ghost."""
    from breezy.workingtree import WorkingTree

    src = hist.trees[rng.choice(sorted(hist.trees))]
    name = "bg"
    path = os.path.join(hist.root, name)
    WorkingTree.open(src).branch.controldir.sprout(path)
    wt = WorkingTree.open(path)
    tip = wt.last_revision()
    ghost = b"mainline-ghost-%d" % len(hist.order)
    with wt.lock_write():
        # the branch tip becomes the ghost, so the next commit has it as its left-hand parent
        wt.branch.set_last_revision_info(1, ghost)
        wt.set_parent_ids([ghost, tip], allow_leftmost_as_ghost=True)
    gen.random_delta(rng, wt, gen.Names(ctx.tier), 2)
    gen.commit(hist, name, wt, rng)
    hist.trees[name] = path
    if rng.random() < 0.6:
        gen.random_delta(rng, wt, gen.Names(ctx.tier), 2)
        gen.commit(hist, name, wt, rng)


def _ensure_fork(ctx, rng, hist, g):
    """Private extension: build_history often yields one line of development; add a fork (and sometimes merge it back)
    so that diverged and merged-only relations exist."""
    from breezy.branch import Branch
    from breezy.commit import PointlessCommit
    from breezy.workingtree import WorkingTree

    src_name = rng.choice(sorted(hist.trees))
    src = Branch.open(hist.trees[src_name])
    lh, _gh = L.MGraph(hist).lefthand(src.last_revision())
    at = rng.choice(lh[1:] if len(lh) > 1 else lh)
    name = "bf"
    path = os.path.join(hist.root, name)
    src.controldir.sprout(path, revision_id=at)
    hist.trees[name] = path
    wt = WorkingTree.open(path)
    for _ in range(rng.randint(1, 2)):
        gen.random_delta(rng, wt, gen.Names(ctx.tier), rng.randint(1, 3))
        try:
            gen.commit(hist, name, wt, rng)
        except PointlessCommit:
            pass
    if rng.random() < 0.6 and wt.last_revision() != at:
        owt = WorkingTree.open(hist.trees[src_name])
        try:
            with owt.lock_write():
                owt.merge_from_branch(wt.branch)
        except Exception:
            WorkingTree.open(hist.trees[src_name]).revert()
            return
        gen.resolve_all(owt)
        try:
            gen.commit(hist, src_name, owt, rng)
        except PointlessCommit:
            owt.revert()
            return
        if rng.random() < 0.5:
            gen.random_delta(rng, owt, gen.Names(ctx.tier), 2)
            try:
                gen.commit(hist, src_name, owt, rng)
            except PointlessCommit:
                pass


def case(ctx):
    from breezy import errors

    rng = ctx.rng
    quick = ctx.tier == "quick"
    if not quick and ctx.index % 8 == 7:
        return _git_case(ctx)
    fmt = rng.choice(["2a", "2a", "2a", "pack-0.92"]) if quick else rng.choice(["2a", "2a", "2a", "pack-0.92", "1.9", "knit", "rich-root-pack"])
    try:
        hist = gen.build_history(ctx, rng, fmt=fmt, nrevs=rng.randint(5, 9 if quick else 16), nbranches=3, ghosts=True, merges=True,
                                 tags=(fmt != "knit" and rng.random() < 0.3))
        _ensure_fork(ctx, rng, hist, None)
        if rng.random() < 0.25:
            try:
                _mainline_ghost(ctx, rng, hist, fmt)
                ctx.hist("history:mainline-ghost")
            except Exception as e:  # workload construction (a commit on a ghost basis can be refused, e.g. InconsistentDelta): not judged here
                ctx.hist("history:mainline-ghost-refused:%s" % type(e).__name__)
    except (errors.BzrError, AttributeError) as e:  # AttributeError: gen.build_history names errors.PointlessCommit (lives in breezy.commit)
        ctx.discard("history-construction:%s" % type(e).__name__)
    g = L.MGraph(hist)
    env = Env(ctx, hist, g, fmt)
    K = 6 if quick else 10
    for k in range(K):
        if k % 4 == 3:
            eval_append_only(ctx, env, rng)
        else:
            eval_pullpush(ctx, env, rng)


# ---------------------------------------------------------------- git <-> git (thorough)

def _git_case(ctx):
    """Small private generator for git branches: mainline, a fork, a merge.  The model graph is built from what was committed."""
    from breezy import errors
    from breezy.branch import Branch
    from breezy.controldir import ControlDir
    from breezy.workingtree import WorkingTree

    rng = ctx.rng
    root = ctx.tmp("c21g")
    g = L.MGraph()
    trees = {}

    def commit(wt, n):
        with open(os.path.join(wt.basedir, "f%d" % rng.randint(0, 3)), "ab") as f:
            f.write(b"line %d %d\n" % (n, rng.randint(0, 10 ** 6)))
        wt.smart_add([wt.basedir])
        parents = wt.get_parent_ids()
        rid = wt.commit("c%d" % n, timestamp=1500000000 + n, timezone=0, committer="G <g@example.com>")
        g.add(rid, parents)
        return rid

    try:
        a = ControlDir.create_standalone_workingtree(os.path.join(root, "a"), format=L.fmt("git"))
        n = 0
        for _ in range(rng.randint(1, 3)):
            n += 1
            commit(a, n)
        b = a.branch.controldir.sprout(os.path.join(root, "b")).open_workingtree()
        for _ in range(rng.randint(1, 2)):
            n += 1
            commit(b, n)
        for _ in range(rng.randint(0, 2)):
            n += 1
            commit(a, n)
        if rng.random() < 0.6:
            with a.lock_write():
                a.merge_from_branch(b.branch)
            gen.resolve_all(a)
            n += 1
            commit(a, n)
            if rng.random() < 0.5:
                n += 1
                commit(a, n)
    except errors.BzrError as e:
        ctx.discard("git-history:%s" % type(e).__name__)
    trees = {"a": os.path.join(root, "a"), "b": os.path.join(root, "b")}

    class H:
        pass

    hist = H()
    hist.trees, hist.log, hist.root = trees, [], root
    env = Env(ctx, hist, g, "git")
    for k in range(6):
        ctx.count("git_ops")
        eval_pullpush(ctx, env, rng)
