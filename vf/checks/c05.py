"""C05 - concurrent pack writers and packers never lose committed data.

2-3 actors (own object graphs, threads under the cooperative scheduler that switches only at
transport operations) share one pack repository: committers on their own branches (enough
commits for autopack to fire), an explicit packer, a reader with a stale view.  Monitors:
ack log, pack-names version sequence (V(t) >= acked(t) at every write, listed packs exist),
reader oracle against known contents, final judge on fresh objects.
"""
import os
import time as _time

from vf import instr, observe

ID = "C05"
LEVEL = "exploration"
TECHNIQUE = "offline+online checkers over recorded histories of real concurrent executions under a seeded cooperative scheduler: ack log vs pack-names version sequence, reader oracle, final judge"
LEVEL_TEXT = ("sampled interleavings (random / PCT / targeted at pack-names, packs/, obsolete_packs/ operations) of 2-3 actors committing, autopacking, packing (with and "
              "without obsolete cleanup) and reading one shared 2a or pack-0.92 repository; every acknowledged revision stays listed and readable at every pack-names version and at the end; "
              "readers never get an error or a wrong text for acknowledged data; every listed pack has its files")
RULE = ("case = (format, actor roles, scripts, strategy, decision list); non-trivial = >= 20 context switches, >= 8 acknowledged commits and >= 3 pack-names versions; "
        "distinct = schedule decision-list hash")
CASES = {"quick": 48, "thorough": 900}
BUDGET_S = {"quick": 50, "thorough": 800}
MIN_EVALS = {"quick": 10, "thorough": 150}
FLOORS = {"acks": 100, "packnames_versions": 40, "reader_reads": 30, "final_judge": 10}
ASSUMPTIONS = ["a commit or pack() that itself fails under concurrency (e.g. NoSuchFile on a vanished signature index during autopack) is counted in the histogram but is not a verdict: nothing acknowledged is lost",
               "actors are threads with separate object graphs; one runs at a time; control changes only inside transport operations or in the lock wait loop",
               "lock waiting is emulated: lockdir polling sleeps become forced context switches (no wall-clock timeouts)",
               "schedules are sampled, not enumerated; a schedule that exhausts its step budget is inconclusive for that schedule"]

STEP_BUDGET = 60000


class _TimeShim:
    """Replaces `time` inside breezy.lockdir: sleeping = let another actor run."""

    def __init__(self):
        self.sched = None

    def sleep(self, s):
        sc = self.sched
        if sc is not None and instr.current_actor() in sc.alive:
            sc.force_switch()
        else:
            _time.sleep(0)

    def __getattr__(self, name):
        return getattr(_time, name)


_shim = _TimeShim()


def _force_switch(self):
    """Hand the baton to another live actor (used by the lock wait loop)."""
    actor = instr.current_actor()
    with self.cv:
        if self.aborted:
            raise instr.ScheduleAbort()
        self.steps += 1
        if self.steps > self.max_steps:
            self.aborted = True
            self.cv.notify_all()
            raise instr.ScheduleAbort()
        others = [a for a in self.alive if a != actor]
        if not others:
            return
        nxt = self.rng.choice(others)
        self.decisions.append("w:" + nxt)
        self.switches += 1
        self.current = nxt
        self.cv.notify_all()
        while self.current != actor and not self.aborted:
            self.cv.wait(60)
        if self.aborted:
            raise instr.ScheduleAbort()


instr.Scheduler.force_switch = _force_switch


def worker_init(tier):
    import breezy.lockdir as ld

    instr.install()
    ld.time = _shim
    ld._DEFAULT_TIMEOUT_SECONDS = 10 ** 7
    ld._DEFAULT_POLL_SECONDS = 0


def _fmt(name):
    from breezy.controldir import format_registry

    return format_registry.make_controldir(name)


def _content(actor, i):
    return b"".join(b"%s line %d of version %d\n" % (actor.encode(), j, i) for j in range(1 + i % 4))


class Mon:
    def __init__(self, ctx, world, repo_path, fmt):
        self.ctx = ctx
        self.world = world
        self.repo_path = repo_path
        self.fmt = fmt
        self.acked = {}       # revid -> (actor, seq)
        self.pack_revs = {}   # pack name -> set of revision ids (immutable once in packs/)
        self.versions = 0
        world.after = self.after_op

    def _names_on_disk(self):
        from bzrformats.btree_index import BTreeGraphIndex
        from bzrformats.index import GraphIndex
        from dromedary import get_transport_from_path

        t = get_transport_from_path(os.path.join(self.repo_path, ".bzr", "repository"))
        cls = BTreeGraphIndex if self.fmt == "2a" else GraphIndex
        size = t.stat("pack-names").st_size
        idx = cls(t, "pack-names", size)
        return {e[1][0].decode(): e[2] for e in idx.iter_all_entries()}

    def _revs_of(self, name, sizes):
        if name in self.pack_revs:
            return self.pack_revs[name]
        from bzrformats.btree_index import BTreeGraphIndex
        from bzrformats.index import GraphIndex
        from dromedary import get_transport_from_path

        t = get_transport_from_path(os.path.join(self.repo_path, ".bzr", "repository", "indices"))
        cls = BTreeGraphIndex if self.fmt == "2a" else GraphIndex
        rix_size = int(sizes.split(b" ")[0])
        idx = cls(t, name + ".rix", rix_size)
        revs = {e[1][0] for e in idx.iter_all_entries()}
        self.pack_revs[name] = revs
        return revs

    def after_op(self, e):
        if e.op == "put_file" and e.path.endswith("repository/pack-names"):
            self.versions += 1
            self.ctx.count("packnames_versions")
            try:
                names = self._names_on_disk()
                visible = set()
                missing_files = []
                repo_dir = os.path.join(self.repo_path, ".bzr", "repository")
                for n, sizes in names.items():
                    if not os.path.exists(os.path.join(repo_dir, "packs", n + ".pack")) or not os.path.exists(os.path.join(repo_dir, "indices", n + ".rix")):
                        missing_files.append(n)
                        continue
                    visible |= self._revs_of(n, sizes)
            except Exception as ex:
                idir = os.path.join(self.repo_path, ".bzr", "repository", "indices")
                # Is a listed index file being rewritten in place right now by another actor that produced a pack
                # with identical content (same hash name)?  Index files are written at their final location.
                rewriting = None
                open_streams = {}
                for x in self.world.log:
                    if x.op == "open_write_stream" and "/indices/" in x.path:
                        open_streams[(x.actor, x.path)] = x.seq
                    elif x.op == "stream_close" and "/indices/" in x.path:
                        open_streams.pop((x.actor, x.path), None)
                for (actor, path), seq in open_streams.items():
                    nm = os.path.basename(path).split(".")[0]
                    if actor != e.actor and "names" in dir() and nm in (names or {}):
                        rewriting = (actor, os.path.basename(path))
                detail = {"indices_on_disk": {f: os.path.getsize(os.path.join(idir, f)) for f in sorted(os.listdir(idir))},
                          "log_tail": [repr(x) for x in self.world.log[-80:]]}
                if rewriting:
                    self.ctx.fail("packnames:listed-index-rewritten-in-place-by-identical-pack",
                                  "pack-names written by %s lists a pack whose index %s is at this moment truncated/being rewritten in place by %s, which built a pack with the same content hash: %r" % (
                                      e.actor, rewriting[1], rewriting[0], ex), detail)
                else:
                    self.ctx.fail("packnames:unreadable-version", "pack-names written by %s cannot be parsed / its packs read: %r" % (e.actor, ex), detail)
                return
            if missing_files:
                # who took the files away?  (the writer itself - it obsoleted what it still lists - or another actor that
                # had already written a pack-names version without that pack and is now obsoleting it)
                creators, movers = set(), set()
                for m_ in missing_files:
                    c_, v_ = _pack_story(self.world.log, m_)
                    creators |= c_
                    movers |= v_
                who = _story_key(creators, movers)
                self.ctx.fail("packnames:lists-pack-without-files:" + who, "pack-names version %d written by %s lists %r whose pack/index files are not in place (moved away by %s)" % (
                    self.versions, e.actor, missing_files[:3], sorted(movers) or "nobody"), {"log_tail": [repr(x) for x in self.world.log[-60:]]})
            lost = [r for r in self.acked if r not in visible]
            if lost:
                self.ctx.fail("packnames:acked-revision-not-listed", "pack-names version %d written by %s no longer covers acknowledged revisions %r" % (self.versions, e.actor, sorted(lost)[:4]),
                              {"log_tail": [repr(x) for x in self.world.log[-60:]], "acked": {k.decode(): v for k, v in self.acked.items()}})

    def ack(self, actor, revid):
        self.acked[revid] = (actor, self.world.seq)
        self.ctx.count("acks")


def _report_actor_error(ctx, world, role, name, e):
    import traceback

    tb = "".join(traceback.format_exception(type(e), e, e.__traceback__))[-3500:]
    where = "?"
    for fs in traceback.extract_tb(e.__traceback__):
        if "/breezy/bzr/" in fs.filename or fs.filename.endswith("/breezy/commit.py"):
            where = "%s.%s" % (os.path.splitext(os.path.basename(fs.filename))[0], fs.name)
    if role in ("committer", "packer"):
        # A writer whose operation fails because another process repacked under it loses nothing that was
        # acknowledged; the statement is about acknowledged data and about readers.  Observed, counted, not judged.
        ctx.hist("writer-error:%s:%s@%s" % (role, type(e).__name__, where))
        ctx.count("writer_errors_observed")
        return
    ctx.fail("actor:unexpected-exception:%s:%s@%s" % (role, type(e).__name__, where), "actor %s failed: %r" % (name, e),
             {"traceback": tb, "log_tail": [repr(x) for x in world.log[-60:]]})


def _committer(ctx, mon, sched, world, root, name, ncommits):
    from breezy import errors
    from breezy.workingtree import WorkingTree

    def run():
        co = os.path.join(root, "co" + name)
        done = 0
        attempts = 0
        while done < ncommits and attempts < ncommits * 6:
            attempts += 1
            wt = WorkingTree.open(co)
            with open(os.path.join(co, name + ".txt"), "wb") as f:
                f.write(_content(name, done))
            revid = ("%s-%d" % (name, done)).encode()
            try:
                wt.commit("c %s %d" % (name, done), rev_id=revid)
            except errors.LockContention:
                ctx.count("commit_lock_contention")
                sched.force_switch()
                continue
            except (instr.ScheduleAbort, instr.SimulatedCrash):
                raise
            except Exception as e:
                # the commit failed under concurrency: not an acknowledged revision; report the mechanism and
                # carry on with the next version (a fresh revision id), so the schedule keeps producing data
                _report_actor_error(ctx, world, "committer", name, e)
                done += 1
                continue
            mon.ack(name, revid)
            done += 1
        return done
    return run


def _packer(ctx, mon, sched, world, root, name, script):
    from breezy import errors
    from breezy.repository import Repository

    def run():
        n = 0
        for clean, pauses in script:
            for _ in range(pauses):
                sched.force_switch()
            repo = Repository.open(world.url(os.path.join(root, "repo")))
            try:
                with repo.lock_write():
                    repo.pack(clean_obsolete_packs=clean)
                n += 1
                ctx.count("explicit_packs")
            except errors.LockContention:
                ctx.count("pack_lock_contention")
        return n
    return run


def _reader(ctx, mon, sched, world, root, name, rounds, rng_seed):
    import random

    from breezy.repository import Repository

    rr = random.Random(rng_seed)

    def run():
        n = 0
        for _ in range(rounds):
            repo = Repository.open(world.url(os.path.join(root, "repo")))
            known = dict(mon.acked)  # acknowledged before this reader transaction started
            with repo.lock_read():
                hold = rr.randint(0, 3)
                ids = set(repo.all_revision_ids())
                miss = [r for r in known if r not in ids]
                if miss:
                    ctx.fail("reader:acked-revision-not-listed", "reader %s does not see acknowledged %r" % (name, sorted(miss)[:3]))
                for _ in range(hold):
                    sched.force_switch()  # others commit / pack while our view goes stale
                for rid in rr.sample(sorted(known), min(3, len(known))):
                    actor, i = rid.decode().rsplit("-", 1)
                    try:
                        t = repo.revision_tree(rid)
                        got = t.get_file_text(actor + ".txt")
                    except Exception as ex:
                        ctx.fail("reader:error-on-acked-data:%s" % type(ex).__name__, "reader %s (stale view) cannot read acknowledged %r: %r" % (name, rid, ex),
                                 {"log_tail": [repr(x) for x in world.log[-60:]]})
                        continue
                    ctx.count("reader_reads")
                    n += 1
                    if got != _content(actor, int(i)):
                        ctx.fail("reader:wrong-text", "revision %r file %s.txt: got %r" % (rid, actor, got[:60]))
                pm = repo.get_parent_map(list(known))
                if set(pm) != set(known):
                    ctx.fail("reader:parent-map-incomplete", "get_parent_map lost %r" % (sorted(set(known) - set(pm))[:3],))
        return n
    return run


def _setup(ctx, fmt, committers):
    from breezy.branch import Branch
    from breezy.controldir import ControlDir

    root = ctx.tmp("c05")
    repo_path = os.path.join(root, "repo")
    cd = ControlDir.create(repo_path, format=_fmt(fmt))
    cd.create_repository(shared=True)
    return root, repo_path


def _pack_story(log, name):
    """(creators, movers): actors that put a pack file under packs/<name>* and actors that moved it away."""
    creators, movers = set(), set()
    for x in log:
        if x.op not in ("move", "rename"):
            continue
        dst = x.extra if isinstance(x.extra, str) else ""
        if "/packs/" in dst and os.path.basename(dst).startswith(name):
            creators.add(x.actor)
        if "/packs/" in x.path and os.path.basename(x.path).startswith(name):
            movers.add(x.actor)
    return creators, movers


def _story_key(creators, movers):
    # the same content packed twice gets the same (content-hash) name: one actor's obsoletion then removes the files
    # another actor has just listed again - distinct from a writer listing a pack it never built
    if len(creators) >= 2:
        return "same-name-built-by-%d-actors" % len(creators)
    return "obsoleted-by-another-actor" if movers else "files-never-in-place"


def case(ctx):
    from breezy.branch import Branch
    from breezy.controldir import ControlDir
    from breezy.repository import Repository

    rng = ctx.rng
    fmt = "2a" if rng.random() < 0.7 else "pack-0.92"
    ncom = rng.choice([1, 2, 2, 2, 3])
    roles = ["committer"] * ncom
    extra = rng.choice(["packer", "reader", "packer+reader", "reader", "none"] if ncom < 3 else ["none", "reader"])
    root, repo_path = _setup(ctx, fmt, ncom)
    world = instr.World(root)
    strategy = rng.choice(["random", "random", "pct", "targeted", "targeted"])
    hot = None
    if strategy == "targeted":
        hot = lambda e: ("pack-names" in e.path or "/packs/" in e.path or "obsolete_packs" in e.path or (e.extra and isinstance(e.extra, str) and ("packs/" in e.extra)))
    sched = instr.Scheduler(world, rng, strategy="random" if strategy == "targeted" else strategy, p=rng.choice([0.05, 0.15, 0.3]), hot=hot,
                            max_steps=STEP_BUDGET, d=4)
    mon = Mon(ctx, world, repo_path, fmt)
    names = []
    procs = {}
    ncommits = rng.choice([6, 8, 11, 12]) if ctx.tier == "quick" else rng.choice([8, 12, 15, 22])
    # branches + lightweight checkouts whose branch reference goes through vf+
    with world.active(), world.actor("setup"):
        for i in range(ncom):
            n = "ABC"[i]
            bpath = os.path.join(repo_path, "b" + n)
            bd = ControlDir.create(bpath, format=_fmt(fmt))
            bd.create_branch()
            br = Branch.open(world.url(bpath))
            co = br.create_checkout(os.path.join(root, "co" + n), lightweight=True)
            with open(os.path.join(root, "co" + n, n + ".txt"), "wb") as f:
                f.write(b"initial\n")
            co.add([n + ".txt"])
            names.append(n)
            procs[n] = _committer(ctx, mon, sched, world, root, n, ncommits)
    world.log = []
    if "packer" in extra:
        script = [(rng.random() < 0.5, rng.randint(1, 30)) for _ in range(rng.randint(1, 4))]
        procs["P"] = _packer(ctx, mon, sched, world, root, "P", script)
    if "reader" in extra:
        procs["R"] = _reader(ctx, mon, sched, world, root, "R", rng.randint(3, 10), rng.random())
    _shim.sched = sched
    try:
        done = sched.run(procs, timeout=300)
    finally:
        _shim.sched = None
    ctx.hist("strategy:" + strategy)
    ctx.hist("roles:%dc+%s" % (ncom, extra))
    for n, e in sched.errors.items():
        _report_actor_error(ctx, world, "committer" if n in "ABC" else {"P": "packer", "R": "reader"}.get(n, n), n, e)
    if not done:
        ctx.hist("schedule-not-finished")
        ctx.count("budget_exhausted")
    # final judge on fresh, uninstrumented objects
    world.scheduler = None
    repo = Repository.open(repo_path)
    with repo.lock_read():
        try:
            ids = set(repo.all_revision_ids())
        except Exception as ex:
            if "NoSuchFile" not in type(ex).__name__:
                raise
            # the final pack-names lists a pack whose files are gone: name who moved them away
            missing = str(getattr(ex, "path", "") or ex).split(".")[0].split("'")[-1].split("/")[-1]
            creators, movers = _pack_story(world.log, missing) if missing else (set(), set())
            ctx.fail("final:listed-pack-missing:" + _story_key(creators, movers),
                     "after all actors finished the repository cannot be read: %r (pack moved away by %s)" % (ex, movers or "nobody"),
                     {"log_tail": [repr(x) for x in world.log[-60:]]})
            return
        lost = [r for r in mon.acked if r not in ids]
        if lost:
            ctx.fail("final:acked-revision-lost", "acknowledged revisions missing at the end: %r" % (sorted(lost)[:5],), {"log_tail": [repr(x) for x in world.log[-80:]]})
        for rid in sorted(mon.acked):
            if rid in lost:
                continue
            actor, i = rid.decode().rsplit("-", 1)
            try:
                got = repo.revision_tree(rid).get_file_text(actor + ".txt")
                if got != _content(actor, int(i)):
                    ctx.fail("final:wrong-text", "revision %r: %r" % (rid, got[:50]))
            except Exception as ex:
                ctx.fail("final:acked-revision-unreadable", "revision %r unreadable at the end: %r" % (rid, ex))
    probs = observe.check_repo(repo)
    if probs:
        ctx.fail("final:check-unclean", repr(probs))
    try:
        names_final = mon._names_on_disk()
        rd = os.path.join(repo_path, ".bzr", "repository")
        for n in names_final:
            for sub, ext in (("packs", ".pack"), ("indices", ".rix"), ("indices", ".iix"), ("indices", ".tix")):
                if not os.path.exists(os.path.join(rd, sub, n + ext)):
                    ctx.fail("final:listed-pack-missing-file", "final pack-names lists %s but %s/%s%s is missing" % (n, sub, n, ext))
    except Exception as ex:
        ctx.fail("final:pack-names-unreadable", repr(ex))
    ctx.count("final_judge")
    ctx.distinct("schedule", sched.schedule_hash())
    ctx.count("yield_points", sched.steps)
    ctx.count("context_switches", sched.switches)
    ctx.count("hot_window_hits", sched.hot_hits)
    autopacks = sum(1 for e in world.log if e.op in ("rename", "move") and e.extra and "obsolete_packs" in str(e.extra))
    ctx.count("packs_obsoleted", autopacks)
    ctx.note(("sched", sched.schedule_hash()), nontrivial=sched.switches >= 20 and len(mon.acked) >= 8 and mon.versions >= 3,
             sample={"format": fmt, "actors": sorted(procs), "commits_per_committer": ncommits, "strategy": strategy, "yield_points": sched.steps,
                     "switches": sched.switches, "acked": len(mon.acked), "pack_names_versions": mon.versions, "packs_obsoleted": autopacks, "finished": done})
