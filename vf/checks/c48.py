"""C48 - ignore patterns match according to their documented semantics.

Three oracles on the real breezy.globbing classes plus an end-to-end monitor on
a real working tree:

 1. grouping independence: S(f) = {Globster([p]).match(f)} over the single patterns;
    Globster(list).match(f) must be a member of S(f) and None iff S(f) is empty - for
    the list, a permutation of it, every part of a random split, and (with order)
    _OrderedGlobster.  Lists cross the 99-pattern batching in every type bucket and
    put the only matching patterns right at the batch borders.
 2. single-pattern semantics against the reference matcher of _c48_ref (written from
    `brz help patterns`), on the documented grammar only.
 3. precedence: ExceptionGlobster(list) == (normal and not '!') or '!!', reported
    pattern must be one that matches; computed from single-pattern answers, and - for
    lists of documented-grammar patterns - also from the reference matcher (a pattern
    that silently stops matching also stops excepting / re-ignoring).
 4. end to end: WorkingTree.is_ignored / ignored_files / unknowns on a real tree whose
    patterns come from .bzrignore, the user ignore file and runtime ignores.
"""
import os
import zlib

from . import _c48_ref as R

ID = "C48"
LEVEL = "exploration"
TECHNIQUE = ("law monitor (grouping independence, exception precedence) on the real Globster classes + "
             "documentation-derived reference matcher for single patterns + end-to-end is_ignored on a real tree")
LEVEL_TEXT = ("held on the generated (pattern list, file name) pairs: lists of 1-600 patterns crossing the 99-group "
              "batching in each bucket, names of depth <= 3 over an alphabet with regex-special characters")
RULE = ("case = seeded pattern lists (documented grammar U, including path patterns whose directory components are globs "
        "such as '*.d/x' + undocumented-but-valid grammar A + unique fillers that match "
        "nothing, live patterns placed at batch borders) x 24-40 file names (60% derived from the patterns); one evaluation = "
        "one (list, name) or (pattern, name) judged; non-trivial = at least one single pattern matches the name "
        "(grouping/precedence/e2e) or the pair is judged by the reference (single); distinct = distinct (patterns, name)")
CASES = {"quick": 256, "thorough": 16000}
BUDGET_S = {"quick": 30, "thorough": 800}
MIN_EVALS = {"quick": 20000, "thorough": 2500000}
FLOORS = {
    # quick floors sit at ~15% of a full run: on a loaded machine the 30 s soft deadline cuts the run short
    "quick": {"grouping_list": 1200, "grouping_multibatch_hit": 120, "grouping_permutation": 1200, "grouping_split": 1200,
              "ordered_globster": 1200, "single_ref": 30000, "single_ref_match": 2000, "precedence": 2000, "precedence_ref": 800,
              "precedence_excluded": 500, "precedence_doubleneg": 800, "e2e_is_ignored": 500, "e2e_tree_listing": 15,
              "single_newline_name": 1200, "doc_example": 25},
    # thorough floors sit at ~20% of a full run: a loaded machine that reaches the soft deadline early must not turn "held" into "inconclusive"
    "thorough": {"grouping_list": 90000, "grouping_multibatch_hit": 10000, "grouping_permutation": 90000,
                 "grouping_split": 90000, "ordered_globster": 90000, "single_ref": 2500000, "single_ref_match": 170000,
                 "precedence": 160000, "precedence_ref": 50000, "precedence_excluded": 40000, "precedence_doubleneg": 60000,
                 "e2e_is_ignored": 40000, "e2e_tree_listing": 1300, "single_newline_name": 100000, "doc_example": 25},
}
EXHAUSTIVE = {"quick": False, "thorough": False}
ASSUMPTIONS = [
    "Python's own re module is trusted as the meaning of an RE: pattern body (whole-path match = re.fullmatch)",
    "the reference matcher judges only the documented grammar (see _c48_ref docstring); undocumented forms are judged "
    "by the reference-free grouping/precedence laws only",
    "file names contain no '/' inside components, no NUL; names with line breaks are a separate, thin class",
    "case-insensitive / backslash-separated platforms (Windows) are out of reach",
]

_single_cache = {}


def _single(pat):
    """Globster([pat]) (cached per worker).  Returns the globster."""
    from breezy.globbing import Globster

    g = _single_cache.get(pat)
    if g is None:
        if len(_single_cache) > 20000:
            _single_cache.clear()
        g = _single_cache[pat] = Globster([pat])
    return g


def _S(pats, name):
    """Set of patterns (as reported, i.e. normalised) that match `name` on their own."""
    out = set()
    for p in pats:
        r = _single(p).match(name)
        if r is not None:
            out.add(r)
    return out


def _lid(pats):
    return "%08x:%d" % (zlib.crc32("\x00".join(pats).encode("utf-8", "surrogateescape")), len(pats))


def _valid(pat):
    from breezy.globbing import Globster, normalize_pattern

    return Globster.is_pattern_valid(normalize_pattern(pat))


def _bucket(pat):
    from breezy.globbing import Globster, normalize_pattern

    return Globster.identify(normalize_pattern(pat))


_fill_n = [0]


def _filler(rng, bucket):
    _fill_n[0] += 1
    n = "%d_%d" % (_fill_n[0] % 100000, rng.randrange(1000))
    if bucket == "extension":
        return "*.zfill" + n
    if bucket == "basename":
        return rng.choice(["zfill%s", "zf?ll%s*", "zfill%s.[ch]"]) % n
    return rng.choice(["zfill%s/x", "./zfill%s", "**/zfill%s/*", "RE:zfill%s/.*", "RE:.*/zfill%s"]) % n


def make_list(ctx, rng, names):
    """A pattern list plus names; lists are shaped to stress the 99-batching."""
    shape = rng.choice(["small", "small", "border", "border", "border", "big", "mixed"])
    live_n = rng.choice([1, 2, 3, 5, 8])
    live = []
    for _ in range(live_n):
        live.append(R.gen_U(rng, names)[0] if rng.random() < 0.75 else R.gen_A(rng, names))
    if shape == "small":
        extra = [R.gen_U(rng, names)[0] if rng.random() < 0.8 else R.gen_A(rng, names) for _ in range(rng.randrange(0, 20))]
        pats = live + extra
        rng.shuffle(pats)
        return shape, pats
    if shape == "mixed":
        # many real patterns, no fillers: batches full of patterns that do match
        pats = [R.gen_U(rng, names)[0] if rng.random() < 0.85 else R.gen_A(rng, names) for _ in range(rng.randrange(100, 261))]
        return shape, pats
    # border / big: fillers in every bucket so that live patterns sit at chosen bucket positions
    pats = []
    per_bucket = {"extension": [], "basename": [], "fullpath": []}
    for p in live:
        per_bucket[_bucket(p)].append(p)
    for b, lv in per_bucket.items():
        if shape == "border":
            total = rng.choice([97, 98, 99, 100, 101, 102, 197, 198, 199, 200, 201]) if (lv or rng.random() < 0.5) else rng.randrange(0, 30)
        else:
            total = rng.randrange(100, 260)
        fills = [_filler(rng, b) for _ in range(max(0, total - len(lv)))]
        seq = fills
        for p in lv:
            k = rng.random()
            if k < 0.6 and len(seq) >= 97:
                pos = rng.choice([x for x in (97, 98, 99, 100, 101, 196, 197, 198, 199, 200, len(seq)) if x <= len(seq)])
            elif k < 0.8:
                pos = len(seq)
            else:
                pos = rng.randrange(len(seq) + 1)
            seq.insert(pos, p)
        per_bucket[b] = seq
    # interleave the buckets at random while keeping each bucket's internal order
    idx = {b: 0 for b in per_bucket}
    order = [b for b, s in per_bucket.items() for _ in s]
    rng.shuffle(order)
    for b in order:
        pats.append(per_bucket[b][idx[b]])
        idx[b] += 1
    return shape, pats


def make_names(rng, n):
    return list(dict.fromkeys(R.gen_name(rng) for _ in range(n)))


def derive_names(rng, pats, names, n):
    """More names, derived from patterns (so that matches and near-misses are frequent)."""
    out = list(names)
    cands = [p for p in pats if "zfill" not in p]
    for _ in range(n):
        if not cands:
            break
        p = rng.choice(cands)
        if p.startswith("RE:"):
            continue
        s = p.rstrip("/")
        if s.startswith("./"):
            s = s[2:]
        comps = []
        for c in s.split("/"):
            if c == "**":
                comps += [rng.choice(R.DIRS) for _ in range(rng.choice([0, 0, 1, 2]))]
                continue
            toks = []
            try:
                for t in R._tokens(c):
                    if t[0] == "lit":
                        toks.append(t[1])
                    elif t[0] == "any1":
                        toks.append(rng.choice("abxZ.1"))
                    elif t[0] == "star":
                        toks.append(rng.choice(["", "", "a", "foo", ".c", "x.y"]))
                    else:
                        pool = sorted(t[2]) if not t[1] else [ch for ch in "abcxyz1Q" if ch not in t[2]]
                        toks.append(rng.choice(pool or ["a"]))
            except ValueError:
                toks = [c.replace("[", "").replace("]", "")]
            comps.append("".join(toks))
        comps = [c for c in comps if c and c != "."]
        if not comps:
            continue
        k = rng.random()
        if k < 0.25:
            comps = [rng.choice(R.DIRS)] + comps       # same thing one level deeper
        elif k < 0.35:
            comps = comps + [R.gen_basename(rng)]      # the matched thing is a directory
        elif k < 0.42 and len(comps) > 1:
            comps = comps[1:]
        elif k < 0.5:
            comps[-1] = comps[-1].swapcase()
        elif k < 0.56:
            comps[-1] = comps[-1] + rng.choice(["x", "~", ".c"])
        elif k < 0.6:
            comps[-1] = rng.choice(["x", "."]) + comps[-1]
        name = "/".join(comps)
        if name and "\n" not in name and len(comps) <= 5:
            out.append(name)
    return list(dict.fromkeys(out))


# ------------------------------------------------------------------ oracles

def oracle_grouping(ctx, rng, shape, pats, names):
    from breezy.globbing import Globster, _OrderedGlobster

    lid = _lid(pats)
    full = Globster(pats)
    perm = list(pats)
    rng.shuffle(perm)
    gperm = Globster(perm)
    k = rng.choice([2, 2, 3, 5])
    cuts = sorted(rng.randrange(len(pats) + 1) for _ in range(k - 1))
    parts = [pats[a:b] for a, b in zip([0] + cuts, cuts + [len(pats)])]
    gparts = [Globster(p) for p in parts]
    ordered = _OrderedGlobster(pats)
    buckets = {}
    for p in pats:
        buckets.setdefault(_bucket(p), []).append(p)
    multibatch = any(len(v) > 99 for v in buckets.values())
    from breezy.globbing import normalize_pattern

    late = set()  # normalised patterns that sit beyond the first batch of their bucket
    for v in buckets.values():
        late.update(normalize_pattern(p) for p in v[99:])
    ctx.hist("list_shape:" + shape)
    ctx.hist("list_len:%d" % (min(len(pats), 299) // 50 * 50))
    for f in names:
        S = _S(pats, f)
        d = {"patterns": pats if len(pats) <= 40 else {"n": len(pats), "matching": sorted(S)}, "name": f}
        r = full.match(f)
        ctx.count("grouping_list")
        if S and S <= late:
            ctx.count("grouping_multibatch_hit")
        if r is None:
            ctx.check(not S, "grouping:list-misses-match",
                      "no match from the %d-pattern list but %r match %r on their own" % (len(pats), sorted(S)[:3], f), d)
        else:
            ctx.check(r in S, "grouping:list-reports-nonmatching-pattern",
                      "list reports %r for %r, which does not match on its own (matching: %r)" % (r, f, sorted(S)[:3]), d)
        r = gperm.match(f)
        ctx.count("grouping_permutation")
        ctx.check((r in S) if r is not None else not S, "grouping:permutation-changes-result",
                  "permuted list gives %r for %r, single-pattern matches %r" % (r, f, sorted(S)[:3]), d)
        rs = [g.match(f) for g in gparts]
        ctx.count("grouping_split")
        ok = all(x is None or x in S for x in rs) and (any(x is not None for x in rs) == bool(S))
        ctx.check(ok, "grouping:split-changes-result",
                  "split at %r gives %r for %r, single-pattern matches %r" % (cuts, rs, f, sorted(S)[:3]), d)
        ro = ordered.match(f)
        ctx.count("ordered_globster")
        first = None
        for p in pats:
            q = _single(p).match(f)
            if q is not None:
                first = q
                break
        ctx.check(ro == first, "ordered:not-first-in-order",
                  "_OrderedGlobster gives %r for %r, first matching pattern in order is %r" % (ro, f, first), d)
        ctx.note(("g", lid, f), nontrivial=bool(S),
                 sample={"oracle": "grouping", "n_patterns": len(pats), "buckets": {b: len(v) for b, v in buckets.items()},
                         "name": f, "list_result": full.match(f), "single_matches": sorted(S)[:4]} if S and multibatch else None)


def oracle_single(ctx, rng, upats, names):
    from breezy import lazy_regex

    for p, kind in upats:
        g = _single(p)
        for f in names:
            want = R.ref_match(p, f)
            try:
                got = g.match(f)
            except lazy_regex.InvalidPattern as e:
                ctx.count("single_ref")
                ctx.fail("single:valid-pattern-rejected:" + kind.split("+")[0],
                         "documented pattern %r raises InvalidPattern: %s" % (p, str(e)[:200]), {"pattern": p, "name": f})
                break
            ctx.count("single_ref")
            if want:
                ctx.count("single_ref_match")
            ctx.hist("single:%s:%s" % (kind.split("+")[0], "match" if want else "nomatch"))
            if (got is not None) != want:
                k0 = kind.split("+")[0]
                ctx.fail("single:re-escaped-paren-becomes-group" if k0 == "re-escparen" else "single:%s:%s" % (k0, "missed" if want else "spurious"),
                         "pattern %r vs name %r: documentation says %s, Globster says %r" % (p, f, "match" if want else "no match", got),
                         {"pattern": p, "name": f, "kind": kind})
            elif got is not None:
                ctx.check(got == p.rstrip("/"), "single:reported-pattern-differs",
                          "pattern %r reported as %r" % (p, got), {"pattern": p, "name": f})
            ctx.note(("s", p, f), nontrivial=True,
                     sample={"oracle": "single", "pattern": p, "kind": kind, "name": f, "reference": want, "globster": got}
                     if want and rng.random() < 0.01 else None)
            if rng.random() < 0.04:
                # thin class: the same name with a line break inside (an ordinary character for the documentation)
                i = rng.choice([0, len(f), len(f), rng.randrange(len(f) + 1)])
                f2 = f[:i] + "\n" + f[i:]
                want2 = R.ref_match(p, f2)
                got2 = g.match(f2)
                ctx.count("single_newline_name")
                ctx.hist("single_newline:%s" % ("match" if want2 else "nomatch"))
                ctx.check((got2 is not None) == want2, "single:newline-in-name",
                          "pattern %r vs name %r: documentation says %s, Globster says %r" % (p, f2, "match" if want2 else "no match", got2),
                          {"pattern": p, "name": f2, "kind": kind})
                ctx.note(("sn", p, f2), nontrivial=True)


def _prefixed(rng, pats):
    """Attach '', '!' or '!!' to patterns.  Returns list of (prefix, pattern)."""
    out = []
    for p in pats:
        if p.startswith("!"):
            continue
        k = rng.random()
        if "zfill" in p:
            pre = "" if k < 0.5 else ("!" if k < 0.75 else "!!")
        else:
            pre = "" if k < 0.45 else ("!" if k < 0.75 else "!!")
        out.append((pre, p))
    return out


def expected_exception(pp, f):
    """(N, E, D): single-pattern match sets of the normal, '!' and '!!' classes."""
    N = _S([p for pre, p in pp if pre == ""], f)
    E = _S([p for pre, p in pp if pre == "!"], f)
    D = _S([p for pre, p in pp if pre == "!!"], f)
    return N, E, D


class _OneKey:
    """ctx adapter: every failure gets exactly `key` (used for a population that isolates one known mechanism)."""

    def __init__(self, ctx, key):
        self.ctx, self.key = ctx, key

    def count(self, *a):
        self.ctx.count(*a)

    def check(self, cond, key, msg, detail=None):
        return self.ctx.check(cond, self.key, msg, detail)


def judge_exception(ctx, r, N, E, D, key, what, d):
    if D:
        ok = r is not None and r.startswith("!!") and r[2:] in D
        ctx.count("precedence_doubleneg")
        ctx.check(ok, key + ":doubleneg-not-honoured", "%s: '!!' patterns %r match but result is %r" % (what, sorted(D)[:3], r), d)
    elif E:
        ctx.count("precedence_excluded")
        ctx.check(r is None, key + ":exception-not-honoured", "%s: '!' patterns %r match, no '!!' does, but result is %r" % (what, sorted(E)[:3], r), d)
    elif N:
        ctx.check(r is not None and r in N, key + ":normal-match-lost", "%s: normal patterns %r match, result %r" % (what, sorted(N)[:3], r), d)
    else:
        ctx.check(r is None, key + ":spurious", "%s: nothing matches but result is %r" % (what, r), d)


def oracle_precedence(ctx, rng, pats, names):
    from breezy.globbing import ExceptionGlobster

    pp = _prefixed(rng, pats)
    lst = [pre + p for pre, p in pp]
    eg = ExceptionGlobster(lst)
    lid = _lid(lst)
    for f in names:
        N, E, D = expected_exception(pp, f)
        r = eg.match(f)
        ctx.count("precedence")
        cls = ("D" if D else "") + ("E" if E else "") + ("N" if N else "") or "-"
        ctx.hist("precedence_class:" + cls)
        d = {"patterns": lst if len(lst) <= 40 else {"n": len(lst)}, "name": f,
             "normal": sorted(N)[:5], "exceptions": sorted(E)[:5], "double": sorted(D)[:5]}
        judge_exception(ctx, r, N, E, D, "precedence", "ExceptionGlobster on %r" % f, d)
        ctx.note(("p", lid, f), nontrivial=bool(N or E or D),
                 sample={"oracle": "precedence", "n_patterns": len(lst), "name": f, "class": cls, "result": r}
                 if len(cls) > 1 and rng.random() < 0.02 else None)


def oracle_precedence_ref(ctx, rng, upats, names):
    """Precedence of a list of documented-grammar patterns, judged by the REFERENCE matcher (not by single-pattern
    answers of the real code): a pattern that silently stops matching also stops excepting / re-ignoring."""
    from breezy import lazy_regex
    from breezy.globbing import ExceptionGlobster

    pp = _prefixed(rng, [p for p, _ in upats])
    if not pp:
        return
    lst = [pre + p for pre, p in pp]
    lid = _lid(lst)
    try:
        eg = ExceptionGlobster(lst)
        for f in names:
            N = {p.rstrip("/") for pre, p in pp if pre == "" and R.ref_match(p, f)}
            E = {p.rstrip("/") for pre, p in pp if pre == "!" and R.ref_match(p, f)}
            D = {p.rstrip("/") for pre, p in pp if pre == "!!" and R.ref_match(p, f)}
            r = eg.match(f)
            ctx.count("precedence_ref")
            cls = ("D" if D else "") + ("E" if E else "") + ("N" if N else "") or "-"
            ctx.hist("precedence_ref_class:" + cls)
            d = {"patterns": lst, "name": f, "normal": sorted(N)[:5], "exceptions": sorted(E)[:5], "double": sorted(D)[:5]}
            judge_exception(ctx, r, N, E, D, "precedence-ref", "ExceptionGlobster on %r (expected from the documentation)" % f, d)
            ctx.note(("pr", lid, f), nontrivial=bool(N or E or D),
                     sample={"oracle": "precedence-ref", "patterns": lst, "name": f, "class": cls, "result": r}
                     if len(cls) > 1 and rng.random() < 0.02 else None)
    except lazy_regex.InvalidPattern as e:
        ctx.fail("precedence-ref:valid-pattern-rejected", "documented patterns raise InvalidPattern: %s" % str(e)[:200].replace("\n", " "),
                 {"patterns": lst})


# ------------------------------------------------------------------ end to end

_tree_dir = [None]
TREE_DIRS = ["d1", "d1/d2", "lib", "lib/Src", "a b", "x.d", "lib/My.app"]


def _template_tree():
    """One real working tree per worker (versioned directories so that extras() descends)."""
    if _tree_dir[0] is None:
        from breezy.controldir import ControlDir

        from .. import boot

        p = boot.fresh_dir("c48tree")
        wt = ControlDir.create_standalone_workingtree(p)
        for d in TREE_DIRS:
            os.mkdir(os.path.join(p, d))
        wt.add(TREE_DIRS)
        wt.commit("dirs")
        _tree_dir[0] = p
    return _tree_dir[0]


def oracle_e2e(ctx, rng, pats, names, fixed=None):
    from breezy import bedding, ignores, lazy_regex
    from breezy.workingtree import WorkingTree

    pp = fixed or [(pre, p) for pre, p in _prefixed(rng, [p for p in pats if not p.startswith("#") and p == p.strip() and p])
                   if "\n" not in p and "\r" not in p]
    # '!RE:..\..' / '!!RE:..\..' read from a file: a separate sub-population (1 case in 6) with its own mechanism key,
    # see fixes/C48-exception-re-backslash.md; elsewhere RE: patterns with a backslash stay unprefixed
    pre_re = fixed is not None or rng.random() < 1 / 6
    if not pre_re:
        pp = [("" if (p.startswith("RE:") and "\\" in p) else pre, p) for pre, p in pp]
    has_pre_re = any(pre and p.startswith("RE:") and "\\" in p for pre, p in pp)
    key = "e2e-prefixed-re-backslash" if has_pre_re else "e2e"
    ctx.hist("e2e_population:" + key)
    jctx = _OneKey(ctx, "e2e:prefixed-re-pattern-backslash-normalised") if has_pre_re else ctx
    if len(pp) > 120:
        pp = rng.sample(pp, 120)
    if not pp:
        return
    root = _template_tree()
    lid = _lid(sorted(pre + p for pre, p in pp))
    # distribute over the three sources
    src = {"bzrignore": [], "user": [], "runtime": []}
    for pre, p in pp:
        k = rng.random()
        src["bzrignore" if k < 0.6 else ("user" if k < 0.9 else "runtime")].append(pre + p)
    eol = rng.choice(["\n", "\n", "\r\n"])
    # comment lines that WOULD match names if they were taken as patterns (`brz help ignore`: '#' starts a comment)
    body = ["# generated", "", "#*", "#*#"] + src["bzrignore"]
    body.insert(rng.randrange(4, len(body) + 1), "#*.*")
    ignore_path = os.path.join(root, ".bzrignore")
    user_path = bedding.user_ignore_config_path()
    os.makedirs(os.path.dirname(user_path), exist_ok=True)
    created = []
    rt = ignores.get_runtime_ignores()
    saved_rt = set(rt)
    try:
        with open(ignore_path, "wb") as fh:
            fh.write((eol.join(body) + (eol if rng.random() < 0.7 else "")).encode("utf-8"))
        with open(user_path, "wb") as fh:
            fh.write(("\n".join(src["user"]) + "\n").encode("utf-8"))
        ignores.add_runtime_ignores(src["runtime"])
        wt = WorkingTree.open(root)
        with wt.lock_read():
            for f in names:
                N, E, D = expected_exception(pp, f)
                r = wt.is_ignored(f)
                ctx.count("e2e_is_ignored")
                d = {"bzrignore": src["bzrignore"][:40], "user": src["user"][:40], "runtime": src["runtime"][:40], "name": f, "eol": eol}
                judge_exception(jctx, r, N, E, D, key, "tree.is_ignored(%r)" % f, d)
                ctx.note(("e", lid, f), nontrivial=bool(N or E or D),
                         sample={"oracle": "e2e", "sources": {k: len(v) for k, v in src.items()}, "name": f, "is_ignored": r}
                         if (N or D) and rng.random() < 0.02 else None)
        # real files: listing through the tree must agree with is_ignored's law
        want = {}
        for f in names:
            parts = f.split("/")
            if "/".join(parts[:-1]) not in [""] + TREE_DIRS or f in TREE_DIRS or f == ".bzrignore":
                continue
            ap = os.path.join(root, f)
            if os.path.lexists(ap):
                continue
            try:
                with open(ap, "wb") as fh:
                    fh.write(b"x")
            except OSError:
                continue
            created.append(ap)
            want[f] = expected_exception(pp, f)
        if want:
            wt = WorkingTree.open(root)
            with wt.lock_read():
                ign = dict(wt.ignored_files())
                unk = set(wt.unknowns())
            ctx.count("e2e_tree_listing")
            for f, (N, E, D) in want.items():
                should = bool(D) or (bool(N) and not E)
                d = {"bzrignore": src["bzrignore"][:40], "user": src["user"][:40], "runtime": src["runtime"][:40], "name": f}
                jctx.check((f in ign) == should and (f in unk) == (not should), key + ":listing-disagrees",
                          "file %r: expected %s; ignored_files has it: %s, unknowns has it: %s" % (
                              f, "ignored" if should else "unknown", f in ign, f in unk), d)
                if f in ign:
                    judge_exception(jctx, ign[f], N, E, D, key + ":listing", "ignored_files()[%r]" % f, d)
                ctx.hist("e2e_listing:" + ("ignored" if should else "unknown"))
    except lazy_regex.InvalidPattern as e:
        # every pattern written was valid on its own (filtered with is_pattern_valid): only the mangling of a
        # prefixed RE: pattern by the ignore-file reader can make the list invalid
        if not has_pre_re:
            raise
        jctx.check(False, key, "valid patterns, but the tree's matcher raises InvalidPattern: %s" % str(e)[:200].replace("\n", " "),
                   {"bzrignore": src["bzrignore"][:40], "user": src["user"][:40], "runtime": src["runtime"][:40]})
    finally:
        rt.clear()
        rt.update(saved_rt)
        for ap in created:
            try:
                os.unlink(ap)
            except OSError:
                pass
        for p in (ignore_path, user_path):
            try:
                os.unlink(p)
            except OSError:
                pass


# ------------------------------------------------------------------ doc examples (deterministic, every case 0)

DOC_EXAMPLES = [
    # (patterns as given to `brz ignore`, name, ignored?)  - from `brz help ignore` and `brz help patterns`
    (["./Makefile"], "Makefile", True), (["./Makefile"], "sub/Makefile", False),
    (["*.class"], "a/b/X.class", True), (["*.class", "!special.class"], "special.class", False),
    (["*.class", "!special.class"], "d/special.class", False), (["*.class", "!special.class"], "other.class", True),
    (["lib/**/*.o"], "lib/x.o", True), (["lib/**/*.o"], "lib/a/b/x.o", True), (["lib/**/*.o"], "src/lib/x.o", False),
    (["RE:lib/.*\\.o"], "lib/a/x.o", True), (["RE:lib/.*\\.o"], "xlib/a/x.o", False),
    (["RE:(?!debian/).*"], "debian/rules", False), (["RE:(?!debian/).*"], "src/x.c", True),
    (["*", "!./local", "!!*~"], "foo", True), (["*", "!./local", "!!*~"], "local", False),
    (["*", "!./local", "!!*~"], "local~", True), (["*", "!./local", "!!*~"], "x/y~", True),
    (["RE:(?i)foo"], "FOO", True), (["RE:(?i)foo"], "foo", True), (["RE:(?i)foo"], "bar", False),
    (["foo/"], "a/foo", True), (["a/foo/"], "a/foo", True), (["a/foo/"], "b/a/foo", False),
    # "patterns containing a slash match the whole path from the root", whatever the first component looks like
    (["*.d/*"], "conf.d/a", True), (["*.d/*"], "conf.d/a/b", False), (["*.d/*"], "etc/conf.d/a", False),
    (["*.egg-info/PKG-INFO"], "foo.egg-info/PKG-INFO", True), (["*.d/**/x"], "conf.d/p/q/x", True),
    (["*/*.o"], "lib/a.o", True), (["*/*.o"], "a.o", False), (["?ib/x"], "lib/x", True),
    (["*.tmp", "!*.keep/*", "!!*.keep/core"], "a.keep/x.tmp", False), (["*.tmp", "!*.keep/*", "!!*.keep/core"], "a.keep/core", True),
    (["*.tmp", "!*.keep/*", "!!*.keep/core"], "b/x.tmp", True),
    # ordinary regex syntax in an RE: pattern (an escaped parenthesis is not a group)
    (["RE:f\\(1\\)\\.txt"], "f(1).txt", True, "single:re-escaped-paren-becomes-group"),
    (["RE:f\\(1\\)\\.txt"], "f1.txt", False, "single:re-escaped-paren-becomes-group"),
]


def oracle_doc_examples(ctx):
    from breezy import lazy_regex
    from breezy.globbing import ExceptionGlobster

    for ex in DOC_EXAMPLES:
        pats, name, want = ex[:3]
        ctx.count("doc_example")
        d = {"patterns": pats, "name": name, "documented": want}
        try:
            r = ExceptionGlobster(pats).match(name)
        except lazy_regex.InvalidPattern as e:
            inline = any(p.startswith("RE:(?") and p[5:6].isalpha() and ")" in p[:12] and ":" not in p[4:p.index(")")] for p in pats)
            ctx.fail("doc-example:re-inline-flags:invalid-pattern" if inline else "doc-example:invalid-pattern",
                     "documented example %r raises InvalidPattern (%s)" % (pats, str(e)[:160].replace("\n", " ")), d)
            continue
        ctx.check((r is not None) == want, ex[3] if len(ex) > 3 else "doc-example:wrong-answer",
                  "documented example %r on %r: expected ignored=%s, got %r" % (pats, name, want, r), d)
        ctx.note(("doc", pats, name), nontrivial=True)


# ------------------------------------------------------------------ case

def case(ctx):
    rng = ctx.rng
    if ctx.index == 0:
        oracle_doc_examples(ctx)
        # deterministic witness for exception patterns that are regular expressions, read from the ignore files
        oracle_e2e(ctx, ctx.rng, [], ["keep.c", "x.c", "a.bak", "d1/keep.c", "d1/y.bak", "keep/c"],
                   fixed=[("", "*.c"), ("!", "RE:(.*/)?keep\\.c"), ("!!", "RE:.*\\.bak"), ("", "RE:.*\\.tmp")])
    names = make_names(rng, 10)
    shape, pats = make_list(ctx, rng, names)
    n0 = len(pats)
    pats = [p for p in pats if _valid(p)]
    if len(pats) != n0:
        ctx.hist("invalid_patterns_dropped", n0 - len(pats))
    if not pats:
        ctx.discard("empty-list")
    names = derive_names(rng, pats, names, rng.choice([14, 20, 30]))
    oracle_grouping(ctx, rng, shape, pats, names)
    # single-pattern semantics: fresh documented patterns, names derived from them
    upats = list(dict.fromkeys(R.gen_U(rng, names) for _ in range(24)))
    snames = derive_names(rng, [p for p, _ in upats], names[:12], 30)
    oracle_single(ctx, rng, upats, snames)
    # precedence on the same list and on a small all-live list
    oracle_precedence(ctx, rng, pats, names)
    small = [p for p in [p for p, _ in upats[:12]] + [R.gen_A(rng, names) for _ in range(2)] if _valid(p)]
    oracle_precedence(ctx, rng, small, snames[:24])
    # the same kind of list, expected answer from the documentation instead of from single-pattern answers
    oracle_precedence_ref(ctx, rng, [u for u in upats if u[1].split("+")[0] != "re-escparen"][:14], snames[:24])
    if rng.random() < 0.5:        # (not index % 2: shards take indices modulo the shard count)
        oracle_e2e(ctx, rng, small + [p for p in pats if "zfill" not in p][:30] + [p for p in pats if "zfill" in p][:40], snames[:30])
