"""C40 workload: revisions whose delta REPLACES the occupant of a path.

The shared history builder renames onto free paths only.  Patch-format bundles (0.8 / 0.9) describe a revision as
a list of actions against a base tree ("removed P", "renamed Q => P", "added P"), so the deltas in which one path
names two different entries - one in the base tree, another in the new tree - are their own input class:

  replace   the entry at P is removed and another versioned entry Q is renamed onto P (sometimes edited too)
  free/fill the same, spread over two revisions of one branch (free: P removed; fill: Q renamed onto P), so that
            only the roll-up delta of a bundle whose base precedes both replaces P
  swap      A and B exchange their paths
  readd     the entry at P is removed and a new entry (new file id) is added at P

`maybe()` is called once per ordinary revision of the generated history (before its commit), `ensure()` after
the history is built (adds up to three revisions when the random draw produced no replacement), `directed_pairs()`
names the (base, target) pairs whose bundle contains such a delta.
"""
import os

from vf import gen
from vf.observe import snap_tree

from vf.checks import _c35_hist as H

MODES = ["replace"] * 4 + ["free"] * 3 + ["swap", "readd"]


class State:
    def __init__(self):
        self.freed = {}  # tree basedir -> [path, ...] removed in an earlier (or the pending) revision of that tree


def _nested(a, b):
    return a == b or a.startswith(b + "/") or b.startswith(a + "/")


def _entries(st):
    return sorted(p for p in st if p)


def _pick_two(rng, st):
    ents = _entries(st)
    if len(ents) < 2:
        return None
    for _ in range(12):
        a, b = rng.sample(ents, 2)
        if not _nested(a, b):
            return a, b
    return None


def _name(wt):
    return os.path.basename(wt.basedir.rstrip("/"))


def _rename_onto(rng, wt, q, p, st):
    wt.rename_one(q, p)
    edited = False
    if st[q][0] == "file" and rng.random() < 0.5:
        gen._write(os.path.join(wt.basedir, p), gen.edit_content(rng, st[q][1] or b""))
        edited = True
    return edited


def _fill(rng, wt, log, state):
    """Rename a versioned entry onto a path freed by an earlier revision of this tree."""
    freed = state.freed.get(wt.basedir) or []
    st = snap_tree(wt)
    for p in list(freed):
        par = p.rpartition("/")[0]
        if p in st or os.path.lexists(os.path.join(wt.basedir, p)) or (par and (par not in st or st[par][0] != "directory")):
            continue
        cands = [q for q in _entries(st) if not _nested(q, p)]  # not P's own ancestors
        if not cands:
            continue
        q = rng.choice(cands)
        edited = _rename_onto(rng, wt, q, p, st)
        freed.remove(p)
        log.append({"replace": "fill", "in": _name(wt), "path": p, "from": q, "kind": st[q][0], "edited": edited})
        return True
    return False


def _do(rng, wt, names, log, state, mode):
    st = snap_tree(wt)
    base = wt.basedir
    if mode == "fill":
        return _fill(rng, wt, log, state)
    if mode == "free":
        ents = _entries(st)
        if len(ents) < 2:
            return False
        p = rng.choice(ents)
        if not any(not _nested(q, p) for q in ents):
            return False
        wt.remove([p], keep_files=False, force=True)
        state.freed.setdefault(base, []).append(p)
        log.append({"replace": "free", "in": _name(wt), "path": p, "kind": st[p][0]})
        return True
    two = _pick_two(rng, st)
    if two is None:
        return False
    p, q = two
    if mode == "replace":
        wt.remove([p], keep_files=False, force=True)
        edited = _rename_onto(rng, wt, q, p, st)
        log.append({"replace": "replace", "in": _name(wt), "path": p, "was": st[p][0], "from": q, "kind": st[q][0], "edited": edited})
        return True
    if mode == "swap":
        tmp = "swap-tmp"
        if tmp in st or os.path.lexists(os.path.join(base, tmp)):
            return False
        wt.rename_one(p, tmp)
        wt.rename_one(q, p)
        wt.rename_one(tmp, q)
        log.append({"replace": "swap", "in": _name(wt), "path": p, "with": q, "kinds": [st[p][0], st[q][0]]})
        return True
    if mode == "readd":
        wt.remove([p], keep_files=False, force=True)
        gen._write(os.path.join(base, p), gen.gen_content(rng))
        H._add(wt, p)
        log.append({"replace": "readd", "in": _name(wt), "path": p, "was": st[p][0]})
        return True
    return False


def maybe(rng, wt, names, log, state, p=0.4):
    """Called before the commit of an ordinary revision: sometimes one replacement delta."""
    if rng.random() >= p:
        return
    mode = "fill" if state.freed.get(wt.basedir) and rng.random() < 0.7 else rng.choice(MODES)
    try:
        _do(rng, wt, names, log, state, mode)
    except Exception as e:  # refused by breezy: workload construction, not judged here
        log.append({"replace-refused": mode, "err": type(e).__name__})


def committed(h):
    """[(mode, entry, revision id)] for every replacement entry of the log, with the revision that committed it."""
    out, pending = [], []
    for e in h.log:
        if "replace" in e:
            pending.append(e)
        elif "commit" in e:
            rest = []
            for r in pending:
                if r["in"] == e["in"]:
                    out.append((r["replace"], r, e["commit"].encode()))
                else:
                    rest.append(r)
            pending = rest
    return out


def ensure(h, rng, names, state):
    """After the build: a pending 'free' gets its 'fill', and a history without any one-revision replacement gets one."""
    from breezy import errors
    from breezy.workingtree import WorkingTree

    done = committed(h)
    todo = []
    if not any(m == "replace" for m, _, _ in done):
        todo.append("replace")
    if not any(m == "fill" for m, _, _ in done):
        todo += ["fill"] if any(state.freed.values()) else ["free", "fill"]
    for mode in todo:
        bnames = sorted(h.trees)
        if mode == "fill":
            bnames = [b for b in bnames if state.freed.get(WorkingTree.open(h.trees[b]).basedir)]
            if not bnames:
                continue
        name = rng.choice(bnames)
        wt = WorkingTree.open(h.trees[name])
        if len(wt.get_parent_ids()) > 1:
            continue
        try:
            if not _do(rng, wt, names, h.log, state, mode):
                continue
        except Exception as e:
            h.log.append({"replace-refused": mode, "err": type(e).__name__})
            wt = WorkingTree.open(h.trees[name])
            wt.revert()
            continue
        try:
            H.commit(h, name, wt, rng)
        except errors.PointlessCommit:
            pass


def directed_pairs(h):
    """[(tag, base, target)]: bundles whose delta replaces the occupant of a path."""
    done = committed(h)
    out = []
    frees = {}
    for mode, e, rid in done:
        par = h.recorded[rid]["parents"]
        base = par[0] if par else b"null:"
        if mode == "free":
            frees[(e["in"], e["path"])] = base
            continue
        if mode != "fill":
            out.append((mode, base, rid))
        elif (e["in"], e["path"]) in frees:  # a fill alone is a rename onto a free path; the roll-up replaces it
            out.append(("free+fill", frees[(e["in"], e["path"])], rid))
    seen, uniq = set(), []
    for t in out:
        if t[1:] not in seen:
            seen.add(t[1:])
            uniq.append(t)
    return uniq
