"""C19 - text conflicts are reported exactly when conflict markers are written.

One file, three generated line sequences (BASE / THIS / OTHER) committed in three real
branches (bzr 2a or git); the real tree merge (Merger -> Merge3Merger / WeaveMerger /
LCAMerger) runs with every option set; the oracle is the merge3 library called directly
on the generated lines with the same flags.  After a conflicted merge both resolutions
(take-this / take-other) are run on copies of the conflicted tree and judged.
"""
import os
import shutil

from vf import observe

ID = "C19"
LEVEL = "exploration"
TECHNIQUE = ("differential oracle: real tree merge of one file vs the merge3 library called directly on the same lines/flags; "
             "post-state monitors on file bytes, helper files, conflict records and on both resolve actions")
LEVEL_TEXT = ("for generated (BASE, THIS, OTHER) line triples incl. marker look-alikes, missing final newlines and CRLF, merged through real 2a / git "
              "branches with every combination of reprocess / show-base / cherrypick: conflict record <=> reference has a conflicting region, file bytes == "
              "reference output, helper files byte-exact, and take-this / take-other leave exactly THIS / OTHER with helpers and record gone")
RULE = ("case = one line triple (lengths 0-8 over 6 plain lines + hostile marker-like lines; derived by edits, independent, or degenerate) in one file of "
        "real BASE/THIS/OTHER branches (2a or git; plain, forward-cherrypick or reverse-cherrypick (backing a revision out) history, or the file added on both "
        "sides with no BASE text; OTHER may rename the file in the merged revision; THIS committed or "
        "uncommitted; sentinel-prefixed lines also in exactly one of the three texts inside a conflicting region); every option set "
        "(reprocess x show_base for merge3, reprocess for weave/lca) is one evaluation; non-trivial = text merge needed (all three texts pairwise "
        "different); distinct = (triple, format, history shape, merger, options)")
CASES = {"quick": 300, "thorough": 8000}
BUDGET_S = {"quick": 35, "thorough": 600}
MIN_EVALS = {"quick": 400, "thorough": 10000}
FLOORS = {"ref_conflict_iff_record": 300, "ref_bytes": 300, "helpers_exact": 60, "resolve_take_this": 40, "resolve_take_other": 40,
          "cant_reprocess_and_show_base": 30, "weave_record_iff_helpers": 60, "clean_no_helpers": 60,
          "added_on_both_sides": 10, "resolve_with_helper_deleted_by_hand": 30,
          "reverse_cherrypick": 15, "other_renamed": 10}
ASSUMPTIONS = [
    "reference = merge3.Merge3 with patiencediff.PatienceSequenceMatcher (the matcher the merge3 merge type documents), same is_cherrypick / reprocess / base marker",
    "weave and lca mergers are judged only on: conflict record <=> helper files exist, .THIS/.OTHER byte-exact, resolve actions",
    "lines never contain NUL (binary files are contents conflicts, not text conflicts) nor a bare CR",
    "before 40 % of the resolutions one helper file the chosen action does not need is deleted by hand; file added on both sides: no .BASE helper is demanded",
]

# the sentinel breezy.merge.Merge3Merger.text_merge uses internally to recognise conflict starts
SENT = b"!START OF MERGE CONFLICT!" + b"I HOPE THIS IS UNIQUE"
# tiers in which user lines may *begin* with the sentinel (DESIGN: anticipated finding C19:sentinel-collision)
SENTINEL_START_TIERS = ("quick", "thorough")

PLAIN = [b"a", b"b", b"c", b"d", b"e", b"f"]
HOSTILE = [b"<<<<<<< TREE", b"=======", b">>>>>>> MERGE-SOURCE", b"|||||||", b"||||||| BASE-REVISION", b"<<<<<<<", b">>>>>>>",
           b"<<<<<<< MERGE-SOURCE", b"======= x", b" <<<<<<< TREE"]
SENT_MID = [b"x" + SENT, b"x " + SENT + b" TREE", b"a" + SENT + b"b" + SENT]
SENT_START = [SENT, SENT + b" TREE", SENT + b"x", SENT + b" " + SENT]
NAMES = ["f", "file.txt", "sp ace", "d/g.c", "d/e/README", "f.THIS", "x.BASE"]
SUFFIXES = (".BASE", ".THIS", ".OTHER")
KEEP = "keep-me"  # the file the common ancestor holds when the merged file is added on both sides


# ---------------------------------------------------------------- generation

def _pool(rng, tier):
    """(pool of line bodies, flavour) for one triple."""
    r = rng.random()
    if r < 0.50:
        return list(PLAIN), "plain"
    if r < 0.72:
        return PLAIN + rng.sample(HOSTILE, 3), "markers"
    if r < 0.82 or tier not in SENTINEL_START_TIERS:
        return PLAIN[:4] + rng.sample(HOSTILE, 1) + rng.sample(SENT_MID, 2), "sentinel-mid"
    return PLAIN[:4] + rng.sample(SENT_START, 2) + rng.sample(SENT_MID, 1), "sentinel-start"


def _edit(rng, seq, pool, nedits):
    seq = list(seq)
    for _ in range(nedits):
        r = rng.random()
        if not seq or r < 0.35:
            if len(seq) < 8:
                seq.insert(rng.randint(0, len(seq)), rng.choice(pool))
        elif r < 0.7:
            seq[rng.randrange(len(seq))] = rng.choice(pool)
        else:
            del seq[rng.randrange(len(seq))]
    return seq


def _finish(rng, bodies, eol, final_nl):
    """bodies -> list of lines (bytes) as breezy will split them."""
    lines = []
    for i, b in enumerate(bodies):
        nl = eol if eol != "mixed" else rng.choice([b"\n", b"\r\n"])
        lines.append(b + nl)
    if lines and not final_nl:
        last = lines[-1]
        lines[-1] = last[:-2] if last.endswith(b"\r\n") else last[:-1]
        if lines[-1] == b"":
            lines.pop()
    return lines


def gen_triple(rng, tier):
    pool, flavour = _pool(rng, tier)
    r = rng.random()
    base = [rng.choice(pool) for _ in range(rng.randint(0, 8))]
    rs = rng.random()
    if flavour == "sentinel-start" and rs < 0.55:
        # a sentinel-prefixed line that occurs in exactly ONE of the three texts, inside a truly conflicting region
        # (with show_base the BASE-only line must come out verbatim in the BASE section of the marked-up file)
        who = rng.choice(["base", "base", "this", "other"])
        shape = "one-text-conflict:" + who
        base = [rng.choice(PLAIN) for _ in range(rng.randint(2, 7))]
        i = rng.randrange(len(base))
        x, y = rng.sample([b for b in PLAIN if b != base[i]], 2)
        this, other = list(base), list(base)
        this[i], other[i] = x, y
        sent = rng.choice([b for b in pool if b.startswith(SENT)])
        {"base": base, "this": this, "other": other}[who][i] = sent
        if rng.random() < 0.4:  # a second, sentinel-free conflicting region
            j = rng.randrange(len(base))
            if abs(j - i) > 1:
                this[j], other[j] = rng.sample([b for b in PLAIN if b != base[j]], 2)
    elif flavour == "sentinel-start" and rs < 0.85:
        # a clean merge whose result contains a user line beginning with the sentinel: the sides edit lines far apart
        shape = "far-apart"
        base = [rng.choice(PLAIN) for _ in range(rng.randint(4, 8))]
        this, other = list(base), list(base)
        this[0] = rng.choice([x for x in pool if x.startswith(SENT)])
        other[-1] = rng.choice([x for x in PLAIN if x != base[-1]])
    elif r < 0.60:
        shape = "edits"
        this = _edit(rng, base, pool, rng.randint(1, 3))
        other = _edit(rng, base, pool, rng.randint(1, 3))
    elif r < 0.80:
        shape = "independent"
        this = [rng.choice(pool) for _ in range(rng.randint(0, 8))]
        other = [rng.choice(pool) for _ in range(rng.randint(0, 8))]
    elif r < 0.85:
        shape = "this=base"
        this, other = list(base), _edit(rng, base, pool, rng.randint(1, 3))
    elif r < 0.90:
        shape = "other=base"
        this, other = _edit(rng, base, pool, rng.randint(1, 3)), list(base)
    elif r < 0.95:
        shape = "this=other"
        this = _edit(rng, base, pool, rng.randint(1, 3))
        other = list(this)
    else:
        shape = "adjacent"
        # changes in adjacent lines: the classic conflict / non-conflict boundary
        base = [rng.choice(pool) for _ in range(rng.randint(2, 8))]
        i = rng.randrange(len(base) - 1)
        this, other = list(base), list(base)
        this[i] = rng.choice(pool)
        other[i + 1] = rng.choice(pool)
    e = rng.random()
    eols = []
    for _ in range(3):
        if e < 0.65:
            eols.append(b"\n")
        elif e < 0.8:
            eols.append(b"\r\n")
        elif e < 0.9:
            eols.append("mixed")
        else:
            eols.append(rng.choice([b"\n", b"\r\n"]))  # sides disagree on the eol style
    fin = [rng.random() < 0.75 for _ in range(3)]
    if rng.random() < 0.5:
        fin = [fin[0]] * 3
    B = _finish(rng, base, eols[0], fin[0])
    T = _finish(rng, this, eols[1], fin[1])
    O = _finish(rng, other, eols[2], fin[2])
    return B, T, O, {"flavour": flavour, "shape": shape}


# ---------------------------------------------------------------- reference

def reference(B, T, O, cherrypick, reprocess, show_base):
    """(has_conflict, merged bytes) from the merge3 library itself, with the markers breezy documents."""
    import patiencediff
    from merge3 import Merge3

    if not (B or T or O):
        return False, b""  # (the library cannot tell bytes from str when all three texts are empty)
    m3 = Merge3(list(B), list(T), list(O), is_cherrypick=cherrypick, sequence_matcher=patiencediff.PatienceSequenceMatcher)
    regions = m3.merge_regions()
    if reprocess:
        regions = m3.reprocess_merge_regions(regions)
    has_conflict = any(r[0] == "conflict" for r in regions)
    m3 = Merge3(list(B), list(T), list(O), is_cherrypick=cherrypick, sequence_matcher=patiencediff.PatienceSequenceMatcher)
    out = b"".join(m3.merge_lines(name_a=b"TREE", name_b=b"MERGE-SOURCE", name_base=b"BASE-REVISION", start_marker=b"<" * 7,
                                  base_marker=(b"|" * 7) if show_base else None, reprocess=reprocess))
    return has_conflict, out


# ---------------------------------------------------------------- workload

def _write(wt, name, data):
    p = os.path.join(wt.basedir, name)
    os.makedirs(os.path.dirname(p), exist_ok=True)
    with open(p, "wb") as f:
        f.write(data)


def _commit(wt, msg, n, git):
    kw = dict(timestamp=1600000000 + n * 10, timezone=0, committer="C19 <c19@example.com>", allow_pointless=True)
    if not git:
        kw["rev_id"] = ("c19-%s" % msg).encode()
    return wt.commit(msg, **kw)


def _build(ctx, fmt, name, B, T, O, cherry, uncommitted, added_both=False, rename_to=None, reverse=False, other_rename=None):
    """Real branches.  Returns (this_dir, other_dir, base_revid or None, other_revid).

    added_both: the common ancestor has no such file; THIS and OTHER each add it at the same path (and, on bzr,
    with the same file id), so there is no BASE text and the merge writes no .BASE helper.
    """
    from vf import gen
    from breezy.workingtree import WorkingTree

    git = fmt == "git"
    root = ctx.tmp("c19")
    tb, tt, to = b"".join(B), b"".join(T), b"".join(O)
    first = os.path.join(root, "first")
    wt = gen.make_tree(first, fmt)
    parts = name.split("/")
    for i in range(1, len(parts)):
        os.makedirs(os.path.join(first, *parts[:i]), exist_ok=True)
    adds = ["/".join(parts[:i]) for i in range(1, len(parts) + 1)]
    if added_both:
        _write(wt, KEEP, b"keep\n")
        wt.add([KEEP] + adds[:-1])
        _commit(wt, "first", 0, git)
        odir = os.path.join(root, "other")
        wt.branch.controldir.sprout(odir)
        owt = WorkingTree.open(odir)
        for w, data in ((owt, to), (wt, tt)):
            _write(w, name, data)
            if git:
                w.add([name])
            else:
                w.add([name], ids=[b"c19-added-on-both-sides"])
        other_rev = _commit(owt, "other", 1, git)
        if not uncommitted:
            _commit(wt, "this", 2, git)
        return first, odir, None, other_rev
    if reverse:
        # one line of history: OTHER's text, then BASE's, then THIS's; backing the BASE revision out of THIS
        # (merge -r base..other) has a base that is in THIS's ancestry but is not an ancestor of OTHER
        _write(wt, name, to)
        wt.add(adds)
        other_rev = _commit(wt, "r-other", 0, git)
        _write(wt, name, tb)
        base_rev = _commit(wt, "r-base", 1, git)
        _write(wt, name, tt)
        if not uncommitted:
            _commit(wt, "this", 2, git)
        return first, first, base_rev, other_rev
    _write(wt, name, tt if cherry else tb)
    wt.add(adds)
    _commit(wt, "first", 0, git)
    odir = os.path.join(root, "other")
    wt.branch.controldir.sprout(odir)
    owt = WorkingTree.open(odir)
    if cherry:
        # THIS = first (text T).  OTHER: first -> X (text B) -> Y (text O); cherry-pick X..Y into THIS
        _write(owt, name, tb)
        base_rev = _commit(owt, "x-base", 1, git)
        _write(owt, name, to)
        other_rev = _commit(owt, "y-other", 2, git)
        return first, odir, base_rev, other_rev
    _write(owt, name, to)
    if other_rename:
        owt.rename_one(name, other_rename)  # OTHER renames the file in the same revision as its text change
    other_rev = _commit(owt, "other", 1, git)
    _write(wt, name, tt)
    if rename_to:
        wt.rename_one(name, rename_to)  # stays uncommitted, like the new text
    if not uncommitted:
        _commit(wt, "this", 2, git)
    return first, odir, None, other_rev


def _helpers_on_disk(disk, name):
    return {s: disk[name + s] for s in SUFFIXES if name + s in disk}


def _merge(wt, odir, merge_type, base_rev, other_rev, reprocess, show_base):
    from breezy.branch import Branch
    from breezy.merge import Merger

    ob = Branch.open(odir)
    with wt.lock_write():
        merger = Merger.from_revision_ids(wt, other_rev, base=base_rev, other_branch=ob)
        merger.merge_type = merge_type
        merger.reprocess = reprocess
        merger.show_base = show_base
        cooked = merger.do_merge()
        merger.set_pending()
    return cooked, merger


def _is_text_conflict(c):
    return getattr(c, "typestring", None) == "text conflict"


def _sentinel_in(*texts):
    return any(SENT in line for t in texts for line in t)


def _key(base, B, T, O):
    """Mechanism key: failures whose input contains the internal sentinel are a different mechanism."""
    if any(line.startswith(SENT) for t in (B, T, O) for line in t):
        return "sentinel-collision:" + base
    if _sentinel_in(B, T, O):
        return "sentinel-inside-line:" + base
    return base


def _judge_resolve(ctx, cdir, name, action, via, want, fid, detail, keyf, drop=None):
    """Run one resolution on a private copy of the conflicted tree and judge the result."""
    from breezy import conflicts as _mod_conflicts
    from breezy.workingtree import WorkingTree

    rdir = cdir + "-" + action
    shutil.copytree(cdir, rdir, symlinks=True)
    if drop:
        # the user removed one helper by hand (one the chosen action does not need) before resolving
        os.unlink(os.path.join(rdir, name + drop))
        ctx.count("resolve_with_helper_deleted_by_hand")
        ctx.hist("resolve-helper-deleted:" + drop)
    wt = WorkingTree.open(rdir)
    if via == "cmd":
        cmd = _mod_conflicts.cmd_resolve()
        cmd.run_argv_aliases(["--" + action.replace("_", "-"), os.path.join(rdir, name)])
    elif via == "resolve":
        _mod_conflicts.resolve(wt, [name], action=action)
    else:
        # through the conflict object itself, the way resolve() drives it
        with wt.lock_tree_write():
            cl = list(wt.conflicts())
            mine = [c for c in cl if c.path == name]
            rest = [c for c in cl if c.path != name]
            for c in mine:
                getattr(c, "action_" + action)(wt)
                c.cleanup(wt)
            wt.set_conflicts(rest)
    wt = WorkingTree.open(rdir)
    ctx.count("resolve_" + action)
    ctx.hist("resolve-via:" + via)
    disk = observe.snap_disk(rdir)
    d = dict(detail, action=action, via=via, helper_deleted_by_hand=drop)
    got = disk.get(name)
    ctx.check(got is not None and got[0] == "file" and got[1] == want, keyf("resolve:%s:file-not-%s-text" % (action, action.split("_")[1])),
              "after %s the file is %r, wanted %r" % (action, got, want), d)
    left = sorted(_helpers_on_disk(disk, name))
    ctx.check(not left, keyf("resolve:%s:helpers-remain" % action), "helper files remain after %s: %r" % (action, left), d)
    cl = [c for c in wt.conflicts()]
    ctx.check(not cl, keyf("resolve:%s:record-remains" % action), "conflict record remains after %s: %r" % (action, cl), d)
    with wt.lock_read():
        ctx.check(wt.is_versioned(name), keyf("resolve:%s:file-unversioned" % action), "file no longer versioned after %s" % action, d)
        if fid is not None and wt.is_versioned(name):
            ctx.check(wt.path2id(name) == fid, keyf("resolve:%s:file-id-changed" % action), "file id changed: %r -> %r" % (fid, wt.path2id(name)), d)
    extra = sorted(p for p in disk if p != name and not name.startswith(p + "/") and p != KEEP)
    ctx.check(not extra, keyf("resolve:%s:stray-files" % action), "unexpected files after %s: %r" % (action, extra), d)


def case(ctx):
    from breezy import errors
    from breezy.merge import CantReprocessAndShowBase, LCAMerger, Merge3Merger, WeaveMerger
    from breezy.workingtree import WorkingTree

    rng = ctx.rng
    B, T, O, meta = gen_triple(rng, ctx.tier)
    fmt = "git" if rng.random() < 0.3 else "2a"
    git = fmt == "git"
    hr = rng.random()
    cherry = hr < 0.22              # forward cherrypick: BASE is not an ancestor of THIS
    reverse = 0.22 <= hr < 0.40     # reverse cherrypick: BASE is in THIS's ancestry but not an ancestor of OTHER
    uncommitted = (not cherry) and rng.random() < 0.25
    added_both = (not cherry) and (not reverse) and rng.random() < 0.14
    if added_both:
        B = []  # no BASE text at all: the file is added on both sides
    name = rng.choice(NAMES)
    # THIS also renamed the file, uncommitted (file ids only: a path-based tree would see a deletion plus an unrelated new file)
    rename_to = name + "-moved" if (uncommitted and not added_both and not reverse and not git and rng.random() < 0.3) else None
    # OTHER renamed the file in the revision being merged (file ids only, as above; not together with a rename in THIS)
    other_rename = name + "-renamed" if (not cherry and not reverse and not added_both and not git and not rename_to and rng.random() < 0.3) else None
    tb, tt, to = b"".join(B), b"".join(T), b"".join(O)
    desc = {"base": [x.decode("latin-1") for x in B], "this": [x.decode("latin-1") for x in T], "other": [x.decode("latin-1") for x in O],
            "format": fmt, "cherrypick": cherry, "this_uncommitted": uncommitted, "added_on_both_sides": added_both, "name": name, "this_renamed_to": rename_to,
            "reverse_cherrypick": reverse, "other_renamed_to": other_rename, **meta}
    ctx.info["case"] = desc
    try:
        tdir, odir, base_rev, other_rev = _build(ctx, fmt, name, B, T, O, cherry, uncommitted, added_both, rename_to, reverse, other_rename)
    except errors.BzrError as e:
        ctx.discard("build:%s" % type(e).__name__)
    if rename_to:
        name = rename_to  # the file's path in THIS, where the merge result and the helpers belong
        ctx.count("this_renamed_uncommitted")
    this_name = name      # where THIS has the file before the merge
    if other_rename:
        name = other_rename  # ... and where everything belongs after it: only OTHER renamed, so its name wins
        ctx.count("other_renamed")
    if reverse:
        ctx.count("reverse_cherrypick")
    # (a file absent from BASE differs from both sides whatever they hold, even if one of them is empty)
    needs_text_merge = tt != to and (added_both or (tb != tt and tb != to))
    ctx.hist("flavour:" + meta["flavour"])
    ctx.hist("shape:" + meta["shape"])
    ctx.hist("fmt:%s%s%s%s%s" % (fmt, ":cherrypick" if cherry else (":reverse-cherrypick" if reverse else ""), ":uncommitted" if uncommitted else "",
                                 ":added-on-both-sides" if added_both else "", ":other-renamed" if other_rename else ""))
    if added_both:
        ctx.count("added_on_both_sides")

    def keyf(k):
        # only the oracles that read the merged text / the conflict decision can be affected by the sentinel
        if k.startswith(("record-without", "conflicting-region-without", "file-bytes-differ")):
            return _key(k, B, T, O)
        return k

    runs = [(Merge3Merger, rp, sb) for rp in (False, True) for sb in (False, True)]
    if not git:
        runs.append((WeaveMerger, rng.random() < 0.5, False))
        runs.append((LCAMerger, rng.random() < 0.5, False))
    nres = 0
    for n, (mt, reprocess, show_base) in enumerate(runs):
        mdir = os.path.join(os.path.dirname(tdir), "m%d" % n)
        shutil.copytree(tdir, mdir, symlinks=True)
        wt = WorkingTree.open(mdir)
        with wt.lock_read():
            fid = wt.path2id(this_name) if not git else None
        before = observe.snap_disk(mdir)
        opts = {"merger": mt.__name__, "reprocess": reprocess, "show_base": show_base}
        detail = dict(desc, **opts)
        sig = (desc["base"], desc["this"], desc["other"], fmt, cherry, reverse, uncommitted, added_both, bool(rename_to), bool(other_rename),
               mt.__name__, reprocess, show_base)
        ref3 = mt is Merge3Merger
        try:
            cooked, merger = _merge(wt, odir, mt, base_rev, other_rev, reprocess, show_base)
        except errors.CannotReverseCherrypick:
            # documented refusal: the weave and lca merge types cannot back a change out
            ctx.hist("refused:CannotReverseCherrypick:" + mt.__name__)
            ctx.check(reverse and not ref3, keyf("cannot-reverse-cherrypick:unexpected"),
                      "CannotReverseCherrypick from %s, reverse=%s" % (mt.__name__, reverse), detail)
            continue
        except CantReprocessAndShowBase:
            ctx.count("cant_reprocess_and_show_base")
            ctx.check(reprocess and show_base, keyf("cant-reprocess-and-show-base:spurious"), "raised without both options", detail)
            ctx.check(needs_text_merge, keyf("cant-reprocess-and-show-base:no-text-merge"), "raised although no text merge was needed", detail)
            wt = WorkingTree.open(mdir)
            after = observe.snap_disk(mdir)
            ctx.check(after == before, keyf("cant-reprocess-and-show-base:tree-changed"), "tree changed by the refused merge: %r" %
                      (sorted(set(after.items()) ^ set(before.items()))[:4],), detail)
            ctx.check(not list(wt.conflicts()), keyf("cant-reprocess-and-show-base:conflicts-recorded"), "conflicts recorded by the refused merge", detail)
            ctx.note(sig, nontrivial=needs_text_merge)
            continue
        if ref3 and reprocess and show_base:
            ctx.count("cant_reprocess_and_show_base")
            ctx.check(not needs_text_merge, keyf("cant-reprocess-and-show-base:not-raised"),
                      "reprocess + show_base accepted for a file that needed a text merge", detail)
            ctx.hist("reprocess+show_base:no-text-merge-needed")
            # fall through: without a text merge the options are irrelevant and the result must still be right
            reprocess_ref, show_base_ref = False, False
        else:
            reprocess_ref, show_base_ref = reprocess, show_base
        wt = WorkingTree.open(mdir)
        disk = observe.snap_disk(mdir)
        confl = list(wt.conflicts())
        texts = [c for c in confl if _is_text_conflict(c) and c.path == name]
        others = [c for c in confl if not (_is_text_conflict(c) and c.path == name)]
        helpers = _helpers_on_disk(disk, name)
        got = disk.get(name)
        ctx.hist("%s:%s" % (mt.__name__, "conflict" if texts else "clean"))
        ctx.check(not others, keyf("unexpected-conflict-kind"), "conflicts other than a text conflict on the file: %r" % (others,), detail)
        ctx.check(len(texts) <= 1, keyf("duplicate-text-conflict"), "more than one text conflict recorded: %r" % (texts,), detail)
        ctx.check(sorted(map(repr, cooked)) == sorted(map(repr, confl)), keyf("returned-conflicts-differ-from-recorded"),
                  "do_merge returned %r, tree records %r" % (cooked, confl), detail)
        ctx.check(got is not None and got[0] == "file", keyf("file-missing-after-merge"), "file is %r after the merge" % (got,), detail, stop=True)
        if ref3:
            ref_conflict, ref_bytes = reference(B, T, O, cherry or reverse, reprocess_ref, show_base_ref)
            ctx.count("ref_conflict_iff_record")
            if bool(texts) != ref_conflict:
                ctx.fail(keyf("record-without-conflicting-region" if texts else "conflicting-region-without-record"),
                         "reference has_conflict=%s, recorded=%r" % (ref_conflict, texts), dict(detail, file=got[1].decode("latin-1")))
            ctx.count("ref_bytes")
            if got[1] != ref_bytes:
                ctx.fail(keyf("file-bytes-differ-from-reference:%s" % ("conflict" if ref_conflict else "clean")),
                         "file %r, reference %r" % (got[1], ref_bytes), detail)
            want_conflict = ref_conflict
        else:
            want_conflict = bool(texts)
            ctx.count("weave_record_iff_helpers")
            ctx.check(bool(helpers) == bool(texts), keyf("weave:record-iff-helpers"), "record=%r helpers=%r" % (texts, sorted(helpers)), detail)
            if not needs_text_merge:
                # no text merge: the file-level three-way decision alone fixes the result
                want = to if (tt == tb and not added_both) else tt
                ctx.check(got[1] == want and not texts, keyf("weave:trivial-merge-wrong"), "file %r wanted %r conflicts %r" % (got[1], want, texts), detail)
        if want_conflict and texts:
            ctx.count("helpers_exact")
            wanted = {".THIS": tt, ".OTHER": to}
            if ref3 and not added_both:
                wanted[".BASE"] = tb
            for suf, data in sorted(wanted.items()):
                h = helpers.get(suf)
                if h is None:
                    ctx.fail(keyf("helper-missing:%s" % suf[1:]), "no %s%s on disk; have %r" % (name, suf, sorted(helpers)), detail)
                elif h[0] != "file" or h[1] != data:
                    ctx.fail(keyf("helper-bytes-differ:%s" % suf[1:]), "%s%s holds %r, wanted %r" % (name, suf, h[1], data), detail)
            with wt.lock_read():
                for suf in helpers:
                    ctx.check(not wt.is_versioned(name + suf), keyf("helper-versioned"), "%s%s is versioned" % (name, suf), detail)
            if fid is not None:
                ctx.check(texts[0].file_id == fid, keyf("conflict-record-file-id"), "record has file id %r, file is %r" % (texts[0].file_id, fid), detail)
            # resolutions, each on its own copy of the conflicted tree
            if nres == 0 or (nres < 3 and rng.random() < 0.4):
                nres += 1
                for action, want in (("take_this", tt), ("take_other", to)):
                    via = rng.choice(["cmd", "resolve", "object"])
                    unneeded = sorted(suf for suf in helpers if suf != {"take_this": ".THIS", "take_other": ".OTHER"}[action])
                    drop = rng.choice(unneeded) if unneeded and rng.random() < 0.4 else None
                    _judge_resolve(ctx, mdir, name, action, via, want, fid, detail, keyf, drop)
        elif not texts:
            ctx.count("clean_no_helpers")
            ctx.check(not helpers, keyf("helpers-without-conflict"), "helper files after a clean merge: %r" % (sorted(helpers),), detail)
        stray = sorted(p for p in disk if p != name and not name.startswith(p + "/") and p not in [name + s for s in SUFFIXES] and p != KEEP)
        ctx.check(not stray, keyf("stray-files"), "unexpected files after the merge: %r" % (stray,), detail)
        ctx.note(sig, nontrivial=needs_text_merge,
                 sample=dict(detail, conflict=bool(texts), file=got[1].decode("latin-1")) if (texts and n == 0) else None)
