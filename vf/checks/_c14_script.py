"""C14 helper: random TreeTransform scripts over <= 8 trans-id slots.

A script is a list of JSON-able op dicts that address trans ids through *slot numbers*
(position in the list of ids handed out so far), so the very same script can be replayed
on a second transform object (TransformPreview) whose trans-id strings differ.

The generator keeps a tiny amount of bookkeeping per slot (does it have a name, did the
script already schedule contents / a new file id for it ...).  This is NOT a model of the
transform: it is only used to choose between "sensible" and "deliberately wrong" uses of
the API, and to avoid the one misuse whose refusal is not clean (handing the same new
file id to two different trans ids leaves _new_id/_r_new_id half updated).
"""
import os

MAX_SLOTS = 8

NAME_POOL = ["a", "b", "f1", "d1", "sub", "a.moved", "d1.new", "n"]
TARGETS = ["f1", "../x", "nowhere", "d1"]

WEIGHTS = {
    "tree_path": 9, "new_file": 8, "new_directory": 8, "new_symlink": 3, "create_path": 3, "assign_id": 1,
    "delete_contents": 8, "cancel_deletion": 1, "adjust_path": 16, "version_file": 6, "cancel_versioning": 1,
    "unversion_file": 6, "set_executability": 9, "create_file": 4, "create_directory": 4, "create_symlink": 2,
    "cancel_creation": 2, "replace": 6, "delete_versioned": 3, "chmod_tree_file": 5, "shadow": 6, "move_tree_file": 8, "limbo_chain": 5,
}


class Slot:
    __slots__ = ("origin", "path", "named", "created", "new_id", "dead", "unversioned", "exec_set")

    def __init__(self, origin, path=None, named=True):
        self.origin = origin  # "tree" | "new"
        self.path = path  # tree path for origin == "tree"
        self.named = named
        self.created = None  # kind of scheduled new contents
        self.new_id = False  # version_file was called on it
        self.dead = False  # creating op raised: no trans id behind this slot
        self.unversioned = False  # unversion_file was called on it
        self.exec_set = False  # set_executability was accepted for it


class GenState:
    """What the generator knows about the tree and about the script so far."""

    def __init__(self, tree_paths, tree_ids, use_ids, versioned_paths=(), tree_kinds=None, tree_exec=None):
        self.tree_exec = dict(tree_exec or {})  # versioned file path -> current exec bit
        self.versioned_paths = set(versioned_paths) | {""}
        self.tree_kinds = dict(tree_kinds or {})  # path -> kind on disk
        self.tree_paths = list(tree_paths)  # candidate existing paths (versioned, unversioned, missing, bogus)
        self.tree_ids = list(tree_ids)  # file ids present in the tree / basis (str)
        self.use_ids = use_ids
        self.slots = []
        self.used_new_ids = set()
        self.n_fresh = 0
        self.names = list(NAME_POOL)
        for p in tree_paths:
            b = os.path.basename(p)
            if b and b not in self.names:
                self.names.append(b)

    def live(self):
        return [i for i, s in enumerate(self.slots) if not s.dead]

    def fresh_id(self):
        self.n_fresh += 1
        return "c14-new-%d" % self.n_fresh


def _is_versioned_file(st, s):
    if s.origin == "tree":
        if s.created is not None:
            return s.created == "file" and (s.new_id or (s.path in st.versioned_paths and not s.unversioned))
        return st.tree_kinds.get(s.path) == "file" and ((s.path in st.versioned_paths and not s.unversioned) or s.new_id)
    return s.created == "file" and s.new_id


def _pick_parent(rng, st, exclude=None):
    """Parent reference: 'root' or a slot number (any slot: directories, files, nameless ids, itself...)."""
    live = [i for i in st.live() if i != exclude or rng.random() < 0.1]
    if not live or rng.random() < 0.3:
        return "root"
    return rng.choice(live)


def _pick_file_id(rng, st, slot_index=None):
    """A file id for versioning: fresh, or (hostile) one that already lives in the tree."""
    if not st.use_ids:
        return "git"
    r = rng.random()
    if r < 0.22 and st.tree_ids:
        cands = [f for f in st.tree_ids if f not in st.used_new_ids]
        if cands:
            return rng.choice(cands)
    return st.fresh_id()


def _content(rng):
    from vf import gen

    return gen.gen_content(rng)


def gen_op(rng, st, weights=None):
    """Propose the next op given the generator state (does not update the state)."""
    weights = weights or WEIGHTS
    kinds = list(weights)
    for _ in range(20):
        k = rng.choices(kinds, [weights[x] for x in kinds])[0]
        op = _gen_kind(rng, st, k)
        if op is not None:
            return op
    return None


def _gen_kind(rng, st, k):
    live = st.live()
    full = len(st.slots) >= MAX_SLOTS
    if k == "tree_path":
        if full:
            return None
        have = {s.path for s in st.slots if s.origin == "tree"}
        cands = [p for p in st.tree_paths if p not in have]
        if not cands:
            return None
        return {"op": "tree_path", "path": rng.choice(cands)}
    if k in ("new_file", "new_directory", "new_symlink", "create_path"):
        if full:
            return None
        op = {"op": k, "name": rng.choice(st.names), "parent": _pick_parent(rng, st)}
        if k != "create_path":
            op["file_id"] = _pick_file_id(rng, st) if rng.random() < 0.7 else None
        if k == "new_file":
            op["content"] = _content(rng)
            op["executable"] = rng.choice([None, None, True, False]) if op["file_id"] is not None or rng.random() < 0.1 else None
        if k == "new_symlink":
            op["target"] = rng.choice(TARGETS)
        return op
    if k == "assign_id":
        if full:
            return None
        return {"op": "assign_id"}
    if k == "shadow":
        # a versioned entry loses its contents but stays versioned, and another entry takes its name in the same directory
        # (the other entry: new file / directory, a bare path that gets versioned, or an existing entry moved there)
        if len(st.slots) > MAX_SLOTS - 2:
            return None
        have = {s.path for s in st.slots if s.origin == "tree"}  # no second slot for one trans id: the per-slot bookkeeping would lie
        cands = [q for q in sorted(st.versioned_paths) if q and q not in have and st.tree_kinds.get(q) in ("file", "symlink", "directory")]
        if not cands:
            return None
        how = rng.choice(["new_file", "new_file", "new_directory", "create_path", "adjust"])
        op = {"op": "shadow", "path": rng.choice(cands), "how": how}
        if how == "adjust":
            live = st.live()
            if not live:
                op["how"] = how = "new_file"
            else:
                op["slot"] = rng.choice(live)
        if how != "adjust":
            op["file_id"] = st.fresh_id() if st.use_ids else "git"
        if how == "new_file":
            op["content"] = _content(rng)
        return op
    if k == "limbo_chain":
        # entries created by this transform, three levels deep (dir a / dir p / file f [+ sibling dir q]); f is re-parented
        # under the SAME name, then its former parent p is renamed or moved: the limbo bookkeeping of nested new directories
        want = 4
        if len(st.slots) > MAX_SLOTS - want:
            return None
        names = rng.sample(st.names, 4)
        dest = rng.choice(["root", "sibling", "grand"])
        op = {"op": "limbo_chain", "a": names[0], "p": names[1], "f": names[2], "q": names[3], "dest": dest,
              "p_new": rng.choice([n for n in st.names if n != names[1]]), "p_to": rng.choice(["same", "same", "root"]),
              "content": _content(rng), "executable": rng.choice([None, None, True]),
              "ids": [st.fresh_id() if st.use_ids else "git" for _ in range(4)] if rng.random() < 0.85 else [None] * 4,
              "extra": rng.random() < 0.5}
        return op
    if k == "move_tree_file":
        # a plain move / rename of an existing versioned file that gets nothing else (executable ones preferred: their bit
        # has to travel with them although the transform never mentions it)
        if full:
            return None
        have = {s.path for s in st.slots if s.origin == "tree"}
        cands = [q for q in sorted(st.tree_exec) if q not in have]
        if not cands:
            return None
        execs = [q for q in cands if st.tree_exec[q]]
        q = rng.choice(execs if execs and rng.random() < 0.8 else cands)
        return {"op": "tree_path_move", "path": q, "name": rng.choice(st.names), "parent": _pick_parent(rng, st) if rng.random() < 0.4 else "root"}
    if k == "chmod_tree_file":
        # the plainest exec-only change: flip the bit of a versioned file that gets nothing else
        slot_of = {s.path: i for i, s in enumerate(st.slots) if s.origin == "tree" and not s.dead}
        cands = [q for q in sorted(st.tree_exec) if q not in slot_of or not (st.slots[slot_of[q]].exec_set or st.slots[slot_of[q]].unversioned
                                                                               or st.slots[slot_of[q]].created)]
        if not cands:
            return None
        q = rng.choice(cands)
        if q in slot_of:
            return {"op": "set_executability", "slot": slot_of[q], "value": not st.tree_exec[q]}
        if full:
            return None
        return {"op": "tree_path_exec", "path": q, "value": not st.tree_exec[q]}
    if not live:
        return None
    i = rng.choice(live)
    s = st.slots[i]
    hostile = rng.random() < 0.12  # deliberately wrong use of the API (documented refusals)
    if k == "delete_contents":
        return {"op": k, "slot": i}
    if k == "cancel_deletion":
        return {"op": k, "slot": i}
    if k == "adjust_path":
        name = rng.choice(st.names)
        if s.origin == "tree" and s.path and rng.random() < 0.45:
            name = os.path.basename(s.path)  # move without rename
        return {"op": k, "slot": i, "name": name, "parent": _pick_parent(rng, st, exclude=i)}
    if k == "version_file":
        if s.new_id and not hostile:
            return None
        if s.origin == "tree" and s.path in st.versioned_paths and not s.unversioned:
            # giving a second file id to an entry that keeps its old one is not refused by the API and not a conflict the
            # transform knows: outside the input class (callers unversion first, as merge does)
            return None
        return {"op": k, "slot": i, "file_id": _pick_file_id(rng, st)}
    if k == "cancel_versioning":
        if not s.new_id and not hostile:
            return None
        return {"op": k, "slot": i}
    if k == "unversion_file":
        return {"op": k, "slot": i}
    if k == "delete_versioned":
        return {"op": k, "slot": i}
    if k == "set_executability":
        if not hostile:
            # sensible use: a file that is (or is being) versioned; the other uses are conflicts without a resolver and would
            # turn most scripts into plain MalformedTransform cases
            good = [j for j in live if _is_versioned_file(st, st.slots[j])]
            if not good:
                return None
            only = [j for j in good if st.slots[j].origin == "tree" and st.slots[j].created is None]
            i = rng.choice(only if only and rng.random() < 0.6 else good)  # exec-only change of an existing file preferred
            return {"op": k, "slot": i, "value": rng.choice([True, False])}
        return {"op": k, "slot": i, "value": rng.choice([True, False, True, False, None])}
    if k in ("create_file", "create_directory", "create_symlink", "replace", "cancel_creation") and s.origin == "tree" and s.path == "":
        return None  # the tree root stays a directory: new contents for it are outside the property's input class
    if k in ("create_file", "create_directory", "create_symlink"):
        if s.created is not None:
            # a second create_file would truncate the limbo file before it is refused: never generated;
            # a second mkdir / symlink is refused cleanly by the OS: generated rarely
            if k == "create_file" or not hostile:
                return None
        op = {"op": k, "slot": i}
        if k == "create_file":
            op["content"] = _content(rng)
        if k == "create_symlink":
            op["target"] = rng.choice(TARGETS)
        return op
    if k == "cancel_creation":
        if s.created is None and not hostile:
            return None
        return {"op": k, "slot": i}
    if k == "replace":
        if s.created is not None:
            return None
        kind = rng.choice(["file", "file", "directory", "symlink"])
        op = {"op": k, "slot": i, "kind": kind}
        if kind == "file":
            op["content"] = _content(rng)
        if kind == "symlink":
            op["target"] = rng.choice(TARGETS)
        return op
    raise ValueError(k)


def note_op(st, op, ok):
    """Update the generator bookkeeping after op was executed on the primary transform (ok = it did not raise)."""
    k = op["op"]
    if k == "limbo_chain":
        for kind in ("directory", "directory", "directory", "file"):
            n = Slot("new", None, named=True)
            n.dead = not ok
            if ok:
                n.created = kind
                n.new_id = op["ids"][0] is not None
            st.slots.append(n)
        for i in op["ids"]:
            if i is not None:
                st.used_new_ids.add(i)
        return
    if k == "shadow":
        s = Slot("tree", op["path"], named=True)
        s.dead = not ok
        st.slots.append(s)
        if op["how"] != "adjust":
            n = Slot("new", None, named=True)
            n.dead = not ok
            if ok:
                n.created = {"new_file": "file", "new_directory": "directory"}.get(op["how"])
                n.new_id = True
            st.used_new_ids.add(op["file_id"])
            st.slots.append(n)
        return
    if k in ("tree_path", "tree_path_exec", "tree_path_move"):
        s = Slot("tree", op["path"], named=True)
        s.dead = not ok
        s.exec_set = ok and k == "tree_path_exec"
        st.slots.append(s)
        return
    if k in ("new_file", "new_directory", "new_symlink", "create_path", "assign_id"):
        s = Slot("new", None, named=(k != "assign_id"))
        s.dead = not ok
        if ok:
            if k == "new_file":
                s.created = "file"
            elif k == "new_directory":
                s.created = "directory"
            elif k == "new_symlink":
                s.created = "symlink"
            if op.get("file_id") is not None:
                s.new_id = True
        if op.get("file_id") is not None:
            st.used_new_ids.add(op["file_id"])
        st.slots.append(s)
        return
    s = st.slots[op["slot"]]
    if k == "version_file":
        st.used_new_ids.add(op["file_id"])
        if ok:
            s.new_id = True
    elif k == "cancel_versioning" and ok:
        s.new_id = False
    elif k in ("unversion_file", "delete_versioned") and ok:
        s.unversioned = True
    elif k == "adjust_path" and ok:
        s.named = True
    elif k == "create_file" and ok:
        s.created = "file"
    elif k == "create_directory" and ok:
        s.created = "directory"
    elif k == "create_symlink" and ok:
        s.created = "symlink"
    elif k == "replace" and ok:
        s.created = op["kind"]
    elif k == "cancel_creation" and ok:
        s.created = None
    elif k == "set_executability" and ok:
        s.exec_set = op["value"] is not None


def _fid(op_fid, git):
    if op_fid is None:
        return None
    return b"git" if git else op_fid.encode()


def execute(tt, ids, op, git):
    """Perform op on the real transform tt; ids = slot -> trans id list (appended for id-creating ops).

    Raises whatever the transform raises; for id-creating ops a None slot is appended first so slot
    numbering stays aligned between runs.
    """
    k = op["op"]

    def tid(ref):
        if ref == "root":
            return tt.root
        t = ids[ref]
        if t is None:
            raise DeadSlot(ref)
        return t

    if k == "tree_path":
        ids.append(None)
        ids[-1] = tt.trans_id_tree_path(op["path"])
    elif k == "limbo_chain":
        base = len(ids)
        ids.extend([None] * 4)
        fa, fp_, fq, ff = (_fid(x, git) for x in op["ids"])
        a = ids[base] = tt.new_directory(op["a"], tt.root, fa)
        p_ = ids[base + 1] = tt.new_directory(op["p"], a, fp_)
        q = ids[base + 2] = tt.new_directory(op["q"], a, fq)
        f = ids[base + 3] = tt.new_file(op["f"], p_, [op["content"]], ff, op["executable"] if ff is not None else None)
        if op["extra"]:
            tt.new_file(op["f"] + ".2", p_, [b"second\n"], None, None)
        tt.adjust_path(op["f"], {"root": tt.root, "sibling": q, "grand": a}[op["dest"]], f)  # same name, other parent
        tt.adjust_path(op["p_new"], a if op["p_to"] == "same" else tt.root, p_)  # the former parent gets a new limbo path
    elif k == "shadow":
        ids.append(None)
        if op["how"] != "adjust":
            ids.append(None)
        t = tt.trans_id_tree_path(op["path"])
        ids[-1 if op["how"] == "adjust" else -2] = t
        tt.delete_contents(t)
        d, name = os.path.split(op["path"])
        parent = tt.trans_id_tree_path(d) if d else tt.root
        if op["how"] == "adjust":
            tt.adjust_path(name, parent, tid(op["slot"]))
        elif op["how"] == "new_file":
            ids[-1] = tt.new_file(name, parent, [op["content"]], _fid(op["file_id"], git), None)
        elif op["how"] == "new_directory":
            ids[-1] = tt.new_directory(name, parent, _fid(op["file_id"], git))
        else:
            ids[-1] = tt.create_path(name, parent)
            tt.version_file(ids[-1], file_id=_fid(op["file_id"], git))
    elif k == "tree_path_move":
        ids.append(None)
        t = tt.trans_id_tree_path(op["path"])
        ids[-1] = t
        tt.adjust_path(op["name"], tid(op["parent"]), t)
    elif k == "tree_path_exec":
        ids.append(None)
        t = tt.trans_id_tree_path(op["path"])
        tt.set_executability(op["value"], t)
        ids[-1] = t
    elif k == "assign_id":
        ids.append(None)
        ids[-1] = tt.assign_id()
    elif k == "create_path":
        ids.append(None)
        ids[-1] = tt.create_path(op["name"], tid(op["parent"]))
    elif k == "new_file":
        ids.append(None)
        ids[-1] = tt.new_file(op["name"], tid(op["parent"]), [op["content"]], _fid(op["file_id"], git), op["executable"])
    elif k == "new_directory":
        ids.append(None)
        ids[-1] = tt.new_directory(op["name"], tid(op["parent"]), _fid(op["file_id"], git))
    elif k == "new_symlink":
        ids.append(None)
        ids[-1] = tt.new_symlink(op["name"], tid(op["parent"]), op["target"], _fid(op["file_id"], git))
    elif k == "delete_contents":
        tt.delete_contents(tid(op["slot"]))
    elif k == "cancel_deletion":
        tt.cancel_deletion(tid(op["slot"]))
    elif k == "adjust_path":
        tt.adjust_path(op["name"], tid(op["parent"]), tid(op["slot"]))
    elif k == "version_file":
        tt.version_file(tid(op["slot"]), file_id=_fid(op["file_id"], git))
    elif k == "cancel_versioning":
        tt.cancel_versioning(tid(op["slot"]))
    elif k == "unversion_file":
        tt.unversion_file(tid(op["slot"]))
    elif k == "delete_versioned":
        tt.delete_versioned(tid(op["slot"]))
    elif k == "set_executability":
        tt.set_executability(op["value"], tid(op["slot"]))
    elif k == "create_file":
        tt.create_file([op["content"]], tid(op["slot"]))
    elif k == "create_directory":
        tt.create_directory(tid(op["slot"]))
    elif k == "create_symlink":
        tt.create_symlink(op["target"], tid(op["slot"]))
    elif k == "cancel_creation":
        tt.cancel_creation(tid(op["slot"]))
    elif k == "replace":
        t = tid(op["slot"])
        tt.delete_contents(t)
        if op["kind"] == "file":
            tt.create_file([op["content"]], t)
        elif op["kind"] == "directory":
            tt.create_directory(t)
        else:
            tt.create_symlink(op["target"], t)
    else:
        raise ValueError(k)


class DeadSlot(Exception):
    """The script refers to a slot whose creating op was refused."""


def op_json(op):
    return {k: (v.decode("latin-1") if isinstance(v, bytes) else v) for k, v in op.items()}
