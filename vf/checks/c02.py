"""C02 - per-file history and last-changed revisions are recorded correctly.

Generated multi-branch histories (criss-cross, identical parallel changes, merge-then-revert,
cherry-picks, ghosts, resurrected ids, kind changes, renames, octopus merges of sibling branches
(>= 3 parents, two merged parents holding the same per-file version), genuine changes made in the
merge tree to directories / files whose versions differ among the pending parents) are committed
with the real code in 2a / pack-0.92 / rich-root-pack repositories.  Afterwards every revision of every
repository is replayed through a small per-file-graph model (plain set algebra over the
revision parents read back from the repository and the entries of the committed trees):

  C = versions of file id f in the (non-ghost) parent trees of R, H = heads of C in the
  model's per-file graph.  |H| = 1 and R's entry (kind, name, parent id, exec, text sha /
  link target) equals the entry of that head  =>  last-changed(R, f) = H[0], no new text key;
  otherwise last-changed = R and texts parents of (f, R) = H (compared as a set, and naming no
  version twice).

Observed through RevisionTree.get_file_revision, Repository.texts.get_parent_map / keys and
Repository.check().
"""
from vf.checks import _c02_hist as H

ID = "C02"
LEVEL = "exploration"
TECHNIQUE = "per-file-graph reference model (set algebra) replayed over every committed revision; repository check() as second oracle"
LEVEL_TEXT = ("held on the generated histories: every (revision, file id) entry of every repository was compared with the model's "
              "last-changed revision and text parents; no claim for history shapes the generator does not produce")
RULE = ("case = one generated history (quick <= ~10 revisions, thorough <= ~26; up to 3 standalone branches + 1 sibling; formats 2a, "
        "pack-0.92, rich-root-pack) built from: commit of a random tree delta (+ directory rename), branch (tip or older), merge (tip or "
        "older revision) followed by nothing / edits / revert-to-this of some paths / revert-to-older-version / rename-move-chmod-edit of "
        "entries whose versions differ among the pending parents (directories first), criss-cross, identical parallel change "
        "(content, chmod, rename), cherry-pick, octopus merge (two branches merged in one commit; the second usually a sibling sprouted "
        "from the first, both with later commits), ghost pending merge, resurrected file id; one evaluation = one (repository, revision, file id) entry judged; "
        "non-trivial = the entry has >= 2 distinct candidate versions or is a new version; distinct = (shape of candidates, heads, decision)")
CASES = {"quick": 120, "thorough": 1500}
BUDGET_S = {"quick": 30, "thorough": 780}
MIN_EVALS = {"quick": 400, "thorough": 20000}
FLOORS = {"quick": {"last_changed": 400, "text_parents": 60, "carry_over": 100, "two_heads": 3, "repo_check": 8,
                    "octopus_entry": 80, "octopus_shared_nonbasis_version": 12, "dir_new_version_over_nonhead_candidate": 10},
          "thorough": {"last_changed": 20000, "text_parents": 3000, "carry_over": 5000, "two_heads": 100, "repo_check": 300,
                       "carry_from_nonbasis": 20, "revert_shape_new_version": 10,
                       "octopus_entry": 3000, "octopus_shared_nonbasis_version": 500, "dir_new_version_over_nonhead_candidate": 400}}
EXHAUSTIVE = {"quick": False, "thorough": False}
ASSUMPTIONS = [
    "the committed tree (entries read back through RevisionTree) is taken as given: whether it equals the working tree is C01's question",
    "heads are taken in the per-file graph (what PackCommitBuilder._heads and check() both use); ghost parents contribute no candidates",
    "non-rich-root formats: the root entry is not judged (it has no text key and is restamped by every commit)",
    "text parents are compared as sets (order is judged only indirectly, by Repository.check())",
    "histories are bounded (<= ~26 revisions, <= 4 branches, <= ~30 file ids, <= 3 parents per revision plus ghosts)",
]

FORMATS = ["2a", "pack-0.92", "2a", "rich-root-pack"]


def _entry(ie):
    k = ie.kind
    if k == "file":
        return (k, ie.name, ie.parent_id, bool(ie.executable), ie.text_sha1)
    if k == "symlink":
        return (k, ie.name, ie.parent_id, ie.symlink_target)
    return (k, ie.name, ie.parent_id)


def topo(parents):
    """Parents-first order of the keys of `parents` (ghost parents ignored)."""
    out, seen = [], set()
    for r in sorted(parents):
        stack = [(r, False)]
        while stack:
            x, done = stack.pop()
            if done:
                out.append(x)
                continue
            if x in seen or x not in parents:
                continue
            seen.add(x)
            stack.append((x, True))
            for p in parents[x]:
                if p not in seen:
                    stack.append((p, False))
    return out


class FileGraphModel:
    """MHist restricted to what C02 needs."""

    def __init__(self):
        self.ver = {}  # revid -> {fid: version revid}
        self.ent = {}  # (fid, version) -> entry tuple
        self.par = {}  # (fid, version) -> frozenset(parent versions)

    def ancestors(self, fid, v):
        seen, todo = set(), list(self.par.get((fid, v), ()))
        while todo:
            x = todo.pop()
            if x in seen:
                continue
            seen.add(x)
            todo.extend(self.par.get((fid, x), ()))
        return seen

    def heads(self, fid, cands):
        cands = list(dict.fromkeys(cands))
        if len(cands) < 2:
            return cands
        dominated = set()
        for c in cands:
            dominated |= self.ancestors(fid, c) & set(cands)
        return [c for c in cands if c not in dominated]

    def decide(self, rev, live_parents, fid, ent):
        cands = []
        for p in live_parents:
            v = self.ver[p].get(fid)
            if v is not None and v not in cands:
                cands.append(v)
        heads = self.heads(fid, cands)
        if len(heads) == 1 and self.ent[(fid, heads[0])] == ent:
            return heads[0], None, cands, heads
        return rev, frozenset(heads), cands, heads

    def record(self, rev, fid, version, ent, parents):
        self.ver.setdefault(rev, {})[fid] = version
        if version == rev:
            self.ent[(fid, rev)] = ent
            self.par[(fid, rev)] = parents


def rev_ancestry(parents, tip):
    seen, todo = set(), [tip]
    while todo:
        r = todo.pop()
        if r in seen or r not in parents:
            continue
        seen.add(r)
        todo.extend(parents[r])
    return seen


def check_repo_full(repo):
    """Repository.check() must not raise and must report nothing wrong; returns problem strings."""
    problems = []
    with repo.lock_read():
        res = repo.check(None, check_repo=True)
    for attr in ("inconsistent_parents", "unreferenced_versions", "revs_with_bad_parents_in_index", "_report_items",
                 "missing_parent_links"):
        v = getattr(res, attr, None)
        if v:
            problems.append((attr, repr(sorted(v, key=repr)[:4] if not isinstance(v, dict) else sorted(v.items())[:4])[:600]))
    for attr in ("missing_inventory_sha_cnt", "missing_revision_cnt"):
        v = getattr(res, attr, 0)
        if v:
            problems.append((attr, repr(v)))
    return problems, res


def judge_repo(ctx, repo, hist, where):
    """Replay the model over every revision present in repo; returns False after the first failure."""
    rich = repo.supports_rich_root()
    ok = True
    with repo.lock_read():
        revids = sorted(repo.all_revision_ids())
        parents = {r: list(repo.get_revision(r).parent_ids) for r in revids}
        # what was asked for must be what was recorded (graph level)
        for r in revids:
            want = hist.parents.get(r)
            if want is not None:
                ctx.count("revision_parents")
                if not ctx.check(list(want) == parents[r], "revision-parents:differ-from-requested",
                                 "revision %s recorded parents %r, commit was given %r" % (r, parents[r], want),
                                 {"where": where, "format": hist.fmt}):
                    return False
        all_text_keys = set(repo.texts.keys())
        m = FileGraphModel()
        referenced = set()
        for r in topo(parents):
            live = [p for p in parents[r] if p in parents]
            tree = repo.revision_tree(r)
            anc = None
            m.ver[r] = {}
            for path, ie in tree.iter_entries_by_dir():
                fid = ie.file_id
                if path == "" and not rich:
                    continue
                ent = _entry(ie)
                exp, exp_par, cands, heads = m.decide(r, live, fid, ent)
                m.record(r, fid, exp, ent, exp_par)
                got = tree.get_file_revision(path)
                ctx.count("last_changed")
                new = exp == r
                shape = (ie.kind, len(live), len(cands), len(heads), "new" if new else "carry",
                         "basis" if (not new and live and m.ver[live[0]].get(fid) == exp) else "other")
                nontrivial = new or len(cands) > 1
                if len(live) >= 3:
                    ctx.count("octopus_entry")
                    pv = [m.ver[p].get(fid) for p in live]
                    if any(v is not None and v != pv[0] and pv[1:].count(v) > 1 for v in pv[1:]):
                        # two merged parents hold the same version, the basis another one (or none)
                        ctx.count("octopus_shared_nonbasis_version")
                if new and ie.kind == "directory" and len(live) >= 2 and len(cands) > len(heads):
                    ctx.count("dir_new_version_over_nonhead_candidate")
                detail = None
                if got != exp:
                    detail = {"where": where, "format": hist.fmt, "revision": r.decode(), "file_id": fid.decode("utf-8", "replace"),
                              "path": path, "kind": ie.kind, "revision_parents": [p.decode() for p in parents[r]],
                              "candidates": [c.decode() for c in cands], "model_heads": [c.decode() for c in heads],
                              "expected": exp.decode(), "got": got.decode() if got else None,
                              "entry": repr(ent), "head_entry": repr(m.ent.get((fid, heads[0]))) if heads else None,
                              "shapes": hist.shapes, "log": hist.log[-40:]}
                if got != exp:
                    ok = False
                    if new and got in cands:
                        key = "last-changed:carried-over-but-changed-or-forked"
                    elif not new and got == r:
                        key = "last-changed:new-version-but-unchanged-single-head"
                    elif not new:
                        key = "last-changed:carried-from-wrong-version"
                    else:
                        key = "last-changed:names-unrelated-revision"
                    ctx.fail(key, "%s %r in %s: last-changed %r, model %r (candidates %r heads %r)" % (
                        ie.kind, path, r, got, exp, cands, heads), detail)
                    ctx.note(("fail", shape), nontrivial)
                    return False
                # semantic cross-check independent of the model bookkeeping: the named revision is R or an
                # ancestor and carries an identical entry
                if not new:
                    ctx.count("carry_over")
                    if live and m.ver[live[0]].get(fid) != exp:
                        ctx.count("carry_from_nonbasis")
                    if anc is None:
                        anc = rev_ancestry(parents, r)
                    ctx.check(got in anc and got != r, "last-changed:not-an-ancestor", "%r names %r" % (path, got), detail)
                    if (fid, r) in all_text_keys:
                        ok = False
                        ctx.fail("text-key:recorded-for-carried-over-entry", "%r in %s carried over from %r but text key (f, R) exists" % (path, r, exp),
                                 {"where": where, "format": hist.fmt, "revision": r.decode(), "path": path})
                        return False
                else:
                    if len(heads) >= 2:
                        ctx.count("two_heads")
                    if len(heads) == 1:
                        ctx.count("revert_shape_new_version" if len(cands) > 1 else "changed_vs_single_head")
                    if not heads:
                        ctx.count("no_parent_version")
                    key = (fid, r)
                    referenced.add(key)
                    ctx.count("text_parents")
                    pm = repo.texts.get_parent_map([key])
                    if key not in pm:
                        ok = False
                        ctx.fail("text-key:missing-for-new-version", "%r in %s is a new version but texts has no key" % (path, r),
                                 {"where": where, "format": hist.fmt, "revision": r.decode(), "path": path, "kind": ie.kind})
                        return False
                    gotp = frozenset(k[1] for k in pm[key])
                    if len(gotp) != len(pm[key]):
                        ok = False
                        ctx.fail("text-parents:duplicate", "%r in %s: text parents %r name a version twice" % (path, r, pm[key]),
                                 {"where": where, "format": hist.fmt, "revision": r.decode(), "path": path, "kind": ie.kind,
                                  "revision_parents": [p.decode() for p in parents[r]], "shapes": hist.shapes, "log": hist.log[-40:]})
                        return False
                    if gotp != exp_par:
                        ok = False
                        if exp_par < gotp:
                            k2 = "text-parents:non-head-recorded"
                        elif gotp < exp_par:
                            k2 = "text-parents:head-dropped"
                        else:
                            k2 = "text-parents:wrong-versions"
                        ctx.fail(k2, "%r in %s: text parents %r, model heads %r (candidates %r)" % (path, r, sorted(gotp), sorted(exp_par), cands),
                                 {"where": where, "format": hist.fmt, "revision": r.decode(), "file_id": fid.decode("utf-8", "replace"), "path": path,
                                  "revision_parents": [p.decode() for p in parents[r]], "candidates": [c.decode() for c in cands],
                                  "got": sorted(x.decode() for x in gotp), "expected": sorted(x.decode() for x in exp_par),
                                  "shapes": hist.shapes, "log": hist.log[-40:]})
                        return False
                    for fp in pm[key]:
                        if fp[0] != fid:
                            ctx.fail("text-parents:other-file-id", "%r" % (pm[key],))
                            return False
                ctx.note(shape, nontrivial,
                         sample={"format": hist.fmt, "revision": r.decode(), "path": path, "kind": ie.kind,
                                 "candidates": [c.decode() for c in cands], "heads": [c.decode() for c in heads],
                                 "last_changed": got.decode(), "new_version": new} if nontrivial and len(cands) > 1 else None)
                ctx.distinct("decision_shapes", shape)
        # no text key that no inventory references as a new version
        ctx.count("unreferenced_scan")
        extra = all_text_keys - referenced
        if extra:
            ok = False
            ctx.fail("text-key:unreferenced", "%d text keys not named by any entry: %r" % (len(extra), sorted(extra)[:4]),
                     {"where": where, "format": hist.fmt})
    return ok


def case(ctx):
    from breezy.branch import Branch

    rng = ctx.rng
    fmt = FORMATS[ctx.index % len(FORMATS)]
    nrevs = rng.randint(5, 9) if ctx.tier == "quick" else rng.randint(8, 24)
    try:
        hist = H.build(ctx, rng, fmt, nrevs=nrevs, tier=ctx.tier, light=False, ghosts=True, nbranches=3, extra=True)
    except BaseException as e:  # workload construction is not what C02 judges
        if isinstance(e, (KeyboardInterrupt, SystemExit)):
            raise
        ctx.hist("build-error:" + type(e).__name__)
        ctx.discard("history construction failed: " + type(e).__name__)
    ctx.info = {"format": fmt}
    for s, n in hist.shapes.items():
        ctx.hist("shape:" + s, n)
    ctx.hist("format:" + fmt)
    ctx.hist("revisions", len(hist.order))
    for name in sorted(hist.trees):
        repo = Branch.open(hist.trees[name]).repository
        if not judge_repo(ctx, repo, hist, name):
            return
        ctx.count("repo_check")
        problems, _res = check_repo_full(repo)
        for attr, txt in problems:
            ctx.fail("check:" + attr, "Repository.check() on branch %s (%s): %s" % (name, fmt, txt),
                     {"format": fmt, "shapes": hist.shapes, "log": hist.log[-40:]})
        if problems:
            return
    if ctx.tier == "thorough" and rng.random() < 0.15:
        _reconcile_is_noop(ctx, hist)


def _reconcile_is_noop(ctx, hist):
    """reconcile(thorough) on a consistent repository reports nothing and leaves the per-file graph alone."""
    from breezy.branch import Branch

    name = sorted(hist.trees)[0]
    repo = Branch.open(hist.trees[name]).repository
    with repo.lock_read():
        before = dict(repo.texts.get_parent_map(repo.texts.keys()))
    try:
        res = repo.reconcile(thorough=True)
    except Exception as e:  # noqa: BLE001
        ctx.hist("reconcile-raised:" + type(e).__name__)
        return
    ctx.count("reconcile")
    repo = Branch.open(hist.trees[name]).repository
    with repo.lock_read():
        after = dict(repo.texts.get_parent_map(repo.texts.keys()))
    ctx.check(not getattr(res, "inconsistent_parents", 0), "reconcile:reports-inconsistent-parents",
              "reconcile found %r inconsistent parents in a consistent repository" % (getattr(res, "inconsistent_parents", None),),
              {"format": hist.fmt})
    ctx.check({k: frozenset(v) for k, v in before.items()} == {k: frozenset(v) for k, v in after.items()},
              "reconcile:changes-text-parents", "text graph differs after reconcile", {"format": hist.fmt})
