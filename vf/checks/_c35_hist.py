"""Private history builder for C35 / C40: vf.gen.build_history extended with the ingredients the two
properties quantify over and the shared generator does not (or rarely) produce:

  * renames of files that are modified (and chmod-ed) in the same revision, directory renames with a
    modified child, symlink retargets (incl. non-ascii targets), binary contents (NUL, 0xff, lone CR,
    no final newline), empty directories, files that become empty;
  * names whose git tree order differs from plain byte order (``a`` as a directory next to ``a.c``,
    ``a-x``, ``a0``), non-ascii names, names with spaces;
  * revision metadata: time zones including negative offsets that are not whole hours, authors and
    other revision properties (empty value, non-ascii value), messages with blank lines / trailing
    newline / non-ascii text.

Everything is driven through the public WorkingTree API plus raw file-system edits, like vf.gen.
"""
import os

from vf import gen
from vf.observe import snap_tree


class GitNames:
    """Name pool: same name may become file, directory or symlink (git sorts directories as name + '/')."""

    def __init__(self, tier="quick"):
        self.files = ["a", "a.c", "a-x", "a0", "ab", "B", "f1", "été", "sp ace"]
        self.dirs = ["a", "a.c", "d1", "sub"]
        if tier != "quick":
            self.files += [".hid", "x~", "a b.c", "日本"]
            self.dirs += ["d 2", "a-x"]
        self.maxdepth = 3 if tier == "quick" else 4


WEIGHTS = {"mkfile": 6, "mkdir": 4, "symlink": 3, "add": 10, "edit": 6, "chmod": 4, "rename": 5,
           "remove": 2, "unversion": 1, "delete_disk": 0, "kindchange": 0}
WEIGHTS_KC = dict(WEIGHTS, kindchange=2)

TZS = [0, 3600, -18000, 19800, -12600, -34200, 20700, -1800, 49500, -43200]
COMMITTERS = ["Joe <joe@example.com>", "Jürgen <j@example.org>", "Ann O'Neil <ann@example.net>"]
BINARY = [b"\x00\x01\x02bin\n", b"\xff\xfe\x00\x00", b"a\rb\rc", b"line\r\nline2\r\n\x00", b"PK\x03\x04" + bytes(range(256)),
          b"\x00", b"text then\nnul \x00 inside\nmore\n"]
TARGETS = ["a", "../x", "nowhere", "d1/a.c", "été", "sp ace", "/abs/path", "a" * 60]


def _files(wt, kinds=("file",)):
    st = snap_tree(wt)
    return sorted(p for p, v in st.items() if v[0] in kinds)


def _free_path(rng, wt, names, st=None):
    st = st if st is not None else snap_tree(wt)
    dirs = [""] + sorted(p for p, v in st.items() if v[0] == "directory" and p.count("/") + 2 <= names.maxdepth)
    for _ in range(8):
        d = rng.choice(dirs)
        n = rng.choice(names.files + names.dirs)
        p = (d + "/" + n) if d else n
        if p not in st and not os.path.lexists(os.path.join(wt.basedir, p)):
            return p
    return None


def extra_edits(rng, wt, names, log):
    """0..2 composite edits the properties name explicitly; each is legal on the current tree."""
    for _ in range(rng.choice([0, 1, 1, 2])):
        k = rng.choice(["rename+edit", "rename+edit", "binary", "retarget", "emptydir", "dirrename+edit", "dirrename+edit", "truncate",
                        "exec+edit", "newbinary", "dirrename+dropchild", "dirrename+dropchild"])
        try:
            _extra(rng, wt, names, k, log)
        except Exception as e:  # refused by breezy (e.g. path taken): not judged here
            log.append({"extra-refused": k, "err": type(e).__name__})


_ids = [0]


def _add(wt, path):
    """wt.add with a deterministic file id (auto-generated ids embed wall-clock time and random bytes)."""
    _ids[0] += 1
    if wt.supports_setting_file_ids():
        wt.add([path], ids=[("x%d-%s" % (_ids[0], "".join(c for c in path.rpartition("/")[2] if c.isalnum())[:8])).encode("utf-8")])
    else:
        wt.add([path])


def _extra(rng, wt, names, k, log):
    base = wt.basedir
    files = _files(wt)
    if k == "rename+edit" and files:
        src = rng.choice(files)
        dst = _free_path(rng, wt, names)
        if dst is None:
            return
        old = wt.get_file_text(src)
        wt.rename_one(src, dst)
        new = gen.edit_content(rng, old)
        gen._write(os.path.join(base, dst), new)
        if rng.random() < 0.3:
            os.chmod(os.path.join(base, dst), 0o755 if rng.random() < 0.5 else 0o644)
        log.append({"extra": k, "src": src, "dst": dst})
    elif k == "binary" and files:
        p = rng.choice(files)
        gen._write(os.path.join(base, p), rng.choice(BINARY) + (b"%d" % rng.randint(0, 999)))
        log.append({"extra": k, "path": p})
    elif k == "newbinary":
        p = _free_path(rng, wt, names)
        if p is None:
            return
        gen._write(os.path.join(base, p), rng.choice(BINARY) + (b"%d" % rng.randint(0, 999)))
        if rng.random() < 0.3:
            os.chmod(os.path.join(base, p), 0o755)
        _add(wt, p)
        log.append({"extra": k, "path": p})
    elif k == "retarget":
        links = _files(wt, ("symlink",))
        if not links:
            p = _free_path(rng, wt, names)
            if p is None:
                return
            os.symlink(rng.choice(TARGETS), os.path.join(base, p))
            _add(wt, p)
            log.append({"extra": "newlink", "path": p})
            return
        p = rng.choice(links)
        os.unlink(os.path.join(base, p))
        os.symlink(rng.choice(TARGETS) + str(rng.randint(0, 9)), os.path.join(base, p))
        log.append({"extra": k, "path": p})
    elif k == "emptydir":
        p = _free_path(rng, wt, names)
        if p is None:
            return
        os.mkdir(os.path.join(base, p))
        _add(wt, p)
        log.append({"extra": k, "path": p})
    elif k == "dirrename+edit":
        st = snap_tree(wt)
        dirs = sorted(p for p, v in st.items() if v[0] == "directory" and any(q.startswith(p + "/") and w[0] == "file" for q, w in st.items()))
        if not dirs:
            return
        d = rng.choice(dirs)
        dst = _free_path(rng, wt, names, st)
        if dst is None or dst.startswith(d + "/") or dst.count("/") + 1 + max(q.count("/") - d.count("/") for q in st if q.startswith(d + "/")) > names.maxdepth + 1:
            return
        kids = sorted(q for q, w in st.items() if q.startswith(d + "/") and w[0] == "file")
        wt.rename_one(d, dst)
        kid = dst + rng.choice(kids)[len(d):]
        gen._write(os.path.join(base, kid), gen.edit_content(rng, st[rng.choice(kids)][1] or b""))
        log.append({"extra": k, "src": d, "dst": dst, "edited": kid})
    elif k == "dirrename+dropchild":
        # a directory is renamed and, in the same revision, loses a child (removed or moved out of it)
        st = snap_tree(wt)
        dirs = sorted(p for p, v in st.items() if v[0] == "directory" and
                      sum(1 for q in st if q.startswith(p + "/") and "/" not in q[len(p) + 1:]) >= 2)
        if not dirs:
            return
        d = rng.choice(dirs)
        dst = _free_path(rng, wt, names, st)
        if dst is None or dst.startswith(d + "/") or dst.count("/") + 1 + max(q.count("/") - d.count("/") for q in st if q.startswith(d + "/")) > names.maxdepth + 1:
            return
        kids = sorted(q for q in st if q.startswith(d + "/") and "/" not in q[len(d) + 1:])
        kid = rng.choice(kids)
        wt.rename_one(d, dst)
        moved = dst + kid[len(d):]
        out = None
        if rng.random() < 0.5:
            out = _free_path(rng, wt, names)
        if out is not None and not out.startswith(dst + "/") and out.count("/") + 1 + (max([q.count("/") - kid.count("/") for q in st if q.startswith(kid + "/")] or [0])) <= names.maxdepth:
            wt.rename_one(moved, out)
        else:
            wt.remove([moved], keep_files=False, force=True)
        log.append({"extra": k, "src": d, "dst": dst, "child": kid, "to": out})
    elif k == "truncate" and files:
        p = rng.choice(files)
        gen._write(os.path.join(base, p), b"")
        log.append({"extra": k, "path": p})
    elif k == "exec+edit" and files:
        p = rng.choice(files)
        ap = os.path.join(base, p)
        ex = bool(os.stat(ap).st_mode & 0o100)
        gen._write(ap, gen.edit_content(rng, wt.get_file_text(p)))
        os.chmod(ap, 0o644 if ex else 0o755)
        log.append({"extra": k, "path": p})


def commit(hist, name, wt, rng, revprops=True):
    """Like gen.commit, with richer metadata (time zones incl. negative sub-hour offsets, revprops, authors)."""
    n = len(hist.order) + 1
    revid = ("rev-%s-%d" % (name, n)).encode()
    ts = 1500000000 + n * 1000 + rng.randint(0, 999)
    if rng.random() < 0.3:
        ts += rng.choice([0.5, 0.25, 0.125, 0.001])
    tz = rng.choice(TZS)
    msg = rng.choice(["msg %d" % n, "multi\nline %d" % n, "unicodé %d" % n, "para one %d\n\npara two\n" % n,
                      "trailing newline %d\n" % n, "  leading space %d" % n, "# hash %d\n=== added file x" % n])
    committer = rng.choice(COMMITTERS)
    kw = {}
    if revprops:
        props = {}
        r = rng.random()
        if r < 0.25:
            props["authors"] = rng.choice(COMMITTERS)
        elif r < 0.35:
            props["empty-prop"] = ""
        elif r < 0.5:
            props["note"] = "valué with: colon %d" % n
        if props:
            kw["revprops"] = props
    before = snap_tree(wt)
    parents = wt.get_parent_ids()
    rid = wt.commit(msg, rev_id=revid, timestamp=ts, timezone=tz, committer=committer, **kw)
    hist.recorded[rid] = {"parents": list(parents), "tree": before, "message": msg, "timestamp": ts,
                          "timezone": tz, "committer": committer, "branch": name, "props": kw.get("revprops", {})}
    hist.order.append(rid)
    hist.log.append({"commit": rid.decode(), "in": name, "parents": [p.decode() for p in parents], "tz": tz})
    return rid


def build(ctx, rng, fmt="2a", nrevs=8, nbranches=3, names=None, weights=None, merges=True, ghosts=False, extras=True,
          revprops=True):
    """Random multi-branch history with merges (see module docstring).  Returns gen.Hist."""
    from breezy import errors
    from breezy.branch import Branch
    from breezy.workingtree import WorkingTree

    names = names or GitNames("quick")
    weights = weights or WEIGHTS
    _ids[0] = 0
    root = ctx.tmp("hist")
    h = gen.Hist(root, fmt)
    p0 = os.path.join(root, "b0")
    wt = gen.make_tree(p0, fmt)
    h.trees["b0"] = p0
    gen.random_delta(rng, wt, names, rng.randint(3, 7), weights, h.log)
    commit(h, "b0", wt, rng, revprops)
    guard = 0
    while len(h.order) < nrevs and guard < nrevs * 6:
        guard += 1
        r = rng.random()
        bnames = sorted(h.trees)
        if r < 0.2 and len(h.trees) < nbranches:
            src = rng.choice(bnames)
            nn = "b%d" % len(h.trees)
            np_ = os.path.join(root, nn)
            swt = WorkingTree.open(h.trees[src])
            swt.branch.controldir.sprout(np_)
            h.trees[nn] = np_
            h.log.append({"branch": nn, "from": src})
            continue
        name = rng.choice(bnames)
        wt = WorkingTree.open(h.trees[name])
        if merges and r < 0.5 and len(h.trees) > 1:
            other = rng.choice([b for b in bnames if b != name])
            ob = Branch.open(h.trees[other])
            with wt.lock_read():
                already = wt.branch.repository.get_graph().is_ancestor(ob.last_revision(), wt.last_revision())
            if already:
                continue
            try:
                with wt.lock_write():
                    wt.merge_from_branch(ob)
            except errors.BzrError as e:
                h.log.append({"merge-refused": type(e).__name__})
                wt = WorkingTree.open(h.trees[name])
                wt.revert()
                continue
            gen.resolve_all(wt)
            if rng.random() < 0.5:
                gen.random_delta(rng, wt, names, rng.randint(0, 2), weights, h.log)
            h.log.append({"merge": other, "into": name})
            try:
                commit(h, name, wt, rng, revprops)
            except errors.PointlessCommit:
                wt.revert()
            continue
        gen.random_delta(rng, wt, names, rng.randint(1, 5), weights, h.log)
        if extras:
            extra_edits(rng, wt, names, h.log)
        if ghosts and rng.random() < 0.15:
            wt.add_pending_merge(b"ghost-%d" % len(h.order))
        try:
            commit(h, name, wt, rng, revprops)
        except errors.PointlessCommit:
            pass
    return h


def gather(h, into="b0"):
    """Fetch every branch's revisions into one repository; returns that repository (fresh object)."""
    from breezy.branch import Branch
    from breezy.repository import Repository

    b0 = Branch.open(h.trees[into])
    for n, p in sorted(h.trees.items()):
        if n != into:
            b0.repository.fetch(Branch.open(p).repository)
    return Repository.open(h.trees[into])


def ancestry(h, revid):
    """Set of recorded revisions reachable from revid (plain set algebra over what the generator recorded)."""
    seen, todo = set(), [revid]
    while todo:
        r = todo.pop()
        if r in seen or r not in h.recorded:
            continue
        seen.add(r)
        todo.extend(h.recorded[r]["parents"])
    return seen
