"""Private history builder for C35 / C40: vf.gen.build_history extended with the ingredients the two
properties quantify over and the shared generator does not (or rarely) produce:

  * renames of files that are modified (and chmod-ed) in the same revision, directory renames with a
    modified child, symlink retargets (incl. non-ascii targets), binary contents (NUL, 0xff, lone CR,
    no final newline), empty directories, files that become empty;
  * names whose git tree order differs from plain byte order (``a`` as a directory next to ``a.c``,
    ``a-x``, ``a0``), non-ascii names, names with spaces;
  * revision metadata: time zones including negative offsets that are not whole hours, authors and
    other revision properties (empty value, non-ascii value), messages with blank lines / trailing
    newline / non-ascii text.

Opt-in (C35; `build(extra_kinds=..., start=..., quiet=..., ours=..., merge_rate=...)`, the defaults leave the generated
histories as they were):

  * merges that keep none of the merged branch's changes (tree identical to the first parent, two parents);
  * paths vacated and re-occupied within one revision: an entry is removed and an existing directory / file / symlink
    is moved onto its path without any other change, or a new entry is added there; two entries trade places;
  * kind changes that keep the bytes git stores: a symlink becomes a regular file whose text is the link target (what
    a checkout without symlink support commits) and the reverse.

Everything is driven through the public WorkingTree API plus raw file-system edits, like vf.gen.
"""
import os

from vf import gen
from vf.observe import snap_tree


class GitNames:
    """Name pool: same name may become file, directory or symlink (git sorts directories as name + '/')."""

    def __init__(self, tier="quick"):
        self.files = ["a", "a.c", "a-x", "a0", "ab", "B", "f1", "été", "sp ace"]
        self.dirs = ["a", "a.c", "d1", "sub"]
        if tier != "quick":
            self.files += [".hid", "x~", "a b.c", "日本"]
            self.dirs += ["d 2", "a-x"]
        self.maxdepth = 3 if tier == "quick" else 4


WEIGHTS = {"mkfile": 6, "mkdir": 4, "symlink": 3, "add": 10, "edit": 6, "chmod": 4, "rename": 5,
           "remove": 2, "unversion": 1, "delete_disk": 0, "kindchange": 0}
WEIGHTS_KC = dict(WEIGHTS, kindchange=2)

TZS = [0, 3600, -18000, 19800, -12600, -34200, 20700, -1800, 49500, -43200]
COMMITTERS = ["Joe <joe@example.com>", "Jürgen <j@example.org>", "Ann O'Neil <ann@example.net>"]
BINARY = [b"\x00\x01\x02bin\n", b"\xff\xfe\x00\x00", b"a\rb\rc", b"line\r\nline2\r\n\x00", b"PK\x03\x04" + bytes(range(256)),
          b"\x00", b"text then\nnul \x00 inside\nmore\n"]
TARGETS = ["a", "../x", "nowhere", "d1/a.c", "été", "sp ace", "/abs/path", "a" * 60]


def _files(wt, kinds=("file",)):
    st = snap_tree(wt)
    return sorted(p for p, v in st.items() if v[0] in kinds)


def _free_path(rng, wt, names, st=None):
    st = st if st is not None else snap_tree(wt)
    dirs = [""] + sorted(p for p, v in st.items() if v[0] == "directory" and p.count("/") + 2 <= names.maxdepth)
    for _ in range(8):
        d = rng.choice(dirs)
        n = rng.choice(names.files + names.dirs)
        p = (d + "/" + n) if d else n
        if p not in st and not os.path.lexists(os.path.join(wt.basedir, p)):
            return p
    return None


EXTRA_KINDS = ["rename+edit", "rename+edit", "binary", "retarget", "emptydir", "dirrename+edit", "dirrename+edit", "truncate",
               "exec+edit", "newbinary", "dirrename+dropchild", "dirrename+dropchild"]
# one revision vacates a path and something else occupies it (pure renames of untouched directories / files / symlinks,
# new entries), two entries trade places, an entry changes kind while its git blob stays the same bytes
# (symlink <-> file holding the link target: what a checkout without symlink support commits)
REUSE_KINDS = ["takeover", "takeover", "takeover", "swap", "kindflip", "kindflip"]


def extra_edits(rng, wt, names, log, kinds=None, counts=(0, 1, 1, 2)):
    """0..2 composite edits the properties name explicitly; each is legal on the current tree."""
    kinds = kinds or EXTRA_KINDS
    for _ in range(rng.choice(list(counts))):
        k = rng.choice(kinds)
        try:
            _extra(rng, wt, names, k, log)
        except Exception as e:  # refused by breezy (e.g. path taken): not judged here
            log.append({"extra-refused": k, "err": type(e).__name__})


_ids = [0]


def _add(wt, path):
    """wt.add with a deterministic file id (auto-generated ids embed wall-clock time and random bytes)."""
    _ids[0] += 1
    if wt.supports_setting_file_ids():
        wt.add([path], ids=[("x%d-%s" % (_ids[0], "".join(c for c in path.rpartition("/")[2] if c.isalnum())[:8])).encode("utf-8")])
    else:
        wt.add([path])


def _extra(rng, wt, names, k, log):
    base = wt.basedir
    files = _files(wt)
    if k == "rename+edit" and files:
        src = rng.choice(files)
        dst = _free_path(rng, wt, names)
        if dst is None:
            return
        old = wt.get_file_text(src)
        wt.rename_one(src, dst)
        new = gen.edit_content(rng, old)
        gen._write(os.path.join(base, dst), new)
        if rng.random() < 0.3:
            os.chmod(os.path.join(base, dst), 0o755 if rng.random() < 0.5 else 0o644)
        log.append({"extra": k, "src": src, "dst": dst})
    elif k == "binary" and files:
        p = rng.choice(files)
        gen._write(os.path.join(base, p), rng.choice(BINARY) + (b"%d" % rng.randint(0, 999)))
        log.append({"extra": k, "path": p})
    elif k == "newbinary":
        p = _free_path(rng, wt, names)
        if p is None:
            return
        gen._write(os.path.join(base, p), rng.choice(BINARY) + (b"%d" % rng.randint(0, 999)))
        if rng.random() < 0.3:
            os.chmod(os.path.join(base, p), 0o755)
        _add(wt, p)
        log.append({"extra": k, "path": p})
    elif k == "retarget":
        links = _files(wt, ("symlink",))
        if not links:
            p = _free_path(rng, wt, names)
            if p is None:
                return
            os.symlink(rng.choice(TARGETS), os.path.join(base, p))
            _add(wt, p)
            log.append({"extra": "newlink", "path": p})
            return
        p = rng.choice(links)
        os.unlink(os.path.join(base, p))
        os.symlink(rng.choice(TARGETS) + str(rng.randint(0, 9)), os.path.join(base, p))
        log.append({"extra": k, "path": p})
    elif k == "emptydir":
        p = _free_path(rng, wt, names)
        if p is None:
            return
        os.mkdir(os.path.join(base, p))
        _add(wt, p)
        log.append({"extra": k, "path": p})
    elif k == "dirrename+edit":
        st = snap_tree(wt)
        dirs = sorted(p for p, v in st.items() if v[0] == "directory" and any(q.startswith(p + "/") and w[0] == "file" for q, w in st.items()))
        if not dirs:
            return
        d = rng.choice(dirs)
        dst = _free_path(rng, wt, names, st)
        if dst is None or dst.startswith(d + "/") or dst.count("/") + 1 + max(q.count("/") - d.count("/") for q in st if q.startswith(d + "/")) > names.maxdepth + 1:
            return
        kids = sorted(q for q, w in st.items() if q.startswith(d + "/") and w[0] == "file")
        wt.rename_one(d, dst)
        kid = dst + rng.choice(kids)[len(d):]
        gen._write(os.path.join(base, kid), gen.edit_content(rng, st[rng.choice(kids)][1] or b""))
        log.append({"extra": k, "src": d, "dst": dst, "edited": kid})
    elif k == "dirrename+dropchild":
        # a directory is renamed and, in the same revision, loses a child (removed or moved out of it)
        st = snap_tree(wt)
        dirs = sorted(p for p, v in st.items() if v[0] == "directory" and
                      sum(1 for q in st if q.startswith(p + "/") and "/" not in q[len(p) + 1:]) >= 2)
        if not dirs:
            return
        d = rng.choice(dirs)
        dst = _free_path(rng, wt, names, st)
        if dst is None or dst.startswith(d + "/") or dst.count("/") + 1 + max(q.count("/") - d.count("/") for q in st if q.startswith(d + "/")) > names.maxdepth + 1:
            return
        kids = sorted(q for q in st if q.startswith(d + "/") and "/" not in q[len(d) + 1:])
        kid = rng.choice(kids)
        wt.rename_one(d, dst)
        moved = dst + kid[len(d):]
        out = None
        if rng.random() < 0.5:
            out = _free_path(rng, wt, names)
        if out is not None and not out.startswith(dst + "/") and out.count("/") + 1 + (max([q.count("/") - kid.count("/") for q in st if q.startswith(kid + "/")] or [0])) <= names.maxdepth:
            wt.rename_one(moved, out)
        else:
            wt.remove([moved], keep_files=False, force=True)
        log.append({"extra": k, "src": d, "dst": dst, "child": kid, "to": out})
    elif k == "takeover":
        _takeover(rng, wt, names, log)
    elif k == "swap":
        _swap(rng, wt, names, log)
    elif k == "kindflip":
        _kindflip(rng, wt, names, log)
    elif k == "truncate" and files:
        p = rng.choice(files)
        gen._write(os.path.join(base, p), b"")
        log.append({"extra": k, "path": p})
    elif k == "exec+edit" and files:
        p = rng.choice(files)
        ap = os.path.join(base, p)
        ex = bool(os.stat(ap).st_mode & 0o100)
        gen._write(ap, gen.edit_content(rng, wt.get_file_text(p)))
        os.chmod(ap, 0o644 if ex else 0o755)
        log.append({"extra": k, "path": p})


def _present(wt):
    """{path: (kind, content, exec, id)} of the versioned entries that exist on disk with their versioned kind."""
    st = snap_tree(wt)
    out = {}
    for p, v in st.items():
        ap = os.path.join(wt.basedir, p)
        if v[0] is None or not os.path.lexists(ap):
            continue
        disk = "symlink" if os.path.islink(ap) else "directory" if os.path.isdir(ap) else "file"
        if disk == v[0] and all(q in out for q in _parents(p)):
            out[p] = v
    return out


def _parents(p):
    while "/" in p:
        p = p.rpartition("/")[0]
        yield p


def _height(st, p):
    return max([q.count("/") - p.count("/") for q in st if q.startswith(p + "/")] or [0])


def _unrelated(a, b):
    return a != b and not a.startswith(b + "/") and not b.startswith(a + "/")


def _takeover(rng, wt, names, log):
    """A versioned entry is removed and, in the same revision, its path is taken by something else: an existing
    directory / file / symlink moved there without any other change, or a newly added entry."""
    st = _present(wt)
    if not st:
        return
    base = wt.basedir
    how = rng.choice(["dir", "dir", "dir", "file", "symlink", "any", "newlink", "newlink", "newfile", "newdir"])
    want = {"dir": ("directory",), "file": ("file",), "symlink": ("symlink",), "any": ("file", "directory", "symlink")}.get(how)
    pairs = []
    if want:
        for e in sorted(st):
            if st[e][0] not in want:
                continue
            if how == "dir" and not any(q.startswith(e + "/") and st[q][0] != "directory" for q in st):
                continue  # git does not see empty directories
            for v in sorted(st):
                if _unrelated(e, v) and v.count("/") + 1 + _height(st, e) <= names.maxdepth + 1:
                    pairs.append((e, v))
        if not pairs:
            how = rng.choice(["newlink", "newfile", "newdir"])
    if pairs:
        e, v = rng.choice(pairs)
        wt.remove([v], keep_files=False, force=True)
        wt.rename_one(e, v)
        log.append({"extra": "takeover", "removed": v, "removed_kind": st[v][0], "moved": e, "kind": st[e][0]})
        return
    v = rng.choice(sorted(st))
    wt.remove([v], keep_files=False, force=True)
    ap = os.path.join(base, v)
    if how == "newlink":
        os.symlink(rng.choice(TARGETS), ap)
        _add(wt, v)
    elif how == "newfile":
        gen._write(ap, gen.gen_content(rng))
        _add(wt, v)
    else:
        os.mkdir(ap)
        _add(wt, v)
        if v.count("/") + 2 <= names.maxdepth + 1:
            kid = v + "/" + rng.choice(names.files)
            gen._write(os.path.join(base, kid), gen.gen_content(rng))
            _add(wt, kid)
    log.append({"extra": "takeover", "removed": v, "removed_kind": st[v][0], "new": how})


def _swap(rng, wt, names, log):
    """Two versioned entries trade places (through a temporary name); nothing else changes."""
    st = _present(wt)
    pairs = [(a, b) for a in sorted(st) for b in sorted(st) if a < b and _unrelated(a, b)
             and b.count("/") + 1 + _height(st, a) <= names.maxdepth + 1 and a.count("/") + 1 + _height(st, b) <= names.maxdepth + 1
             and (st[a][0] != "directory" or st[b][0] != "directory" or rng.random() < 0.5)]
    if not pairs:
        return
    a, b = rng.choice(pairs)
    tmp = "swap-tmp"
    if tmp in st or os.path.lexists(os.path.join(wt.basedir, tmp)):
        return
    wt.rename_one(a, tmp)
    wt.rename_one(b, a)
    wt.rename_one(tmp, b)
    log.append({"extra": "swap", "a": a, "b": b, "kinds": [st[a][0], st[b][0]]})


def _link_text(data):
    """The text if it could be a symlink target (what a file standing in for a symlink holds), else None."""
    try:
        t = data.decode("utf-8")
    except UnicodeDecodeError:
        return None
    if not t or len(t) > 200 or any(ord(c) < 32 for c in t) or t != t.strip():
        return None
    return t


def _kindflip(rng, wt, names, log):
    """A symlink becomes a regular file holding the link target as its text, or a file holding such a text becomes
    the symlink: the entry changes kind while the bytes git stores for it stay the same."""
    st = _present(wt)
    base = wt.basedir
    links = sorted(p for p, v in st.items() if v[0] == "symlink")
    texts = sorted(p for p, v in st.items() if v[0] == "file" and _link_text(v[1] or b"") is not None)
    if not links and not texts or rng.random() < 0.15:
        p = _free_path(rng, wt, names)
        if p is None:
            return
        gen._write(os.path.join(base, p), (rng.choice(TARGETS) + str(rng.randint(0, 9))).encode("utf-8"))
        _add(wt, p)
        log.append({"extra": "linktext", "path": p})
        return
    p = rng.choice(links + texts)
    ap = os.path.join(base, p)
    if st[p][0] == "symlink":
        os.unlink(ap)
        gen._write(ap, st[p][1].encode("utf-8"))
        if rng.random() < 0.15:
            os.chmod(ap, 0o755)
        log.append({"extra": "kindflip", "path": p, "to": "file"})
    else:
        os.unlink(ap)
        os.symlink(_link_text(st[p][1]), ap)
        log.append({"extra": "kindflip", "path": p, "to": "symlink"})


def rich_start(rng, wt, names, log):
    """First revision ingredients the later composite edits need to exist already: a directory holding a file (and a
    nested directory), a symlink, a file whose whole text is a path (no final newline)."""
    base = wt.basedir

    def put(p, kind, data=None):
        ap = os.path.join(base, p)
        if os.path.lexists(ap):
            return False
        if kind == "directory":
            os.mkdir(ap)
        elif kind == "symlink":
            os.symlink(data, ap)
        else:
            gen._write(ap, data.encode("utf-8") if isinstance(data, str) else data)
        _add(wt, p)
        log.append({"start": kind, "path": p})
        return True

    if rng.random() < 0.8:
        d = rng.choice(names.dirs)
        if put(d, "directory"):
            put(d + "/" + rng.choice(names.files), "file", gen.gen_content(rng))
            if rng.random() < 0.5:
                sub = d + "/" + rng.choice(names.dirs)
                if put(sub, "directory"):
                    put(sub + "/" + rng.choice(names.files), rng.choice(["file", "file", "symlink"]), rng.choice(TARGETS))
            if rng.random() < 0.3:
                put(d + "/" + rng.choice(names.files), "symlink", rng.choice(TARGETS))
    if rng.random() < 0.7:
        put(rng.choice(names.files), "symlink", rng.choice(TARGETS))
    if rng.random() < 0.6:
        put(rng.choice(names.files), "file", rng.choice(TARGETS).encode("utf-8"))


def commit(hist, name, wt, rng, revprops=True):
    """Like gen.commit, with richer metadata (time zones incl. negative sub-hour offsets, revprops, authors)."""
    n = len(hist.order) + 1
    revid = ("rev-%s-%d" % (name, n)).encode()
    ts = 1500000000 + n * 1000 + rng.randint(0, 999)
    if rng.random() < 0.3:
        ts += rng.choice([0.5, 0.25, 0.125, 0.001])
    tz = rng.choice(TZS)
    msg = rng.choice(["msg %d" % n, "multi\nline %d" % n, "unicodé %d" % n, "para one %d\n\npara two\n" % n,
                      "trailing newline %d\n" % n, "  leading space %d" % n, "# hash %d\n=== added file x" % n])
    committer = rng.choice(COMMITTERS)
    kw = {}
    if revprops:
        props = {}
        r = rng.random()
        if r < 0.25:
            props["authors"] = rng.choice(COMMITTERS)
        elif r < 0.35:
            props["empty-prop"] = ""
        elif r < 0.5:
            props["note"] = "valué with: colon %d" % n
        if props:
            kw["revprops"] = props
    before = snap_tree(wt)
    parents = wt.get_parent_ids()
    rid = wt.commit(msg, rev_id=revid, timestamp=ts, timezone=tz, committer=committer, **kw)
    hist.recorded[rid] = {"parents": list(parents), "tree": before, "message": msg, "timestamp": ts,
                          "timezone": tz, "committer": committer, "branch": name, "props": kw.get("revprops", {})}
    hist.order.append(rid)
    hist.log.append({"commit": rid.decode(), "in": name, "parents": [p.decode() for p in parents], "tz": tz})
    return rid


def build(ctx, rng, fmt="2a", nrevs=8, nbranches=3, names=None, weights=None, merges=True, ghosts=False, extras=True,
          revprops=True, extra_kinds=None, start=None, quiet=0.0, ours=0.0, merge_rate=0.5):
    """Random multi-branch history with merges (see module docstring).  Returns gen.Hist.

    extra_kinds: pool the composite edits are drawn from (default EXTRA_KINDS); start: callable laying out the first
    revision before the random ops (rich_start); quiet: share of ordinary revisions that consist of composite edits
    only (no random single ops next to them, so a rename stays a pure rename); ours: share of merges that record the
    merged branch as a parent but keep none of its changes (`brz revert .` after the merge keeps the pending merge:
    the merge revision's tree is its first parent's tree); merge_rate: threshold of the merge draw (default 0.5)."""
    from breezy import errors
    from breezy.branch import Branch
    from breezy.workingtree import WorkingTree

    names = names or GitNames("quick")
    weights = weights or WEIGHTS
    _ids[0] = 0
    root = ctx.tmp("hist")
    h = gen.Hist(root, fmt)
    p0 = os.path.join(root, "b0")
    wt = gen.make_tree(p0, fmt)
    h.trees["b0"] = p0
    if start is not None:
        start(rng, wt, names, h.log)
    gen.random_delta(rng, wt, names, rng.randint(3, 7), weights, h.log)
    commit(h, "b0", wt, rng, revprops)
    guard = 0
    while len(h.order) < nrevs and guard < nrevs * 6:
        guard += 1
        r = rng.random()
        bnames = sorted(h.trees)
        if r < 0.2 and len(h.trees) < nbranches:
            src = rng.choice(bnames)
            nn = "b%d" % len(h.trees)
            np_ = os.path.join(root, nn)
            swt = WorkingTree.open(h.trees[src])
            swt.branch.controldir.sprout(np_)
            h.trees[nn] = np_
            h.log.append({"branch": nn, "from": src})
            continue
        name = rng.choice(bnames)
        wt = WorkingTree.open(h.trees[name])
        if merges and r < merge_rate and len(h.trees) > 1:
            other = rng.choice([b for b in bnames if b != name])
            ob = Branch.open(h.trees[other])
            with wt.lock_read():
                already = wt.branch.repository.get_graph().is_ancestor(ob.last_revision(), wt.last_revision())
            if already:
                continue
            try:
                with wt.lock_write():
                    wt.merge_from_branch(ob)
            except errors.BzrError as e:
                h.log.append({"merge-refused": type(e).__name__})
                wt = WorkingTree.open(h.trees[name])
                wt.revert()
                continue
            gen.resolve_all(wt)
            if ours and rng.random() < ours:
                # "ours" merge: everything the other branch brought is thrown away, the pending merge stays
                wt.revert([""], backups=False)
                gen.resolve_all(wt)
                h.log.append({"merge": other, "into": name, "ours": True, "pending": len(wt.get_parent_ids()) - 1})
            else:
                if rng.random() < 0.5:
                    gen.random_delta(rng, wt, names, rng.randint(0, 2), weights, h.log)
                h.log.append({"merge": other, "into": name})
            try:
                commit(h, name, wt, rng, revprops)
            except errors.PointlessCommit:
                wt.revert()
            continue
        if quiet and extras and rng.random() < quiet:
            h.log.append({"quiet-revision": name})
            extra_edits(rng, wt, names, h.log, extra_kinds, counts=[1, 1, 2])
        else:
            gen.random_delta(rng, wt, names, rng.randint(1, 5), weights, h.log)
            if extras:
                extra_edits(rng, wt, names, h.log, extra_kinds)
        if ghosts and rng.random() < 0.15:
            wt.add_pending_merge(b"ghost-%d" % len(h.order))
        try:
            commit(h, name, wt, rng, revprops)
        except errors.PointlessCommit:
            pass
    return h


def gather(h, into="b0"):
    """Fetch every branch's revisions into one repository; returns that repository (fresh object)."""
    from breezy.branch import Branch
    from breezy.repository import Repository

    b0 = Branch.open(h.trees[into])
    for n, p in sorted(h.trees.items()):
        if n != into:
            b0.repository.fetch(Branch.open(p).repository)
    return Repository.open(h.trees[into])


def ancestry(h, revid):
    """Set of recorded revisions reachable from revid (plain set algebra over what the generator recorded)."""
    seen, todo = set(), [revid]
    while todo:
        r = todo.pop()
        if r in seen or r not in h.recorded:
            continue
        seen.add(r)
        todo.extend(h.recorded[r]["parents"])
    return seen
