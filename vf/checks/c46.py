"""C46 - clean-tree deletes only what was asked for.

Disk-diff monitor: a generated working tree (versioned / unknown / ignored / detritus-named files,
versioned paths whose names look ignored or detritus, unknown directories, nested branches at several
depths, symlinks to files and directories OUTSIDE the tree with sentinels there) is snapshotted, then
`breezy.clean_tree.clean_tree(dir, unknown, ignored, detritus, dry_run, no_prompt=True)` runs for all 2^3
category combinations x dry_run (real runs each on a fresh copy) and everything that disappeared or changed
on disk is classified.  Only safety is a verdict; completeness is reported in the histogram.

Kind drift: after the paths were versioned, some of them change kind on disk without the tree being told (a versioned
directory is relocated outside the tree and a relative or absolute symlink left in its place, with files in the new home
and in its versioned subdirectories that were never part of the tree; the link points at another directory of the same
tree; file <-> directory <-> symlink swaps; missing directories).  The deletables that clean_tree hands to the real
delete_items are observed (which ancestor component is a symlink, where the deletable really lives) so that a removal is
attributed to its mechanism: listed in a versioned directory that is a symlink now / listed in a versioned subdirectory
below such a link / listed through an unversioned symlink / the deletable itself was a symlink that was followed.
"""
import os
import shutil
import stat

from vf import boot, gen

ID = "C46"
LEVEL = "exploration"
TECHNIQUE = "disk-diff safety monitor around the real clean_tree() on generated layouts, all option combinations"
LEVEL_TEXT = ("for every generated layout and each of the 16 (unknown, ignored, detritus, dry_run) settings the set of paths removed or altered on disk "
              "(tree, nested branches, own control directory, and the directories outside the tree that symlinks point to) was computed and each such path judged: "
              "outside the tree / versioned / ancestor of versioned / in a nested branch / category not requested / dry run; removals reached through a "
              "symlinked ancestor of an observed deletable are keyed by that mechanism")
RULE = ("case = one random layout in a bzr 2a or git working tree (alternating); 16 executions per case (8 dry on the layout, 8 real on copies); "
        "one evaluation = one execution judged; every 4th case (bzr) has a versioned directory relocated outside the tree behind a symlink, most others some kind drift of versioned paths; "
        "non-trivial = the layout has >= 1 nested branch, outside symlink or drifted versioned path and the execution had something to delete or protect; "
        "distinct = tree format + flags + sorted classes of deleted and of surviving unversioned paths + kinds of drift")
CASES = {"quick": 32, "thorough": 480}
BUDGET_S = {"quick": 45, "thorough": 700}
MIN_EVALS = {"quick": 160, "thorough": 3000}
FLOORS = {"judged_real": 80, "judged_dry": 80, "deleted_paths_judged": 300, "layouts_with_nested_branch": 8, "layouts_with_outside_symlink": 8,
          "runs:bzr": 60, "runs:git": 60, "layouts_with_kind_drift": 12, "layouts_with_versioned_dir_relocated_outside:bzr": 8}
ASSUMPTIONS = [
    "'ignored' is what tree.is_ignored(path) of the tree under test says (pattern semantics are C48's subject); 'unknown' = unversioned and not ignored",
    "'detritus' is read generously: names ending in .THIS .BASE .OTHER ~ .tmp .orig .rej .moved may be deleted under --detritus",
    "a deleted path is covered when it or an unversioned ancestor directory is in a requested category (an unknown directory goes with its content)",
    "a nested branch = a directory holding a .bzr or .git control directory created by the generator, with everything below it",
    "the tree's own control directory is compared by path set only (lock / index refresh may rewrite files)",
    "versioned = what the tree listed before the on-disk kinds drifted; in a git tree a file or symlink standing where a directory of versioned files was is an unversioned path",
    "directories outside the tree are reachable only through symlinks the generator made; absolute links in the copies point into the layout's own outside/, "
    "which is judged after every real run and restored from a master copy",
]

DETRITUS_SUFFIXES = (".THIS", ".BASE", ".OTHER", "~", ".tmp", ".orig", ".rej", ".moved")
_templates = {}


def _template(fmt):
    """A small committed branch of the given format, built once per worker, copied where a nested branch is wanted."""
    if fmt not in _templates:
        d = boot.fresh_dir("c46tpl")
        p = os.path.join(d, "nb")
        wt = gen.make_tree(p, fmt)
        with open(os.path.join(p, "inner.txt"), "w") as f:
            f.write("inner working file\n")
        wt.smart_add([p])
        wt.commit("inner", committer="C <c@example.com>", timestamp=1500000000, timezone=0)
        _templates[fmt] = p
    return _templates[fmt]


def _w(path, data="x\n"):
    os.makedirs(os.path.dirname(path), exist_ok=True)
    with open(path, "w") as f:
        f.write(data)


def _snap(root):
    """relpath -> (kind, bytes|target|None, mode bits) for everything under root, not following symlinks."""
    out = {}
    for dp, dns, fns in os.walk(root):
        rel = os.path.relpath(dp, root)
        rel = "" if rel == "." else rel
        for d in list(dns):
            p = os.path.join(dp, d)
            r = (rel + "/" + d) if rel else d
            if os.path.islink(p):
                out[r] = ("symlink", os.readlink(p), 0)
                dns.remove(d)
            else:
                out[r] = ("directory", None, 0)
        for f in fns:
            p = os.path.join(dp, f)
            r = (rel + "/" + f) if rel else f
            st = os.lstat(p)
            if stat.S_ISLNK(st.st_mode):
                out[r] = ("symlink", os.readlink(p), 0)
            elif stat.S_ISREG(st.st_mode):
                with open(p, "rb") as fh:
                    out[r] = ("file", fh.read(), st.st_mode & 0o111)
            else:
                out[r] = ("other", None, 0)
    return out


def _layout(ctx, rng, fmt, root):
    """Build root/t (tree), root/outside (relative symlink targets).  Returns description dict."""
    t = os.path.join(root, "t")
    out = os.path.join(root, "outside")
    ctl = ".git" if fmt == "git" else ".bzr"
    ignore_file = ".gitignore" if fmt == "git" else ".bzrignore"
    # ---- outside world with sentinels
    _w(os.path.join(out, "sentinel"), "outside sentinel\n")
    _w(os.path.join(out, "od", "sentinel2"), "outside dir sentinel\n")
    _w(os.path.join(out, "od", "deep", "sentinel3.o"), "outside deep\n")
    _w(os.path.join(out, "od", "junk~"), "outside detritus-looking\n")
    if rng.random() < 0.4:
        shutil.copytree(_template(rng.choice(["2a", "git"])), os.path.join(out, "ob"), symlinks=True)
    wt = gen.make_tree(t, fmt)
    desc = {"fmt": fmt, "nested": [], "outside_links": [], "notes": [], "drift": []}
    # ---- versioned part (some names look ignored / detritus)
    vfiles = ["v1", "vd/v2.txt"]
    vfiles += rng.sample(["keep~", "v.BASE", "old.orig", "vbuild.o", "vd/in.tmp", "vd/sub/v3", "build/vb", "t.tmp/vt", "ignv/x"], rng.randint(2, 6))
    for p in vfiles:
        _w(os.path.join(t, p), "versioned %s\n" % p)
    vlinks = []
    if rng.random() < 0.5:
        os.symlink("../outside/od", os.path.join(t, "vlnk_d"))
        vlinks.append("vlnk_d")
    if rng.random() < 0.3:
        os.symlink("../outside/sentinel", os.path.join(t, "vlnk_f"))
        vlinks.append("vlnk_f")
    # versioned paths whose on-disk kind may drift after they were versioned (see _drift)
    force_reloc = fmt != "git" and ctx.index % 4 == 0
    drift_dirs = [d for d in ("vswap", "vd/vrel") if force_reloc or rng.random() < 0.6]
    for d in drift_dirs:
        _w(os.path.join(t, d, "inside"), "versioned inside %s\n" % d)
        if rng.random() < 0.5:
            _w(os.path.join(t, d, "sub", "inner.o"), "versioned below %s\n" % d)
    drift_files = [f for f in ("vkind", "vd/vkind.tmp") if rng.random() < 0.5]
    for f in drift_files:
        _w(os.path.join(t, f), "versioned %s\n" % f)
    # ---- ignore rules
    pats = rng.sample(["*.o", "ign*", "build", "vd/*.log", "*.log", "udir/keepme", "!important.o", "tmpdir.tmp"], rng.randint(2, 5))
    _w(os.path.join(t, ignore_file), "\n".join(pats) + "\n")
    ignore_versioned = rng.random() < 0.7
    # version everything present so far (explicit names: ignore rules must not matter here)
    todo = []
    for dp, dns, fns in os.walk(t):
        if ctl in dns:
            dns.remove(ctl)
        for n in sorted(dns) + sorted(fns):
            rel = os.path.relpath(os.path.join(dp, n), t)
            if rel == ignore_file and not ignore_versioned:
                continue
            todo.append(rel)
    todo.sort(key=lambda x: (x.count("/"), x))
    if fmt == "git":
        todo = [x for x in todo if not os.path.isdir(os.path.join(t, x)) or os.path.islink(os.path.join(t, x))]
    wt.add(todo)
    if rng.random() < 0.8:
        wt.commit("base", committer="C <c@example.com>", timestamp=1500000000, timezone=0)
    with wt.lock_read():
        desc["versioned"] = [(p, ie.kind) for p, ie in wt.iter_entries_by_dir() if p != ""]
    _drift(ctx, rng, fmt, t, out, desc, drift_dirs, drift_files, vlinks, force_reloc)
    # ---- unversioned part
    homes = ["", "vd", "vd/sub"] + [d for d in ("build", "t.tmp", "ignv") if os.path.isdir(os.path.join(t, d))]
    unv_names = ["u1", "u2.txt", "new.c", "a.o", "important.o", "ignme", "x.log", "x.THIS", "x.BASE", "x.OTHER", "y~", "z.tmp", "p.orig", "p.rej",
                 "q.moved", "bak.~1~"]
    for _ in range(rng.randint(4, 12)):
        h = rng.choice(homes)
        n = rng.choice(unv_names)
        p = os.path.join(t, h, n)
        if not os.path.lexists(p):
            _w(p, "unversioned %s\n" % n)
    # unknown / ignored / detritus directories with content
    for dname in rng.sample(["udir", "ign_dir", "tmpdir.tmp", "vd/udir2", "build" if not os.path.exists(os.path.join(t, "build")) else "udir3"], rng.randint(1, 4)):
        base = os.path.join(t, dname)
        if os.path.lexists(base):
            continue
        os.makedirs(base)
        for n in rng.sample(["keepme", "f", "g.o", "h~", "deep/i", "deep/j.tmp", "k.BASE"], rng.randint(1, 4)):
            _w(os.path.join(base, n), "in unversioned dir\n")
        if rng.random() < 0.5:
            nb = os.path.join(base, rng.choice(["nb", "deep/nb"]))
            if not os.path.lexists(nb):
                os.makedirs(os.path.dirname(nb), exist_ok=True)
                f2 = rng.choice(["2a", "git"])
                shutil.copytree(_template(f2), nb, symlinks=True)
                desc["nested"].append({"path": os.path.relpath(nb, t), "fmt": f2, "where": "inside-unversioned-dir"})
        if rng.random() < 0.35:
            os.symlink(os.path.relpath(os.path.join(out, "od"), base), os.path.join(base, "lnk_d"))
            desc["outside_links"].append(os.path.relpath(os.path.join(base, "lnk_d"), t))
    # nested branches directly in versioned directories
    for h in rng.sample(["", "vd", "vd/sub"], rng.randint(0, 2)):
        nb = os.path.join(t, h, rng.choice(["nb", "nested.tmp", "ign_nb"]))
        if not os.path.lexists(nb):
            os.makedirs(os.path.join(t, h), exist_ok=True)
            f2 = rng.choice(["2a", "git"])
            shutil.copytree(_template(f2), nb, symlinks=True)
            desc["nested"].append({"path": os.path.relpath(nb, t), "fmt": f2, "where": "in-versioned-dir"})
    # unversioned symlinks to the outside world
    for h in rng.sample(["", "vd", "vd/sub"], rng.randint(1, 3)):
        kind = rng.choice(["d", "f", "abs_d", "branch"])
        name = rng.choice(["lnk", "lnk~", "lnk.o", "lnk.tmp"]) + "_" + kind
        lp = os.path.join(t, h, name)
        if os.path.lexists(lp):
            continue
        os.makedirs(os.path.join(t, h), exist_ok=True)
        if kind == "d":
            os.symlink(os.path.relpath(os.path.join(out, "od"), os.path.join(t, h)), lp)
        elif kind == "f":
            os.symlink(os.path.relpath(os.path.join(out, "sentinel"), os.path.join(t, h)), lp)
        elif kind == "abs_d":
            os.symlink(os.path.join(out, "od"), lp)  # absolute: in a copied layout it still points at the original outside/
        else:
            if not os.path.isdir(os.path.join(out, "ob")):
                continue
            os.symlink(os.path.relpath(os.path.join(out, "ob"), os.path.join(t, h)), lp)
        desc["outside_links"].append(os.path.relpath(lp, t))
    return desc


FOREIGN = ["precious.dat", "notes.txt", "build.o", "draft.txt~", "x.log", "ignme", "k.BASE", "z.tmp", "subdir/deep.dat", "subdir/more/deeper.o"]


def _drift(ctx, rng, fmt, t, out, desc, drift_dirs, drift_files, vlinks, force_reloc):
    """Versioned paths change kind on disk AFTER they were versioned (the tree is not told).

    The interesting one: a versioned directory is relocated outside the tree and a symlink is left in its place;
    the new home also holds files that were never part of this tree.  Others: the link points at another
    directory of the same tree; file <-> directory <-> symlink swaps; a versioned directory that is gone.
    """
    n_reloc = 0
    targets = list(drift_dirs)
    rng.shuffle(targets)
    for i, d in enumerate(targets):
        p = os.path.join(t, d)
        if force_reloc and i == 0:
            op = "dir->outside-symlink"
        else:
            op = rng.choice(["dir->outside-symlink", "dir->outside-symlink", "dir->inside-symlink", "dir->file", "dir-missing", "none"])
        if op == "none":
            continue
        if op == "dir->outside-symlink":
            if rng.random() < 0.5 and os.path.isdir(os.path.join(p, "sub")):
                d, p = d + "/sub", os.path.join(p, "sub")
            n_reloc += 1
            home = os.path.join(out, "reloc%d" % n_reloc)
            shutil.move(p, home)
            for n in rng.sample(FOREIGN, rng.randint(2, 6)):
                _w(os.path.join(home, n), "never part of the tree: %s\n" % n)
            if os.path.isdir(os.path.join(home, "sub")) and rng.random() < 0.7:
                # ... also below a subdirectory that is versioned in the tree
                for n in rng.sample(FOREIGN, rng.randint(1, 3)):
                    _w(os.path.join(home, "sub", n), "never part of the tree: sub/%s\n" % n)
            os.symlink(home if rng.random() < 0.25 else os.path.relpath(home, os.path.dirname(p)), p)
        elif op == "dir->inside-symlink":
            shutil.rmtree(p)
            os.symlink(os.path.relpath(os.path.join(t, rng.choice(["vd/sub", "build", "."])), os.path.dirname(p)) if d == "vd/vrel"
                       else rng.choice(["vd", "vd/sub", "."]), p)
        elif op == "dir->file":
            shutil.rmtree(p)
            _w(p, "a file where a versioned directory was\n")
        else:
            shutil.rmtree(p)
        desc["drift"].append({"path": d, "op": op})
    for f in drift_files:
        p = os.path.join(t, f)
        op = rng.choice(["file->outside-dir-symlink", "file->dir", "file-missing", "none"])
        if op == "none":
            continue
        os.unlink(p)
        if op == "file->outside-dir-symlink":
            os.symlink(os.path.relpath(os.path.join(out, "od"), os.path.dirname(p)), p)
        elif op == "file->dir":
            for n in rng.sample(["u1", "a.o", "y~", "deep/z.tmp", "ignme"], rng.randint(1, 3)):
                _w(os.path.join(p, n), "below a directory that is versioned as a file\n")
        desc["drift"].append({"path": f, "op": op})
    if "vlnk_d" in vlinks and rng.random() < 0.3:
        p = os.path.join(t, "vlnk_d")
        os.unlink(p)
        for n in rng.sample(["u1", "a.o", "y~", "sentinel2"], rng.randint(1, 3)):
            _w(os.path.join(p, n), "below a directory that is versioned as a symlink\n")
        desc["drift"].append({"path": "vlnk_d", "op": "symlink->dir"})
    if n_reloc:
        desc["notes"].append("versioned-dir-became-outside-symlink")


def _classify_layout(t, fmt, desc):
    """Versioned paths, per-path ignore verdicts of the tree itself."""
    from breezy.workingtree import WorkingTree

    ctl = ".git" if fmt == "git" else ".bzr"
    wt = WorkingTree.open(t)
    nested = [n["path"] for n in desc["nested"]]
    with wt.lock_read():
        versioned = {p for p, kind in desc["versioned"]}   # recorded before the on-disk kinds drifted
        if fmt == "git":
            # git versions files; a directory is 'versioned' only as the home of versioned files.  Where such a directory was replaced on disk
            # by a file or symlink, that file or symlink is an unversioned path (the versioned files below the name are merely missing).
            versioned -= {p for p, kind in desc["versioned"] if kind == "directory"
                          and (os.path.islink(os.path.join(t, p)) or not os.path.isdir(os.path.join(t, p))) and os.path.lexists(os.path.join(t, p))}
        for n in desc["nested"]:
            n["where"] = "in-versioned-dir" if os.path.dirname(n["path"]) in versioned | {""} else "inside-unversioned-dir"
        ign = {}
        for dp, dns, fns in os.walk(t):
            rel = os.path.relpath(dp, t)
            rel = "" if rel == "." else rel
            if rel == "":
                dns[:] = [d for d in dns if d != ctl]
            for d in list(dns):
                r = (rel + "/" + d) if rel else d
                if r in nested:
                    dns.remove(d)
                    continue
                if os.path.islink(os.path.join(dp, d)):
                    dns.remove(d)
            for n in list(dns) + fns + [d for d in os.listdir(dp) if os.path.islink(os.path.join(dp, d)) and d not in fns]:
                r = (rel + "/" + n) if rel else n
                if r in versioned or r in ign:
                    continue
                try:
                    ign[r] = wt.is_ignored(r) is not None
                except Exception:
                    ign[r] = None
    return versioned, ign


def _is_detritus_name(p):
    return p.endswith(DETRITUS_SUFFIXES)


def _ancestors(p):
    out = []
    while "/" in p:
        p = p.rsplit("/", 1)[0]
        out.append(p)
    return out


_seen = []   # deletables observed by the wrapper around the real delete_items during the current execution


def worker_init(tier):
    """Observe (never alter) what clean_tree hands to delete_items: for every deletable, which of its ancestor
    path components is a symlink at that moment and where the deletable really lives."""
    import breezy.clean_tree as ct

    real = ct.delete_items
    if getattr(real, "_c46_wrapped", False):
        return

    def delete_items(deletables, dry_run=False):
        deletables = list(deletables)
        for path, subp in deletables:
            try:
                root = path[: len(path) - len(subp)]
                parts = subp.split("/")
                link_at = next(("/".join(parts[:i]) for i in range(1, len(parts)) if os.path.islink(root + "/".join(parts[:i]))), None)
                _seen.append({"subp": subp, "path": path, "link_at": link_at, "parent_is_link": link_at == "/".join(parts[:-1]) if link_at else False,
                              "real": os.path.join(os.path.realpath(os.path.dirname(path)), os.path.basename(path))})
            except Exception:
                pass
        return real(deletables, dry_run=dry_run)

    delete_items._c46_wrapped = True
    ct.delete_items = delete_items


def _how(abspath, versioned):
    """Mechanism by which `abspath` was reached, from the observed deletables: '' when no deletable was listed through a symlink."""
    abspath = os.path.join(os.path.realpath(os.path.dirname(abspath)), os.path.basename(abspath))
    for d in _seen:
        if d["link_at"] is None:
            continue
        if abspath == d["real"] or abspath.startswith(d["real"] + "/") or abspath == d["path"]:
            if d["link_at"] not in versioned:
                return "listed-through-unversioned-symlink"
            if d["parent_is_link"]:
                return "via-versioned-dir-that-is-a-symlink-now"
            return "via-versioned-subdir-of-versioned-dir-that-is-a-symlink-now"
    return ""


def _judge(ctx, fmt, desc, versioned, ign, before, after, flags, dry, exc, prog, run):
    """Classify everything that disappeared / changed between two snapshots of the run root."""
    unknown, ignored, detritus = flags
    ctl = ".git" if fmt == "git" else ".bzr"
    nested = {n["path"]: n for n in desc["nested"]}
    gone = sorted(p for p in before if p not in after or after[p] != before[p])
    new = sorted(p for p in after if p not in before)
    detail = {"layout": prog, "flags": {"unknown": unknown, "ignored": ignored, "detritus": detritus, "dry_run": dry}}
    classes = set()

    def fail(key, msg, path):
        how = _how(os.path.join(run, "t", path), versioned) if isinstance(path, str) and not key.startswith("outside-tree") else ""
        if how:
            # one mechanism, one key: the deletable was listed through a symlinked ancestor and really lives elsewhere in the tree
            ctx.hist("listed-through-symlink:%s:%s" % (how, key))
            msg = "[%s] %s" % (key, msg)
            key = "inside-tree:%s" % how
        ctx.fail(key, "%s: %r [%s tree; unknown=%s ignored=%s detritus=%s dry_run=%s]" % (msg, path, fmt, unknown, ignored, detritus, dry),
                 dict(detail, path=path, removed=gone[:30]))

    ctx.count("judged_dry" if dry else "judged_real")
    if new:
        ctx.hist("created-paths")
    own_ctl_changed = []
    for p in gone:
        ctx.count("deleted_paths_judged") if not dry else None
        if not (p == "t" or p.startswith("t/")):
            classes.add("OUTSIDE")
            fail("outside-tree:%s" % (_how(os.path.join(run, p), versioned) or "via-symlink"), "a path outside the tree was removed or changed", p)
            continue
        if p == "t":
            fail("tree-root-removed", "the tree root itself was removed", p)
            continue
        q = p[2:]
        if q == ctl or q.startswith(ctl + "/"):
            if p not in after:
                own_ctl_changed.append(q)
            continue
        if dry:
            classes.add("DRY")
            fail("dry-run:changed-disk", "a dry run removed or changed", q)
            continue
        if q in versioned:
            classes.add("VERSIONED")
            fail("versioned-path-removed", "a versioned path was removed or changed", q)
            continue
        if before[p][0] == "directory" and any(v.startswith(q + "/") for v in versioned):
            classes.add("VERSIONED")
            fail("directory-containing-versioned-removed", "a directory containing versioned paths was removed", q)
            continue
        nroot = next((n for n in nested if q == n or q.startswith(n + "/")), None)
        if nroot is not None:
            n = nested[nroot]
            classes.add("NESTED")
            sub = n["where"]
            if fmt == "git" and n["fmt"] != "git" and n["where"] == "in-versioned-dir":
                sub = "foreign-format-in-git-tree"
            fail("nested-branch-removed:%s" % sub, "part of a nested %s branch (root %r) was removed" % (n["fmt"], nroot), q)
            continue
        if any(n.startswith(q + "/") for n in nested):
            nroot = next(n for n in nested if n.startswith(q + "/"))
            classes.add("NESTED")
            fail("nested-branch-removed:%s" % nested[nroot]["where"], "a directory holding nested branch %r was removed" % (nroot,), q)
            continue
        # an unversioned, unprotected path: some requested category must cover it or an unversioned ancestor
        cover = None
        for c in [q] + _ancestors(q):
            if c in versioned:
                break
            ig = ign.get(c)
            if detritus and _is_detritus_name(c):
                cover = "detritus"
            elif ig is True and ignored:
                cover = "ignored"
            elif ig is False and unknown:
                cover = "unknown"
            elif ig is None and (ignored or unknown) and c != q:
                cover = "unclassified-ancestor"
            if cover:
                break
        if cover is None:
            ig = ign.get(q)
            cat = "detritus-named" if _is_detritus_name(q) and ig is not True else "ignored" if ig is True else "unknown" if ig is False else "unclassified"
            classes.add("UNREQUESTED")
            fail("category-not-requested:%s-removed" % cat, "removed although its category (%s) was not requested" % cat, q)
        else:
            classes.add("ok:" + cover)
    if own_ctl_changed:
        fail("own-control-dir-damaged", "paths of the tree's own control directory disappeared", own_ctl_changed[:5])
    if exc is not None:
        ctx.hist("exception:%s" % exc)
    # ---- completeness (reported, not judged)
    left = set()
    if not dry:
        for q, ig in ign.items():
            if ("t/" + q) not in after:
                continue
            if any(q == n or q.startswith(n + "/") or n.startswith(q + "/") for n in nested):
                continue
            if any(v.startswith(q + "/") for v in versioned):
                continue
            cat = None
            if detritus and _is_detritus_name(q):
                cat = "detritus"
            elif ig is True and ignored:
                cat = "ignored"
            elif ig is False and unknown:
                cat = "unknown"
            if cat:
                kind = after["t/" + q][0]
                ctx.hist("left-behind:%s:%s:%s" % (fmt, cat, kind))
                left.add("%s:%s" % (cat, kind))
    return classes, left, len(gone)


def case(ctx):
    from breezy.clean_tree import clean_tree

    rng = ctx.rng
    fmt = "git" if ctx.index % 2 else "2a"
    root = ctx.tmp("c46")
    lay = os.path.join(root, "L")
    try:
        desc = _layout(ctx, rng, fmt, lay)
        versioned, ign = _classify_layout(os.path.join(lay, "t"), fmt, desc)
    except (KeyboardInterrupt, SystemExit):
        raise
    except Exception as e:
        if os.environ.get("C46_DEBUG"):
            raise
        ctx.discard("layout construction: %s" % type(e).__name__)
    before = _snap(lay)
    prog = {"fmt": fmt, "nested": desc["nested"], "outside_links": desc["outside_links"], "notes": desc["notes"], "drift": desc["drift"],
            "versioned": sorted(versioned), "unversioned": {k: ("ignored" if v else "unknown" if v is False else "?") for k, v in sorted(ign.items())}}
    ctx.info["layout"] = prog
    if desc["nested"]:
        ctx.count("layouts_with_nested_branch")
    if desc["outside_links"]:
        ctx.count("layouts_with_outside_symlink")
    ctx.hist("layout:%s" % fmt)
    for dr in desc["drift"]:
        ctx.hist("drift:%s:%s" % (dr["op"], fmt))
        ctx.count("layouts_with_kind_drift") if dr is desc["drift"][0] else None
    if any(dr["op"] == "dir->outside-symlink" for dr in desc["drift"]):
        ctx.count("layouts_with_versioned_dir_relocated_outside:%s" % ("git" if fmt == "git" else "bzr"))
    drift_ops = sorted({dr["op"] for dr in desc["drift"]})
    for n in desc["nested"]:
        ctx.hist("nested:%s:%s" % (n["where"], n["fmt"]))
    combos = [(u, i, d) for u in (False, True) for i in (False, True) for d in (False, True)]
    orig_outside = {p[8:]: v for p, v in before.items() if p.startswith("outside/")}
    for dry in (True, False):
        if not dry:
            if _snap(lay) != before:
                # the layout itself served the dry runs: it must still be what it was
                ctx.fail("dry-run:layout-changed-after-all-dry-runs", "layout differs after the dry runs", {"layout": prog})
                break
            # real runs work on copies of a master copy; absolute links in every copy point into the layout's own outside/, which is
            # judged after every run and restored from the master when a run damaged it
            master = os.path.join(root, "M")
            shutil.copytree(lay, master, symlinks=True)
        for flags in combos:
            if dry:
                run = lay
            else:
                run = os.path.join(root, "R%d%d%d" % flags)
                shutil.copytree(master, run, symlinks=True)
            exc = None
            del _seen[:]
            try:
                clean_tree(os.path.join(run, "t"), unknown=flags[0], ignored=flags[1], detritus=flags[2], dry_run=dry, no_prompt=True)
            except (KeyboardInterrupt, SystemExit):
                raise
            except BaseException as e:
                exc = type(e).__name__
                how = _how(e.filename, versioned) if isinstance(e, OSError) and isinstance(e.filename, str) else ""
                ctx.fail("unexpected:%s%s" % (exc, ":" + how if how else ""), "clean_tree raised %r [%s tree; flags=%r dry_run=%s]" % (e, fmt, flags, dry),
                         {"layout": prog})
            after = _snap(run)
            # absolute links point into the layout's own outside/: judge that too for real runs on copies
            if not dry:
                orig_now = _snap(os.path.join(lay, "outside"))
                for p, v in orig_now.items():
                    if orig_outside.get(p) != v:
                        ctx.fail("outside-tree:%s" % (_how(os.path.join(lay, "outside", p), versioned) or "via-symlink"),
                                 "original outside/%s changed [%s tree; flags=%r]" % (p, fmt, flags), {"layout": prog})
                for p in orig_outside:
                    if p not in orig_now:
                        ctx.fail("outside-tree:%s" % (_how(os.path.join(lay, "outside", p), versioned) or "via-symlink"),
                                 "original outside/%s removed [%s tree; flags=%r]" % (p, fmt, flags), {"layout": prog})
                if orig_now != orig_outside:
                    boot.rm(os.path.join(lay, "outside"))
                    shutil.copytree(os.path.join(master, "outside"), os.path.join(lay, "outside"), symlinks=True)
            classes, left, ngone = _judge(ctx, fmt, desc, versioned, ign, before, after, flags, dry, exc, prog, run)
            ctx.count("deletables_observed", len(_seen)) if _seen else None
            for d in _seen:
                if d["link_at"] is not None:
                    ctx.hist("deletable-listed-through-symlink:%s" % fmt)
            ctx.count("runs:%s" % ("git" if fmt == "git" else "bzr"))
            for c in classes:
                ctx.hist("deleted-class:%s" % c)
            ctx.note((fmt, flags, dry, sorted(classes), sorted(left), bool(desc["nested"]), bool(desc["outside_links"]), drift_ops),
                     nontrivial=bool(desc["nested"] or desc["outside_links"] or desc["drift"]) and (any(flags) or dry),
                     sample={"fmt": fmt, "flags": flags, "dry_run": dry, "removed": ngone, "classes": sorted(classes), "nested": desc["nested"][:2],
                             "outside_links": desc["outside_links"][:3], "drift": desc["drift"]} if (not dry and flags == (True, False, True)) else None)
            if not dry:
                boot.rm(run)
