"""C49 - configuration values resolve by location and round-trip through files.

Two monitors on the real breezy.config Stack / Store / LocationMatcher classes:

 A. value round trip: hostile text values are written with Stack.set (GlobalStack,
    LocationStack, BranchStack; unregistered option names, so no converter), the store is
    saved, every cached object is dropped, the Stack is rebuilt from the file and the
    value is read with Stack.get.  Read-back must equal the written text; a refusal with
    an error at set/save time is counted, never failed.  Options that were already in the
    file (written as text, as a user would) must survive the save unchanged.
 B. location resolution: a generated locations.conf (+ breezy.conf / branch.conf
    fallbacks) is queried through LocationStack / BranchStack for many locations and
    compared with a small reference matcher (_c49_ref) that is silent wherever the
    documentation is silent (equal-length ties, no-name section expansions, ...).
"""
import os

from . import _c49_ref as R

ID = "C49"
LEVEL = "exploration"
TECHNIQUE = ("round-trip monitor over set -> save -> fresh Stack from the file -> get, plus a documentation-derived "
             "reference matcher for location sections (specificity order, ignore_parents, policies, relpath/basename)")
LEVEL_TEXT = ("held on the generated values (quotes, commas, '#', '=', braces, spaces at the ends, newlines, unicode, line-break "
              "characters) in three stack kinds and on generated section-name sets x locations (paths, globs, URLs, file:// forms)")
RULE = ("A: one evaluation = one (stack kind, option, value) written and read back through fresh objects; distinct = distinct "
        "(kind, value); non-trivial = value is not a bare alphanumeric word.  B: one evaluation = one (sections file, location, "
        "option) lookup judged by the reference; distinct = distinct (file, location, option); non-trivial = at least one "
        "location section matches the location")
CASES = {"quick": 1200, "thorough": 100000}
BUDGET_S = {"quick": 30, "thorough": 800}
MIN_EVALS = {"quick": 1500, "thorough": 130000}
FLOORS = {
    # quick floors sit at ~15% of a full run: on a loaded machine the 30 s soft deadline cuts the run short
    "quick": {"roundtrip": 300, "roundtrip_global": 160, "roundtrip_location": 80, "roundtrip_branch": 45,
              "preexisting_survives": 230, "location_lookup": 1000, "location_judged": 950, "location_specificity": 110,
              "location_ignore_parents": 190, "location_appendpath": 80, "location_relpath": 60,
              "location_branchstack": 90, "doc_example": 12, "startingpath": 240},
    # thorough floors sit at ~15% of a full run (a loaded machine reaches the soft deadline early)
    "thorough": {"roundtrip": 25000, "roundtrip_global": 14000, "roundtrip_location": 7000, "roundtrip_branch": 3500,
                 "preexisting_survives": 20000, "location_lookup": 90000, "location_judged": 85000, "location_specificity": 10000,
                 "location_ignore_parents": 16000, "location_appendpath": 7000, "location_relpath": 5000,
                 "location_branchstack": 8000, "doc_example": 12, "startingpath": 20000},
}
EXHAUSTIVE = {"quick": False, "thorough": False}
ASSUMPTIONS = [
    "values are valid unicode text (no lone surrogates, no NUL); option names are plain identifiers (the property is about values)",
    "an error raised by Stack.set / Store.save (ConfigObjError, BzrError, UnicodeError, ValueError) is a refusal, counted not failed; "
    "refusing a value that the file syntax can represent (no line-break characters, not both triple-quote kinds) is failed",
    "fresh objects = breezy's per-process store cache cleared + new Stack/Branch objects; a second OS process is not started",
    "section order among matching sections with the same number of path components is undefined: such lookups are not judged",
    "the section carrying ignore_parents takes part in the lookup itself (as in LocationConfig and as the option name says)",
]


# ------------------------------------------------------------------ environment

class _Home:
    """Per-case BRZ_HOME with fresh config files; clears breezy's shared store cache."""

    def __init__(self, ctx):
        self.dir = ctx.tmp("home")
        self.old = os.environ.get("BRZ_HOME")

    def __enter__(self):
        os.environ["BRZ_HOME"] = self.dir
        os.makedirs(os.path.join(self.dir, "breezy"), exist_ok=True)
        fresh()
        return self

    def __exit__(self, *a):
        fresh()
        if self.old is None:
            os.environ.pop("BRZ_HOME", None)
        else:
            os.environ["BRZ_HOME"] = self.old

    def path(self, name):
        return os.path.join(self.dir, "breezy", name)

    def write(self, name, text):
        with open(self.path(name), "wb") as f:
            f.write(text.encode("utf-8"))


def fresh():
    """Forget every cached store so the next Stack is built from the files."""
    import breezy
    from breezy import config

    st = breezy._global_state
    if st is not None:
        st.config_stores.clear()
    config._shared_stores.clear()


def _refusal_types():
    import configobj

    from breezy import errors

    return (configobj.ConfigObjError, errors.BzrError, UnicodeError, ValueError)


# ------------------------------------------------------------------ A: round trip

def _rt_key(cls, outcome):
    """Mechanism key.  Values without any special need ('plain') get one key per outcome; each hostile input class
    stands for one mechanism (see fixes/C49-*.md) and gets ONE key whatever the outcome (altered / file unloadable / ...)."""
    return "roundtrip:plain:" + outcome if cls == "plain" else "roundtrip:" + cls


def _make_stack(kind, loc, bpath):
    from breezy import config
    from breezy.branch import Branch

    if kind == "global":
        return config.GlobalStack()
    if kind == "location":
        return config.LocationStack(loc)
    return Branch.open(bpath).get_config_stack()


def _store_file(kind, home, bpath):
    if kind == "global":
        return home.path("breezy.conf")
    if kind == "location":
        return home.path("locations.conf")
    return os.path.join(bpath, ".bzr", "branch", "branch.conf")


def roundtrip(ctx, rng, home, kind):
    from breezy import config
    from breezy.controldir import ControlDir

    loc = R.gen_location(rng, "/srv")
    bpath = None
    if kind == "branch":
        bpath = os.path.join(ctx.tmp("br"), "b")
        os.mkdir(bpath)
        try:
            ControlDir.create_branch_convenience(bpath)
        except Exception as e:
            ctx.discard("branch-create:" + type(e).__name__)
    # options that a user typed into the file before breezy touches it
    pre = {"pre_%d" % i: R.gen_simple_value(rng) for i in range(rng.choice([0, 1, 2, 3]))}
    if pre:
        header = {"global": "[DEFAULT]\n", "location": "[%s]\n" % loc, "branch": ""}[kind]
        text = "# written by hand\n" + header + "".join("%s = %s\n" % kv for kv in pre.items())
        if kind == "location":
            text = "[/unrelated/place]\nother = 1\n" + text
        with open(_store_file(kind, home, bpath), "wb") as f:
            f.write(text.encode("utf-8"))
    nopt = rng.choice([1, 1, 2, 3, 4])
    items = []
    # one hostile input class per file, so that damage to the file can be attributed
    hostile = rng.choice(["plain", "plain", "plain", "edge-uspace", "both-quotes", "multiline", "multiline", "otherbreak"])
    for i in range(nopt):
        v = R.gen_value(rng, hostile if (i == 0 or rng.random() < 0.5) else "plain")
        if kind == "location" and R.has_local_ref(v):
            ctx.hist("value_with_section_local_ref_not_used_in_locations.conf")
            v = v.replace("{relpath}", "{rel path}").replace("{basename}", "{base name}").replace("{branchname}", "{branch name}")
        items.append(("vf_%s%d" % (rng.choice(["opt", "a.b", "x-y", "Z_"]), i), v))
    fresh()
    stack = _make_stack(kind, loc, bpath)
    written = {}
    refused = False
    for name, value in items:
        cls = R.value_class(value)
        try:
            stack.set(name, value)
            if kind != "branch":
                stack.store.save_changes()
        except config.ParseConfigError:
            # re-loading the file for this write failed: what was written before made it unreadable; judged below
            refused = True
            break
        except _refusal_types() as e:
            ctx.hist("refusal:%s:%s" % (cls, type(e).__name__))
            ctx.count("roundtrip_refused")
            ctx.check(not R.representable(value), _rt_key(hostile if cls == "plain" else cls, "refused-representable-value"),
                      "%s refuses %r with %s: %s" % (kind, value, type(e).__name__, str(e)[:120]),
                      {"kind": kind, "value": value})
            refused = True
            break       # the store may be half-way: stop writing, judge what was accepted before
        written[name] = value
        try:
            mem = stack.get(name, expand=False)
            ctx.hist("inmem_view:%s:%s" % (cls, "equal" if mem == value else "differs"))
        except Exception as e:
            ctx.hist("inmem_view:%s:%s" % (cls, type(e).__name__))
    fresh()
    del stack
    # ---- read back through fresh objects
    worst = hostile      # every non-plain value of this file is of this one class
    path = _store_file(kind, home, bpath)
    try:
        raw = open(path, "rb").read()
    except OSError:
        raw = b""
    try:
        stack2 = _make_stack(kind, loc, bpath)
    except config.ParseConfigError as e:
        ctx.count("roundtrip")
        ctx.fail(_rt_key(worst, "file-unloadable-after-save"),
                 "%s: after writing %r not even the stack can be built: %s" % (kind, written, str(e)[:200]),
                 {"kind": kind, "written": written, "file": raw[-600:].decode("utf-8", "replace")})
        return
    for name, value in written.items():
        cls = R.value_class(value)
        ctx.count("roundtrip")
        ctx.count("roundtrip_" + kind)
        ctx.hist("value_class:" + cls)
        d = {"kind": kind, "option": name, "value": value, "file": raw[-600:].decode("utf-8", "replace"),
             "all_written": written}
        try:
            got = stack2.get(name, expand=False)
        except config.ParseConfigError as e:
            # the file as a whole is now unreadable: blame the worst value that went into it
            ctx.fail(_rt_key(worst, "file-unloadable-after-save"),
                     "%s: after writing %r the file cannot be parsed any more: %s" % (kind, written, str(e)[:200]), d)
            ctx.note(("rt", kind, value), nontrivial=not value.isalnum())
            break
        # blame: another value in the same file may have damaged the file structure
        blame = cls if (got != value and cls != "plain") else (worst if got != value else cls)
        if got != value:
            ctx.fail(_rt_key(blame, "altered"),
                     "%s: wrote %r, fresh stack reads %r" % (kind, value, got), d)
        else:
            ctx.hist("roundtrip_ok:" + cls)
        if got == value and not R.has_ref(value):
            # with expansion on, a value without {ref} syntax must come back the same
            try:
                g2 = stack2.get(name)
            except Exception as e:
                ctx.fail(_rt_key(cls, "expand-raises"), "%s: get(%r) with expansion raises %s for value %r" % (
                    kind, name, type(e).__name__, value), d)
            else:
                ctx.check(g2 == value, _rt_key(cls, "expand-alters"),
                          "%s: value %r without option references reads %r with expansion" % (kind, value, g2), d)
        elif got == value:
            try:
                stack2.get(name)
                ctx.hist("ref_lookalike:expanded-or-kept")
            except (config.ExpandingUnknownOption, config.OptionExpansionLoop) as e:
                ctx.hist("ref_lookalike:" + type(e).__name__)
        ctx.note(("rt", kind, value), nontrivial=not value.isalnum(),
                 sample={"monitor": "roundtrip", "kind": kind, "value": value, "read_back": got, "class": cls}
                 if rng.random() < 0.02 and cls == "plain" and not value.isalnum() else None)
    else:
        # pre-existing options must still be there (only judged when the file is loadable)
        for name, value in pre.items():
            ctx.count("preexisting_survives")
            try:
                got = stack2.get(name, expand=False)
            except Exception as e:
                got = "<%s>" % type(e).__name__
            ctx.check(got == value, _rt_key(worst, "preexisting-option-damaged"),
                      "%s: option %s=%r typed into the file reads %r after other options were set and saved" % (kind, name, value, got),
                      {"kind": kind, "written": written, "file": raw[-600:].decode("utf-8", "replace")})
        if kind == "location" and written and not refused:
            # the section just written is the section of `loc`: a contained location sees the same values
            child = loc.rstrip("/") + "/sub/dir"
            fresh()
            st3 = config.LocationStack(child)
            for name, value in written.items():
                if R.value_class(value) != "plain" or R.has_ref(value):
                    continue
                ctx.count("roundtrip_child_location")
                try:
                    got = st3.get(name, expand=False)
                except Exception as e:
                    got = "<%s>" % type(e).__name__
                ctx.check(got == value, _rt_key(worst, "child-location-differs"),
                          "value %r set for %r reads %r at %r" % (value, loc, got, child), {"loc": loc, "child": child, "value": value})


# ------------------------------------------------------------------ B: location resolution

OPTS = ["o1", "o2", "o3", "o4"]


def location_case(ctx, rng, home, use_branch):
    from breezy import config
    from breezy.branch import Branch
    from breezy.controldir import ControlDir

    root = "/srv"
    bpath = None
    if use_branch:
        root = ctx.tmp("loc")
    model = R.gen_sections(rng, root, OPTS)
    home.write("locations.conf", R.render_locations(model))
    glob = {o: "G_" + o for o in OPTS if rng.random() < 0.5}
    home.write("breezy.conf", "[DEFAULT]\n" + "".join("%s = %s\n" % kv for kv in glob.items()))
    branchconf = {}
    if use_branch:
        # a real branch somewhere below root, at a place the sections talk about
        loc = R.gen_location_for(rng, model, root, plain=True)
        bpath = loc
        try:
            os.makedirs(bpath, exist_ok=True)
            br = ControlDir.create_branch_convenience(bpath)
        except Exception as e:
            ctx.discard("branch-create:" + type(e).__name__)
        branchconf = {o: "B_" + o for o in OPTS if rng.random() < 0.4}
        if branchconf:
            with open(os.path.join(bpath, ".bzr", "branch", "branch.conf"), "wb") as f:
                f.write("".join("%s = %s\n" % kv for kv in branchconf.items()).encode("utf-8"))
        del br
        locs = [loc]
    else:
        locs = [R.gen_location_for(rng, model, root) for _ in range(rng.choice([3, 5, 8]))]
    fid = R.model_id(model)
    if not use_branch:
        starting_path_matcher(ctx, model, locs)
    for loc in locs:
        fresh()
        try:
            if use_branch:
                b = Branch.open(bpath)
                stack = b.get_config_stack()
                qloc = b.base
            else:
                stack = config.LocationStack(loc)
                qloc = loc
        except Exception:
            raise
        for o in OPTS:
            ctx.count("location_lookup")
            if use_branch:
                ctx.count("location_branchstack")
            exp = R.ref_lookup(model, qloc, o, fallbacks=[branchconf, glob])
            got = stack.get(o)
            d = {"locations.conf": R.render_locations(model), "location": qloc, "option": o, "got": got,
                 "branch.conf": branchconf, "breezy.conf DEFAULT": glob, "reference": exp.describe()}
            for tag in exp.tags:
                ctx.count("location_" + tag)
            if exp.unjudged:
                ctx.hist("location_unjudged:" + exp.unjudged)
                ctx.note(("loc", fid, qloc, o), nontrivial=False)
                continue
            ctx.count("location_judged")
            ctx.hist("location_source:" + exp.source)
            if got not in exp.accept:
                key = "location:wrong-value"
                for vkey, vals in exp.variants.items():
                    if got in vals:
                        key = "location:" + vkey
                        break
                else:
                    if exp.source == "fallback" and got is not None:
                        key = "location:value-from-nonmatching-or-stopped-section"
                    elif got is None:
                        key = "location:value-missing"
                    elif exp.nmatch and exp.source == "section":
                        key = "location:wrong-section-wins"
                ctx.fail(key, "%s at %r: expected %s, got %r" % (o, qloc, sorted(map(repr, exp.accept)), got), d)
            ctx.note(("loc", fid, qloc, o), nontrivial=exp.nmatch > 0,
                     sample={"monitor": "location", "location": qloc, "option": o, "value": got,
                             "matching_sections": exp.matching, "source": exp.source}
                     if exp.nmatch > 1 and rng.random() < 0.02 else None)


def starting_path_matcher(ctx, model, locs):
    """StartingPathMatcher (not used by the three stacks; documented as "respecting the Store order").

    Only what its docstring and tests promise is judged: sections come in reverse file order, a literal section
    name that is a component-wise prefix of the location is selected with relpath = the unmatched tail, and a
    literal name that is not even a string prefix of the location is not selected.  Its string-prefix matching
    ('/srv/hom' selects '/srv/home/x'; acknowledged by a FIXME in the class) is only counted.
    """
    from breezy import config

    fresh()
    store = config.LocationStore()
    file_order = [sec["name"] for sec in model["sections"]]
    for loc in locs:
        got = [(sec.id, sec.locals["relpath"]) for _, sec in config.StartingPathMatcher(store, loc).get_sections()]
        ids = [i for i, _ in got if i is not None]
        ctx.count("startingpath")
        d = {"locations.conf": R.render_locations(model), "location": loc, "selected": got}
        want_order = [n for n in reversed(file_order) if n in ids]
        ctx.check(ids == want_order, "startingpath:store-order-not-respected",
                  "sections for %r come as %r, reverse file order is %r" % (loc, ids, want_order), d)
        lpath = R._local(loc)
        lparts = lpath.rstrip("/").split("/")
        for sec in model["sections"]:
            n = sec["name"]
            np = R._local(n)
            if "*" in np or "?" in np or np.endswith("/"):
                continue
            sp = np.split("/")
            if sp == lparts[:len(sp)]:
                rel = "/".join(lparts[len(sp):])
                ctx.check((n, rel) in got, "startingpath:prefix-section-missing-or-wrong-relpath",
                          "section %r is a path prefix of %r (tail %r) but selection is %r" % (n, loc, rel, got), d)
                ctx.hist("startingpath:prefix-selected")
            elif not lpath.startswith(np):
                ctx.check(n not in ids, "startingpath:unrelated-section-selected",
                          "section %r is no prefix of %r but was selected" % (n, loc), d)
            elif n in ids:
                ctx.hist("startingpath:string-prefix-only-selected (known fuzziness, not judged)")
        ctx.note(("spm", R.model_id(model), loc), nontrivial=bool(ids))


# ------------------------------------------------------------------ deterministic documentation examples

def doc_examples(ctx, home):
    """The worked examples of `brz help configuration` (Option policies / Section local options)."""
    from breezy import config

    home.write("locations.conf", (
        "[/top/location]\npush_location = sftp://example.com/location\npush_location:policy = appendpath\n"
        "[/home/vila/src/bzr/bugs]\nmypush = lp:~vila/bzr\nmypush:policy=appendpath\nmypush2 = lp:~vila/bzr/{relpath}\n"
        "[/home/vila/src/bzr]\nmypush3 = lp:~vila/bzr/{basename}\n"
        "[/only/here]\nexact = yes\nexact:policy = norecurse\n"
        "[/project]\ncontact = Project <p@example.com>\nother = kept\n"
        "[/project/private]\nignore_parents = true\ncontact = Me <me@example.com>\n"))
    home.write("breezy.conf", "[DEFAULT]\ncontact = Global <g@example.com>\n")
    table = [
        ("/top/location/branch1", "push_location", "sftp://example.com/location/branch1", "location:doc-example"),
        ("/home/vila/src/bzr/bugs/832013-expand-in-stack", "mypush", "lp:~vila/bzr/832013-expand-in-stack", "location:doc-example"),
        ("/home/vila/src/bzr/bugs/832013-expand-in-stack", "mypush2", "lp:~vila/bzr/832013-expand-in-stack", "location:doc-example"),
        ("/home/vila/src/bzr/bugs/832013-expand-in-stack", "mypush3", "lp:~vila/bzr/832013-expand-in-stack", "location:doc-example"),
        ("/only/here", "exact", "yes", "location:doc-example"),
        ("/only/here/below", "exact", None, "location:norecurse-policy-ignored"),
        ("/top/location", "push_location", "sftp://example.com/location", "location:appendpath-exact-location-altered"),
        ("/project/private", "contact", "Me <me@example.com>", "location:ignore_parents-section-itself-skipped"),
        ("/project/private/x", "contact", "Me <me@example.com>", "location:ignore_parents-section-itself-skipped"),
        ("/project/private/x", "other", None, "location:doc-example"),
        ("/project/public", "contact", "Project <p@example.com>", "location:doc-example"),
        ("/elsewhere", "contact", "Global <g@example.com>", "location:doc-example"),
    ]
    for loc, opt, want, key in table:
        fresh()
        got = config.LocationStack(loc).get(opt)
        ctx.count("doc_example")
        ctx.check(got == want, key, "documented example: %s at %s should be %r, is %r" % (opt, loc, want, got),
                  {"location": loc, "option": opt, "want": want, "got": got})
        ctx.note(("doc", loc, opt), nontrivial=True)


def case(ctx):
    rng = ctx.rng
    with _Home(ctx) as home:
        if ctx.index == 0:
            doc_examples(ctx, home)
            return
        m = rng.randrange(8)     # not index % 8: shards take indices modulo the shard count, every worker should see every kind
        if m in (0, 1):
            roundtrip(ctx, rng, home, "global")
            for f in ("breezy.conf",):
                try:
                    os.unlink(home.path(f))
                except OSError:
                    pass
            roundtrip(ctx, rng, home, "global")
        elif m in (2, 3):
            roundtrip(ctx, rng, home, "location")
        elif m == 4:
            roundtrip(ctx, rng, home, "branch")
        elif m == 5:
            location_case(ctx, rng, home, use_branch=True)
        else:
            location_case(ctx, rng, home, use_branch=False)
