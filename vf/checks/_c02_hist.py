"""Private history builder for C02 / C22 / C25 (extends vf.gen.build_history with merge shapes).

Shapes produced on top of plain commits / branch / merge-tip:
  merge of an *older* revision of the other branch, criss-cross (A merges b, B merges the old a),
  identical parallel change on two branches (same content / same chmod / same rename),
  merge-then-revert-to-this (some merged paths), merge-then-revert-to-older-version,
  merge + further edits, cherry-pick (merge -c, no pending merge), ghost pending merges,
  resurrecting a deleted file with its old id (revert PATH from an older revision), tags.

Everything is recorded through vf.gen.commit (hist.recorded / hist.order / hist.log); the
reference graph for the oracles is the dict `hist.parents` = {revid: [parent revids as asked]}.
"""
import os

from vf import gen
from vf.gen import Hist, Names, commit, make_tree, random_delta, resolve_all

W_FULL = dict(gen.DEFAULT_WEIGHTS)
W_LIGHT = {"mkfile": 3, "mkdir": 1, "symlink": 0, "add": 6, "edit": 12, "chmod": 1, "rename": 3,
           "remove": 1, "unversion": 0, "delete_disk": 0, "kindchange": 0}


MERGE_MODES = ["none", "none", "edit", "revert_this", "revert_this", "revert_older"]
MERGE_MODES_EXTRA = MERGE_MODES + ["touch_forked", "touch_forked", "touch_forked"]
MIX = {"plain": 30, "branch": 14, "merge": 26, "crisscross": 8, "parallel": 9, "cherrypick": 6, "resurrect": 4}
MIX_EXTRA = dict(MIX, octopus=16)


class Builder:
    def __init__(self, ctx, rng, fmt="2a", tier="quick", light=False, ghosts=True, tags=False, nbranches=3, extra=False):
        # extra=True (C02 only): more directories, directory renames in plain commits, octopus merges
        # (>= 3 parents, sibling branches), post-merge changes aimed at entries whose versions differ
        # among the pending parents.  With extra=False the random stream is what C22 / C25 were tuned on.
        self.ctx, self.rng, self.fmt, self.light = ctx, rng, fmt, light
        self.extra = extra
        self.merge_modes = list(MERGE_MODES_EXTRA if extra else MERGE_MODES)
        self.names = Names(tier)
        self.weights = W_LIGHT if light else W_FULL
        self.ghosts, self.tags, self.nbranches = ghosts, tags, nbranches
        root = ctx.tmp("hist")
        h = self.h = Hist(root, fmt)
        h.shapes = {}
        h.ghost_ids = set()
        h.parents = {}
        p0 = os.path.join(root, "b0")
        wt = make_tree(p0, fmt)
        h.trees["b0"] = p0
        self._seed_files(wt)
        random_delta(rng, wt, self.names, rng.randint(1, 4), self.weights, h.log)
        self._commit("b0", wt)

    # ------------------------------------------------------------------ helpers
    def shape(self, s):
        self.h.shapes[s] = self.h.shapes.get(s, 0) + 1

    def _seed_files(self, wt):
        """A few files in a few directories so merges have something to chew on."""
        base = wt.basedir
        os.mkdir(os.path.join(base, "d1"))
        paths = ["d1"]
        files = ("f1", "f2", "d1/f3", "d1/g.txt")
        if self.extra:
            for d in ("d2", "d1/sub"):
                os.mkdir(os.path.join(base, d))
                paths.append(d)
            files += ("d2/h.txt", "d1/sub/k")
        for p in files:
            with open(os.path.join(base, p), "wb") as f:
                f.write(b"".join(b"%s line %d\n" % (p.encode(), i) for i in range(self.rng.randint(3, 8))))
            paths.append(p)
        wt.add(paths, ids=[("id-" + p.replace("/", "_")).encode() for p in paths])

    def wt(self, name):
        from breezy.workingtree import WorkingTree

        return WorkingTree.open(self.h.trees[name])

    def _commit(self, name, wt, **kw):
        from breezy import errors

        try:
            rid = commit(self.h, name, wt, self.rng, **kw)
        except errors.PointlessCommit:
            self._clean(name)
            return None
        self.h.parents[rid] = list(self.h.recorded[rid]["parents"])
        return rid

    def _clean(self, name):
        """Bring a tree back to its basis (after a refused step)."""
        wt = self.wt(name)
        try:
            wt.revert()
            resolve_all(wt)
        except Exception as e:  # noqa: BLE001 - workload construction, not judged
            self.h.log.append({"clean-failed": type(e).__name__})

    def tip(self, name):
        from breezy.branch import Branch

        return Branch.open(self.h.trees[name]).last_revision()

    def ancestry(self, tip):
        """Plain closure over the parents we recorded (ghosts excluded)."""
        seen, todo = set(), [tip]
        P = self.h.parents
        while todo:
            r = todo.pop()
            if r in seen or r not in P:
                continue
            seen.add(r)
            todo.extend(P[r])
        return seen

    def lefthand(self, tip):
        out, P = [], self.h.parents
        while tip in P:
            out.append(tip)
            tip = P[tip][0] if P[tip] else None
        return out

    # ------------------------------------------------------------------ steps
    def step_plain(self, name=None):
        rng = self.rng
        name = name or rng.choice(sorted(self.h.trees))
        wt = self.wt(name)
        random_delta(rng, wt, self.names, rng.randint(1, 2 if self.light else 4), self.weights, self.h.log)
        if self.extra and rng.random() < 0.3:
            dirs = self._entries(wt, ("directory",))
            if dirs and self._change_entry(wt, *rng.choice(dirs)):
                self.shape("plain-dir-rename")
        if self.ghosts and rng.random() < 0.12 and wt.last_revision() != b"null:":
            g = b"ghost-%d" % len(self.h.order)
            wt.add_pending_merge(g)
            self.h.ghost_ids.add(g)
            self.shape("ghost")
        rid = self._commit(name, wt)
        if rid and self.tags and rng.random() < 0.35:
            t = rng.choice(["v1", "rel 2", "t/x", "über", "1.0", "v-%d" % len(self.h.order)])
            wt.branch.tags.set_tag(t, rid)
            self.h.tags.setdefault(name, {})[t] = rid
        if rid:
            self.shape("plain")
        return rid

    def step_branch(self):
        rng = self.rng
        h = self.h
        if len(h.trees) >= self.nbranches:
            return None
        src = rng.choice(sorted(h.trees))
        nn = "b%d" % len(h.trees)
        np_ = os.path.join(h.root, nn)
        swt = self.wt(src)
        lh = self.lefthand(swt.last_revision())
        rev = None
        if len(lh) > 1 and rng.random() < 0.35:
            rev = rng.choice(lh[1:])
            self.shape("branch-from-older")
        swt.branch.controldir.sprout(np_, revision_id=rev)
        h.trees[nn] = np_
        h.log.append({"branch": nn, "from": src, "at": rev.decode() if rev else None})
        self.shape("branch")
        # make it diverge at once so merges are not fast-forwards
        return self.step_plain(nn)

    def _do_merge(self, name, other, to_rev=None, from_rev=None, force=False):
        from breezy import errors
        from breezy.branch import Branch

        wt = self.wt(name)
        ob = Branch.open(self.h.trees[other])
        try:
            with wt.lock_write():
                wt.merge_from_branch(ob, to_revision=to_rev, from_revision=from_rev, force=force)
        except (errors.BzrError, KeyError, ValueError, OSError) as e:
            self.h.log.append({"merge-refused": type(e).__name__, "into": name, "from": other})
            if not force:
                self._clean(name)
            return None
        wt = self.wt(name)
        resolve_all(wt)
        return wt

    def _changed_paths(self, wt):
        out = []
        with wt.lock_read():
            basis = wt.basis_tree()
            with basis.lock_read():
                for c in wt.iter_changes(basis):
                    if c.path[1] is not None and c.path[0] is not None and c.path[1] != "":
                        out.append((c.path[1], c.file_id, c.kind[1]))
        return out

    # -- entries whose versions differ among the pending parents, and genuine changes to them (extra mode)
    def _entries(self, wt, kinds=None):
        out = []
        with wt.lock_read():
            for p, ie in wt.iter_entries_by_dir():
                if p != "" and (kinds is None or ie.kind in kinds) and os.path.lexists(os.path.join(wt.basedir, p)):
                    out.append((p, ie.file_id, ie.kind))
        return out

    def _forked_entries(self, wt):
        """Entries of wt for which the (non-ghost) parent trees hold >= 2 different per-file versions."""
        from breezy import errors
        from breezy.tree import NoSuchId

        repo = wt.branch.repository
        out = []
        with wt.lock_read(), repo.lock_read():
            trees = []
            for p in wt.get_parent_ids():
                try:
                    trees.append(repo.revision_tree(p))
                except errors.NoSuchRevision:
                    continue
            if len(trees) < 2:
                return out
            for path, ie in wt.iter_entries_by_dir():
                if path == "" or not os.path.lexists(os.path.join(wt.basedir, path)):
                    continue
                vs = set()
                for t in trees:
                    try:
                        vs.add(t.get_file_revision(t.id2path(ie.file_id)))
                    except (NoSuchId, errors.BzrError):
                        continue
                if len(vs) >= 2:
                    out.append((path, ie.file_id, ie.kind))
        return out

    def _change_entry(self, wt, path, fid, kind):
        """A genuine change of one entry: directory / symlink: rename or move; file: rename, move, chmod or edit."""
        rng = self.rng
        base = wt.basedir
        how = "rename" if kind != "file" else rng.choice(["rename", "chmod", "edit"])
        try:
            if how == "rename":
                d, _, n = path.rpartition("/")
                stem = n.split(".m")[0] or "x"
                if rng.random() < 0.3:  # move to another directory (or the root), keeping the name
                    dirs = [""] + [p for p, _f, _k in self._entries(wt, ("directory",))
                                   if p != path and not p.startswith(path + "/") and p.count("/") + 2 <= self.names.maxdepth]
                    d = rng.choice(dirs)
                    nn = n
                else:
                    nn = "%s.m%d" % (stem, len(self.h.order))
                dst = (d + "/" if d else "") + nn
                if dst == path or os.path.lexists(os.path.join(base, dst)):
                    dst = (d + "/" if d else "") + "%s.m%d" % (stem, len(self.h.order))
                if os.path.lexists(os.path.join(base, dst)):
                    return False
                wt.rename_one(path, dst)
                self.h.log.append({"op": "rename", "src": path, "dst": dst, "kind": kind})
            elif how == "chmod":
                ap = os.path.join(base, path)
                if os.path.islink(ap) or not os.path.isfile(ap):
                    return False
                ex = bool(os.stat(ap).st_mode & 0o100)
                os.chmod(ap, 0o644 if ex else 0o755)
                self.h.log.append({"op": "chmod", "path": path, "exec": not ex})
            else:
                ap = os.path.join(base, path)
                if os.path.islink(ap) or not os.path.isfile(ap):
                    return False
                with open(ap, "ab") as f:
                    f.write(b"touched %d\n" % len(self.h.order))
                self.h.log.append({"op": "edit-append", "path": path})
        except Exception as e:  # noqa: BLE001 - workload construction
            self.h.log.append({"change-refused": type(e).__name__, "path": path})
            return False
        return True

    def _touch_forked(self, wt):
        """After a merge: really change some entries whose versions differ among the parents (directories first)."""
        rng = self.rng
        forked = self._forked_entries(wt)
        dirs = [x for x in forked if x[2] == "directory"]
        rest = [x for x in forked if x[2] != "directory"]
        rng.shuffle(dirs)
        rng.shuffle(rest)
        # children first, so that a renamed parent does not invalidate the recorded path of a later pick
        pick = sorted(dirs[:rng.randint(1, 3)], key=lambda x: -x[0].count("/")) + rest[:rng.randint(1, 2)]
        if not dirs and rng.random() < 0.5:
            pick += self._entries(wt, ("directory",))[:1]
        done = set()
        for path, fid, kind in pick:
            if any(path.startswith(d + "/") for d in done):
                continue
            if self._change_entry(wt, path, fid, kind):
                done.add(path)
                self.shape("merge-touch-forked-" + ("dir" if kind == "directory" else "other"))

    def _post_merge(self, name, wt, mode):
        rng = self.rng
        if mode == "touch_forked":
            self._touch_forked(wt)
        elif mode == "edit":
            random_delta(rng, wt, self.names, rng.randint(1, 2), self.weights, self.h.log)
            self.shape("merge+edit")
        elif mode == "revert_this":
            ch = self._changed_paths(wt)
            if ch:
                rng.shuffle(ch)
                pick = [p for p, _f, _k in ch[:rng.randint(1, max(1, len(ch)))]]
                try:
                    wt.revert(pick)
                    self.shape("merge-revert-to-this")
                    self.h.log.append({"revert-to-this": pick})
                except Exception as e:  # noqa: BLE001
                    self.h.log.append({"revert-refused": type(e).__name__})
                resolve_all(wt)
        elif mode == "revert_older":
            ch = [x for x in self._changed_paths(wt) if x[2] == "file"]
            if ch:
                path, fid, _k = rng.choice(ch)
                repo = wt.branch.repository
                anc = sorted(self.ancestry(wt.last_revision()) | set().union(
                    *[self.ancestry(p) for p in wt.get_parent_ids()[1:]] or [set()]))
                rng.shuffle(anc)
                for r in anc[:6]:
                    with repo.lock_read():
                        t = repo.revision_tree(r)
                        try:
                            op = t.id2path(fid)
                        except Exception:  # noqa: BLE001
                            continue
                        if t.kind(op) != "file":
                            continue
                        data, ex = t.get_file_text(op), t.is_executable(op)
                    ap = os.path.join(wt.basedir, path)
                    if os.path.isfile(ap) and not os.path.islink(ap):
                        with open(ap, "wb") as f:
                            f.write(data)
                        os.chmod(ap, 0o755 if ex else 0o644)
                        self.shape("merge-revert-to-older")
                        self.h.log.append({"revert-to-older": path, "from": r.decode()})
                    break

    def step_merge(self, name=None, other=None, to_rev=None, mode=None):
        rng = self.rng
        h = self.h
        if len(h.trees) < 2:
            return None
        name = name or rng.choice(sorted(h.trees))
        other = other or rng.choice([b for b in sorted(h.trees) if b != name])
        otip = self.tip(other)
        mine = self.ancestry(self.tip(name))
        if to_rev is None and rng.random() < 0.25:
            lh = [r for r in self.lefthand(otip)[1:] if r not in mine]
            if lh:
                to_rev = rng.choice(lh)
                self.shape("merge-older-rev")
        target = to_rev or otip
        if target in mine:
            return None
        wt = self._do_merge(name, other, to_rev=to_rev)
        if wt is None:
            return None
        mode = mode or rng.choice(self.merge_modes)
        self._post_merge(name, wt, mode)
        h.log.append({"merge": other, "into": name, "rev": target.decode(), "mode": mode})
        rid = self._commit(name, wt)
        if rid:
            self.shape("merge")
            if len(h.parents[rid]) > 1 and any(len(h.parents.get(p, ())) > 1 for p in h.parents[rid][1:]):
                self.shape("merge-of-merge")
        return rid

    def step_crisscross(self):
        rng = self.rng
        h = self.h
        if len(h.trees) < 2:
            return None
        a, b = rng.sample(sorted(h.trees), 2)
        ta, tb = self.tip(a), self.tip(b)
        if ta in self.ancestry(tb) or tb in self.ancestry(ta):
            return None
        r1 = self.step_merge(a, b, to_rev=tb, mode=rng.choice(["none", "edit", "revert_this"]))
        r2 = self.step_merge(b, a, to_rev=ta, mode=rng.choice(["none", "edit", "revert_this"]))
        if r1 and r2:
            self.shape("criss-cross")
        return r1 or r2

    def step_octopus(self):
        """One commit merging two other branches (>= 3 parents).  The two merged branches are siblings when a
        slot is free (the second is sprouted from the first, then both get a commit of their own), so they share
        per-file versions the target does not have; otherwise any two existing branches are taken."""
        rng = self.rng
        h = self.h
        if len(h.trees) < 2:
            return None
        name = rng.choice(sorted(h.trees))
        others = [b for b in sorted(h.trees) if b != name]
        b = rng.choice(others)
        if len(h.trees) <= self.nbranches and (len(others) < 2 or rng.random() < 0.7):
            mine = self.ancestry(self.tip(name))
            # the first branch must hold something the target lacks before its sibling forks off
            if self.tip(b) in mine or rng.random() < 0.5:
                self.step_plain(b)
            c = "b%d" % len(h.trees)
            cp = os.path.join(h.root, c)
            swt = self.wt(b)
            lh = [r for r in self.lefthand(swt.last_revision())[:3] if r not in mine]
            rev = rng.choice(lh) if lh and rng.random() < 0.3 else None
            swt.branch.controldir.sprout(cp, revision_id=rev)
            h.trees[c] = cp
            h.log.append({"branch": c, "from": b, "at": rev.decode() if rev else None, "for": "octopus"})
            self.shape("octopus-sibling")
            for x in (b, c):  # both go their own way, so neither tip is an ancestor of the other
                for _ in range(3):
                    if self.step_plain(x):
                        break
        else:
            c = rng.choice([x for x in others if x != b])
        mine = self.ancestry(self.tip(name))
        if self.tip(b) in mine and self.tip(c) in mine:
            return None
        wt = None
        merged = set()
        if self.tip(b) in self.ancestry(self.tip(c)):
            b, c = c, b  # descendant first: the other one is then skipped below
        for o in (b, c):
            # a pending merge that is an ancestor of the tree's history or of an earlier pending merge adds nothing
            if self.tip(o) in mine or self.tip(o) in merged:
                continue
            w2 = self._do_merge(name, o, force=wt is not None)
            if w2 is not None:
                wt = w2
                merged |= self.ancestry(self.tip(o))
            elif wt is not None:
                wt = self.wt(name)
                resolve_all(wt)
        if wt is None:
            return None
        mode = rng.choice(self.merge_modes)
        self._post_merge(name, wt, mode)
        h.log.append({"octopus": [b, c], "into": name, "mode": mode, "pending": [p.decode() for p in wt.get_parent_ids()]})
        rid = self._commit(name, wt)
        if rid:
            self.shape("octopus" if len(h.parents[rid]) >= 3 else "octopus-degenerate")
        return rid

    def step_parallel(self):
        """The same change applied independently on two branches."""
        rng = self.rng
        h = self.h
        if len(h.trees) < 2:
            return None
        a, b = rng.sample(sorted(h.trees), 2)
        wa, wb = self.wt(a), self.wt(b)
        sa, sb = gen.world_from_tree(wa), gen.world_from_tree(wb)

        def files(wt):
            out = {}
            with wt.lock_read():
                for p, ie in wt.iter_entries_by_dir():
                    if ie.kind == "file" and os.path.isfile(os.path.join(wt.basedir, p)):
                        out[ie.file_id] = p
            return out

        fa, fb = files(wa), files(wb)
        common = sorted(set(fa) & set(fb))
        if not common:
            return None
        fid = rng.choice(common)
        kind = rng.choice(["content", "content", "content", "chmod", "rename"])
        done = False
        if kind == "content":
            data = gen.gen_content(rng)
            for wt, p in ((wa, fa[fid]), (wb, fb[fid])):
                with open(os.path.join(wt.basedir, p), "wb") as f:
                    f.write(data)
            done = True
        elif kind == "chmod":
            ex = not (os.stat(os.path.join(wa.basedir, fa[fid])).st_mode & 0o100)
            for wt, p in ((wa, fa[fid]), (wb, fb[fid])):
                os.chmod(os.path.join(wt.basedir, p), 0o755 if ex else 0o644)
            done = True
        else:
            nn = "par-%d" % len(h.order)
            if fa[fid].rpartition("/")[0] == fb[fid].rpartition("/")[0]:
                d = fa[fid].rpartition("/")[0]
                dst = (d + "/" if d else "") + nn
                try:
                    wa.rename_one(fa[fid], dst)
                    wb.rename_one(fb[fid], dst)
                    done = True
                except Exception as e:  # noqa: BLE001
                    h.log.append({"parallel-rename-refused": type(e).__name__})
                    self._clean(a)
                    self._clean(b)
                    return None
        del sa, sb
        if not done:
            return None
        h.log.append({"parallel": kind, "file_id": fid.decode(), "on": [a, b]})
        r1 = self._commit(a, wa)
        r2 = self._commit(b, wb)
        if r1 and r2:
            self.shape("parallel-" + kind)
        return r1 or r2

    def step_cherrypick(self):
        rng = self.rng
        h = self.h
        if len(h.trees) < 2:
            return None
        name, other = rng.sample(sorted(h.trees), 2)
        mine = self.ancestry(self.tip(name))
        cands = [r for r in sorted(self.ancestry(self.tip(other)) - mine) if h.parents[r] and h.parents[r][0] in h.parents]
        if not cands:
            return None
        r = rng.choice(cands)
        wt = self._do_merge(name, other, to_rev=r, from_rev=h.parents[r][0])
        if wt is None:
            return None
        h.log.append({"cherrypick": r.decode(), "into": name})
        rid = self._commit(name, wt)
        if rid:
            self.shape("cherry-pick" if len(h.parents[rid]) == 1 else "cherry-pick-with-pending")
        return rid

    def step_resurrect(self):
        """Bring back a file deleted earlier, with its old file id (revert PATH -r OLD)."""
        rng = self.rng
        h = self.h
        name = rng.choice(sorted(h.trees))
        wt = self.wt(name)
        lh = self.lefthand(wt.last_revision())
        if len(lh) < 2:
            return None
        repo = wt.branch.repository
        with wt.lock_read():
            cur = {ie.file_id for _p, ie in wt.iter_entries_by_dir()}
        rng.shuffle(lh)
        for old in lh[:4]:
            with repo.lock_read():
                t = repo.revision_tree(old)
                gone = [(p, ie.file_id) for p, ie in t.iter_entries_by_dir() if ie.file_id not in cur and ie.kind == "file"
                        and ie.parent_id in cur]
            if not gone:
                continue
            p, fid = rng.choice(gone)
            try:
                wt.revert([p], old_tree=repo.revision_tree(old))
            except Exception as e:  # noqa: BLE001
                h.log.append({"resurrect-refused": type(e).__name__})
                self._clean(name)
                return None
            resolve_all(wt)
            h.log.append({"resurrect": p, "from": old.decode(), "in": name})
            rid = self._commit(name, wt)
            if rid:
                self.shape("resurrect")
            return rid
        return None

    # ------------------------------------------------------------------ driver
    def run(self, nrevs, mix=None):
        rng = self.rng
        mix = mix or dict(MIX_EXTRA if self.extra else MIX)
        kinds = list(mix)
        guard = 0
        while len(self.h.order) < nrevs and guard < nrevs * 8:
            guard += 1
            k = rng.choices(kinds, [mix[x] for x in kinds])[0]
            if len(self.h.trees) < 2 and k not in ("plain", "branch", "resurrect"):
                k = "branch" if rng.random() < 0.6 else "plain"
            getattr(self, "step_" + k)()
        return self.h


def build(ctx, rng, fmt="2a", nrevs=8, tier="quick", light=False, ghosts=True, tags=False, nbranches=3, mix=None, extra=False):
    return Builder(ctx, rng, fmt, tier, light, ghosts, tags, nbranches, extra=extra).run(nrevs, mix)
