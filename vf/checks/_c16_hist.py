"""Private history helpers shared by C16 / C23 / C51 (extension of vf.gen.build_history).

* plain-set graph algebra over a parent map read once from the repositories (independent of vcsgraph's
  searchers: the oracles never call the Graph methods the code under test calls);
* `extend`: forces divergence and merges (real merges and recorded-only merges, two merged parents at once)
  into a generated history so that mainline merge revisions are the rule, not the exception;
* `add_tags`: tags on mainline, merged, unrelated and absent revisions.
"""
import os

from vf import gen

NULL = b"null:"


def parent_map_of(*repos):
    """revid -> tuple(parents) (null: stripped) for every revision present in the given repositories."""
    pm = {}
    for repo in repos:
        with repo.lock_read():
            ids = list(repo.all_revision_ids())
            for r, ps in repo.get_parent_map(ids).items():
                pm[r] = tuple(p for p in ps if p != NULL)
    return pm


def hist_parent_map(h):
    from breezy.branch import Branch

    return parent_map_of(*[Branch.open(p).repository for p in h.trees.values()])


def ancestry(pm, revs):
    """Reflexive ancestry; absent (ghost) revisions are members without parents."""
    seen = set()
    todo = [r for r in revs if r and r != NULL]
    while todo:
        r = todo.pop()
        if r in seen:
            continue
        seen.add(r)
        todo.extend(pm.get(r, ()))
    return seen


def lefthand(pm, tip):
    """Left-hand history, newest first, stops at a ghost / the origin."""
    out = []
    r = tip
    while r and r != NULL and r in pm:
        out.append(r)
        ps = pm[r]
        r = ps[0] if ps else None
    return out


def is_ancestor(pm, a, b):
    """a is b or an ancestor of b (null: is an ancestor of everything)."""
    if a in (None, NULL):
        return True
    return a in ancestry(pm, [b])


NO_MISSING = {k: v for k, v in gen.DEFAULT_WEIGHTS.items() if k != "delete_disk"}


def safe_commit(h, name, wt, rng, **kw):
    from breezy.commit import PointlessCommit

    try:
        return gen.commit(h, name, wt, rng, **kw)
    except PointlessCommit:
        return None


def extend(ctx, rng, h, rounds=2, names=None, real_merge_p=0.35, target=None, weights=None):
    """Add branches (if fewer than 2) and `rounds` rounds of: commits elsewhere, merge(s) into target, commit.

    Returns the target branch name.  Merges are either real tree merges or recorded-only
    (fetch + add_pending_merge: no conflicts, any number of merged parents)."""
    from breezy import errors

    names = names or gen.Names("quick")
    weights = weights or NO_MISSING
    while len(h.trees) < 2 or (len(h.trees) < 3 and rng.random() < 0.4):
        src = rng.choice(sorted(h.trees))
        nn = "b%d" % len(h.trees)
        np_ = os.path.join(h.root, nn)
        swt = h.wt(src)
        pm = parent_map_of(swt.branch.repository)
        lh = lefthand(pm, swt.branch.last_revision())
        at = lh[0] if (rng.random() < 0.5 or len(lh) < 2) else rng.choice(lh)
        swt.branch.controldir.sprout(np_, revision_id=at)
        h.trees[nn] = np_
        h.log.append({"branch": nn, "from": src, "at": at.decode()})
    target = target or rng.choice(sorted(h.trees))
    for _ in range(rounds):
        twt = h.wt(target)
        pool = [b for b in sorted(h.trees) if b != target]
        others = rng.sample(pool, 2 if (len(pool) > 1 and rng.random() < 0.4) else 1)
        merged_any = False
        for o in others:
            owt = h.wt(o)
            for _i in range(rng.randint(1, 2)):
                gen.random_delta(rng, owt, names, rng.randint(1, 3), weights, h.log)
                safe_commit(h, o, owt, rng)
            otip = owt.branch.last_revision()
            twt = h.wt(target)
            pm = parent_map_of(twt.branch.repository)
            if otip == NULL or otip in ancestry(pm, twt.get_parent_ids()):
                continue
            done = False
            if not merged_any and rng.random() < real_merge_p:
                try:
                    with twt.lock_write():
                        twt.merge_from_branch(owt.branch)
                    gen.resolve_all(twt)
                    done = True
                    h.log.append({"merge": o, "into": target})
                except errors.BzrError as e:
                    h.log.append({"merge-refused": type(e).__name__})
                    twt = h.wt(target)
                    twt.revert()
            if not done:
                twt.branch.repository.fetch(owt.branch.repository, otip)
                twt.add_pending_merge(otip)
                h.log.append({"record-merge": o, "into": target})
            merged_any = True
        twt = h.wt(target)
        if rng.random() < 0.6:
            gen.random_delta(rng, twt, names, rng.randint(1, 2), weights, h.log)
        safe_commit(h, target, twt, rng)
        if rng.random() < 0.4:
            gen.random_delta(rng, twt, names, rng.randint(1, 2), weights, h.log)
            safe_commit(h, target, twt, rng)
    return target


TAGNAMES = ["v1", "rel 2", "t/x", "über", "1.0", "x-y", "日本"]


def add_tags(rng, h, target, n=None):
    """Tags in the target branch on mainline / merged / unrelated / absent revisions.  Returns {name: (revid, class)}."""
    from breezy.branch import Branch

    b = Branch.open(h.trees[target])
    pm = hist_parent_map(h)
    tip = b.last_revision()
    anc = ancestry(pm, [tip])
    lh = lefthand(pm, tip)
    pools = {"mainline": lh, "merged": sorted(anc - set(lh)), "outside": sorted(set(pm) - anc), "absent": [b"no-such-revision"]}
    kinds = [k for k in ("mainline", "mainline", "mainline", "merged", "merged", "outside", "absent") if pools[k]]
    out = {}
    n = n if n is not None else rng.randint(2, 6)
    for i in range(n):
        k = rng.choice(kinds)
        rev = pools[k][0] if (k == "mainline" and rng.random() < 0.35) else rng.choice(pools[k])
        name = "%s-%d" % (rng.choice(TAGNAMES), i)
        b.tags.set_tag(name, rev)
        out[name] = (rev, k)
    return out
