"""C50 - command-line splitting inverts shell-style quoting.

Two law monitors on the real ``breezy.cmdline.split``:

Q (quote round trip)  a harness *quoter* that implements the documented rules
    (doc/en/user-guide/configuring_breezy.txt "Escaping command lines", the
    2N / 2N+1 backslash rule spelled out in ``_Backslash`` and pinned by
    test_cmdline): ``split(" ".join(quote(a) for a in args), mode) == args``.
    Style "dq" wraps every argument in one pair of double quotes (the rule as
    the property states it).  Style "mixed" renders the same argument as a
    concatenation of bare / "double" / 'single' segments chosen at random
    (``"fo""o b"'ar'`` - test_posix_quotations), which drives the _Word and
    _Whitespace entry paths of the state machine as well.
S (syntax-only loss)  for an arbitrary string s: ``"".join(split(s))`` is a
    subsequence of s (nothing invented, order kept), every character that is
    not quoting syntax (whitespace, a recognised quote, backslash) survives,
    in order, and ``len(split(s)) <= 1 + number of whitespace runs in s``.

The quoter is not an inverse implementation of the splitter: it only *emits*
text by the documented escaping rules; the deciding step is the real splitter
reading it back.
"""
import itertools
import re

ID = "C50"
LEVEL = "exploration"
TECHNIQUE = "law monitors on the real cmdline.split: documented-rules quoter round trip + syntax-only-loss, exhaustive over a bounded alphabet"
RULE = ("Q: every list of <=3 arguments with total length <= L over {a, space, \", ', \\} (quick L=5, thorough L=6), both "
        "single_quotes_allowed values, quoted in style dq and in one random mixed style; plus random longer lists over a wider "
        "alphabet (tab, newline, NBSP, EM SPACE, e-acute). S: every string of length <= 7 (thorough 8) over the same alphabet, both "
        "modes, plus random longer ones. evaluation = one split() call judged; non-trivial = the text contains at least one quote or "
        "backslash or whitespace character; distinct = distinct (law, mode, style, text)")
CASES = {"quick": 64, "thorough": 160}
BUDGET_S = {"quick": 50, "thorough": 800}
MIN_EVALS = {"quick": 400000, "thorough": 4000000}
FLOORS = {"law_Q_dq": 150000, "law_Q_mixed": 150000, "law_S": 150000, "law_Q_random": 2000, "law_S_random": 2000,
          "backslash_before_quote": 20000, "empty_argument": 5000}
EXHAUSTIVE = {"quick": True, "thorough": True}
RUST = []   # anchors are pure Python (filters, cmdline); no crate needs rebuilding for this property
ASSUMPTIONS = [
    "the documented rules are: double (and, when allowed, single) quotes group; 2N backslashes before a recognised quote "
    "character give N backslashes and the quote keeps its meaning; 2N+1 give N backslashes and a literal quote; backslashes "
    "elsewhere are literal (configuring_breezy.txt, cmdline._Backslash comments, test_cmdline)",
    "arguments are joined with single spaces in style dq; with 1-3 blanks (space/tab) in style mixed",
    "exhaustive part is bounded by total length; the random part samples longer inputs",
]

ALPHA = 'a "\'\\'
WIDE = ALPHA + "\t\n\u00a0\u2003\u00e9b"
_ws = re.compile(r"\s", re.UNICODE)


def is_ws(c):
    return _ws.match(c) is not None


# ---------------------------------------------------------------- quoter

def _serialise(items, qchars):
    """items: ('lit', c) | ('syn', q).  Emit text by the documented backslash rules."""
    out = []
    run = 0
    for kind, c in items:
        if kind == "lit" and c == "\\":
            run += 1
            continue
        if kind == "syn":
            # a quote that must keep its meaning: an even number of backslashes before it
            out.append("\\" * (2 * run) + c)
        elif kind == "esc":
            # literal recognised quote character: odd number of backslashes
            out.append("\\" * (2 * run + 1) + c)
        elif kind == "rawq":
            # recognised quote char that is literal because it sits inside the *other* kind of quotes
            out.append("\\" * (2 * run) + c)
        else:
            out.append("\\" * run + c)
        run = 0
    out.append("\\" * run)
    return "".join(out)


def quote_dq(arg, qchars):
    items = [("syn", '"')]
    for c in arg:
        if c == '"':
            items.append(("esc", c))
        elif c in qchars:
            items.append(("rawq", c))
        else:
            items.append(("lit", c))
    items.append(("syn", '"'))
    return _serialise(items, qchars)


def quote_mixed(arg, qchars, rng):
    """Render arg as a concatenation of bare / quoted segments (random style)."""
    items = []
    inq = None  # current open quote char
    opened = False
    i = 0
    n = len(arg)
    while i < n:
        c = arg[i]
        # maybe change quoting state before this character
        r = rng.random()
        if inq is None:
            if is_ws(c) or r < 0.3:
                inq = rng.choice(qchars)
                items.append(("syn", inq))
                opened = True
        elif r < 0.25:
            items.append(("syn", inq))
            inq = None
            continue
        if c in qchars:
            if inq is None or c == inq or rng.random() < 0.5:
                items.append(("esc", c))
            else:
                items.append(("rawq", c))
        else:
            items.append(("lit", c))
        i += 1
    if inq is not None:
        items.append(("syn", inq))
    if not opened and (n == 0 or rng.random() < 0.15):
        q = rng.choice(qchars)
        pos = rng.choice([0, len(items)])
        items[pos:pos] = [("syn", q), ("syn", q)]
    return _serialise(items, qchars)


# ---------------------------------------------------------------- laws

def law_Q(ctx, split, args, mode, style, rng=None, monitor=None):
    qchars = "\"'" if mode else '"'
    if style == "dq":
        text = " ".join(quote_dq(a, qchars) for a in args)
    else:
        parts = [quote_mixed(a, qchars, rng) for a in args]
        text = ""
        for k, p in enumerate(parts):
            if k:
                text += rng.choice([" ", " ", "  ", "\t", " \t "])
            text += p
        if rng.random() < 0.2:
            text = " " + text
        if rng.random() < 0.2:
            text += " "
    got = split(text, single_quotes_allowed=mode)
    ctx.count(monitor or ("law_Q_" + style))
    if any(not a for a in args):
        ctx.count("empty_argument")
    if re.search(r'\\["\']', text):
        ctx.count("backslash_before_quote")
    ok = got == list(args)
    if not ok:
        if len(got) != len(args):
            what = "arg-count"
        elif any(g.replace("\\", "") != a.replace("\\", "") for g, a in zip(got, args)):
            what = "content"
        else:
            what = "backslash-count"
        ctx.fail("quote-roundtrip:%s:%s" % (style, what),
                 "split(%r, single_quotes_allowed=%r) = %r, quoted from %r" % (text, mode, got, list(args)),
                 {"args": list(args), "text": text, "mode": mode, "style": style, "got": got})
    ctx.note(("Q", mode, style, text), nontrivial=any((c in "\"'\\") or is_ws(c) for c in text) and bool(args),
             sample={"law": "Q", "style": style, "args": list(args), "text": text, "single_quotes_allowed": mode, "split": got}
             if (len(text) > 9 and "\\" in text and ctx.acc["evaluations"] % 4999 == 0) else None)
    return ok


def _is_subseq(small, big):
    it = iter(big)
    return all(c in it for c in small)


def law_S(ctx, split, s, mode, monitor="law_S"):
    qchars = "\"'" if mode else '"'
    got = split(s, single_quotes_allowed=mode)
    ctx.count(monitor)
    d = {"text": s, "mode": mode, "got": got}
    if not isinstance(got, list) or any(not isinstance(g, str) for g in got):
        ctx.fail("split:bad-result-type", "%r -> %r" % (s, got), d)
        return
    joined = "".join(got)

    def plain(t):
        return "".join(c for c in t if not (is_ws(c) or c in qchars or c == "\\"))

    ctx.check(plain(joined) == plain(s), "syntax-only-loss:plain-chars-changed",
              "split(%r, %r) = %r loses or invents non-syntax characters" % (s, mode, got), d)
    ctx.check(_is_subseq(joined, s), "syntax-only-loss:not-a-subsequence",
              "split(%r, %r) = %r is not a subsequence of the input" % (s, mode, got), d)
    runs = len(re.findall(r"\s+", s, re.UNICODE))
    ctx.check(len(got) <= 1 + runs, "syntax-only-loss:too-many-args",
              "split(%r, %r) = %r has more arguments than whitespace runs allow" % (s, mode, got), d)
    if not any(c in qchars or c == "\\" for c in s):
        # no quoting syntax at all: splitting is plain whitespace splitting
        ctx.count("law_S_plain_words")
        ctx.check(got == s.split(), "syntax-only-loss:plain-words", "split(%r) = %r, want %r" % (s, got, s.split()), d)
    ctx.hist("S_nargs_%d" % min(len(got), 5))
    ctx.note(("S", mode, s), nontrivial=any((c in "\"'\\") or is_ws(c) for c in s),
             sample={"law": "S", "text": s, "single_quotes_allowed": mode, "split": got}
             if (len(s) > 6 and ctx.acc["evaluations"] % 7001 == 0) else None)


# ---------------------------------------------------------------- enumeration

def arg_lists(L):
    """Every list of <= 3 arguments with total length <= L over ALPHA."""
    yield ()
    for n in range(L + 1):
        for w in itertools.product(ALPHA, repeat=n):
            w = "".join(w)
            yield (w,)
            for c1 in range(n + 1):
                yield (w[:c1], w[c1:])
                for c2 in range(c1, n + 1):
                    yield (w[:c1], w[c1:c2], w[c2:])


def strings(L):
    for n in range(L + 1):
        for w in itertools.product(ALPHA, repeat=n):
            yield "".join(w)


def _rand_arg(rng, maxlen):
    n = rng.choice([0, 1, 2, 3, 5, 8, maxlen])
    kind = rng.random()
    if kind < 0.4:
        pool = ALPHA
    elif kind < 0.7:
        pool = '\\\\\\"\' a'
    else:
        pool = WIDE
    return "".join(rng.choice(pool) for _ in range(rng.randint(0, n)))


def case(ctx):
    from breezy import cmdline

    split = cmdline.split
    n = CASES[ctx.tier]
    quick = ctx.tier == "quick"
    n_enum = 48 if quick else 128          # cases 0..n_enum-1 : exhaustive slices
    if ctx.index < n_enum:
        LQ, LS = (5, 7) if quick else (6, 8)
        for idx, args in enumerate(arg_lists(LQ)):
            if idx % n_enum != ctx.index:
                continue
            for mode in (True, False):
                law_Q(ctx, split, args, mode, "dq")
                law_Q(ctx, split, args, mode, "mixed", ctx.rng)
        for idx, s in enumerate(strings(LS)):
            if idx % n_enum != ctx.index:
                continue
            for mode in (True, False):
                law_S(ctx, split, s, mode)
        return
    # random longer inputs
    reps = 400 if quick else 15000
    for _ in range(reps):
        k = ctx.rng.choice([1, 2, 3, 4, 6])
        args = tuple(_rand_arg(ctx.rng, 24) for _ in range(k))
        mode = ctx.rng.random() < 0.5
        law_Q(ctx, split, args, mode, "dq", monitor="law_Q_random")
        law_Q(ctx, split, args, mode, "mixed", ctx.rng, monitor="law_Q_random")
        s = "".join(ctx.rng.choice(WIDE if ctx.rng.random() < 0.5 else ALPHA) for _ in range(ctx.rng.randint(8, 40)))
        law_S(ctx, split, s, mode, monitor="law_S_random")
