"""C14 helper: what a transform *says* (through its public final_* API) about every trans id in play.

Two uses:

* `reference_conflicts()` - the raw conflicts that the documented definitions in
  breezy/bzr/transform.py / breezy/git/transform.py (`_duplicate_entries`, `_parent_loops`,
  `_parent_type_conflicts`, `_unversioned_parents`, `_improper_versioning`,
  `_executability_conflicts`, `_overwrite_conflicts`, `_duplicate_ids`) require for the current
  state, computed from final_name / final_parent / final_kind / final_is_versioned only.  It is
  compared with what `find_raw_conflicts()` actually returned (oracle on the resolver's INPUT).
* `shapes()` - names of op shapes present in the transform just before apply (mechanism part of the
  failure keys of apply-time symptoms).  Labels only, never a verdict.

The private dictionaries of the transform are read for ENUMERATION only (which trans ids exist, which
of them got a new id / executability): every property of an entry that the reference uses comes from
the public accessors.
"""


def universe(tt):
    """Every trans id the transform knows (call after find_raw_conflicts(): it registers tree children)."""
    ids = set(tt._tree_id_paths) | set(tt._new_name) | set(tt._new_parent) | set(tt._new_contents)
    ids |= set(tt._removed_contents) | set(tt._removed_id) | set(tt._new_executability) | set(new_versioned(tt))
    return ids


def new_versioned(tt):
    """trans ids that version_file() was called on (bzr: with which id)."""
    nid = getattr(tt, "_new_id", None)
    if nid is not None:
        return dict(nid)
    return {t: None for t in getattr(tt, "_versioned", ())}


class Fact:
    __slots__ = ("tid", "parent", "name", "kind", "versioned", "tree_path", "tree_kind", "new_contents", "removed", "moved")


def facts(tt):
    """{trans id: Fact}.  final_parent() of a tree entry hands out a trans id for its directory, so iterate to a fixpoint."""
    from breezy.transform import ROOT_PARENT

    extra = set()  # ids that only occur as somebody's parent (assign_id() ids that were never given a place themselves)
    for _ in range(8):
        ids = universe(tt) | extra
        out = _facts(tt, ids)
        parents = {f.parent for f in out.values() if f.parent is not None and f.parent != ROOT_PARENT}
        if universe(tt) | extra == ids and parents <= ids:
            break
        extra |= parents - ids
    return out


def _facts(tt, ids):
    from breezy.transform import NoFinalPath

    out = {}
    for t in ids:
        f = Fact()
        f.tid = t
        try:
            f.parent = tt.final_parent(t)
        except KeyError:
            f.parent = None  # an id from assign_id() that was never given a place
        try:
            f.name = tt.final_name(t)
        except NoFinalPath:
            f.name = None
        f.kind = tt.final_kind(t)
        f.versioned = bool(tt.final_is_versioned(t))
        f.tree_path = tt.tree_path(t)
        f.tree_kind = tt.tree_kind(t)
        f.new_contents = bool(tt.new_contents(t))
        f.removed = t in tt._removed_contents
        f.moved = bool(tt.path_changed(t))
        out[t] = f
    return out


def there(f):
    """An entry that occupies its name: it has final contents or stays versioned (the `_duplicate_entries` rule)."""
    return f.kind is not None or f.versioned


def children_by_parent(fs):
    by = {}
    for f in fs.values():
        if f.parent is not None:
            by.setdefault(f.parent, []).append(f)
    return by


def reference_conflicts(tt, fs, git):
    """{kind: set of hashable conflict descriptions} demanded by the documented definitions."""
    from breezy.transform import ROOT_PARENT

    ref = {k: set() for k in ("duplicate", "parent loop", "missing parent", "non-directory parent", "unversioned parent",
                              "versioning no contents", "unversioned executability", "non-file executability", "overwrite", "duplicate id")}
    by = children_by_parent(fs)
    anything_moved = any(f.moved for f in fs.values())
    # duplicate: two entries that are "there" share parent and name (only looked for when something got a new name / parent)
    groups = {}
    if anything_moved:
        for p, kids in by.items():
            for f in kids:
                if f.name is not None and there(f):
                    groups.setdefault((p, f.name), []).append(f.tid)
    ref["duplicate-groups"] = {k: sorted(v) for k, v in groups.items() if len(v) > 1}
    for (p, name), members in ref["duplicate-groups"].items():
        for t in members:
            ref["duplicate"].add((t, name))
    # parent loop: an entry with a new parent that is its own ancestor
    for f in fs.values():
        if not f.moved:
            continue
        seen = set()
        cur = f.tid
        while cur != ROOT_PARENT and cur is not None and cur not in seen:
            seen.add(cur)
            cur = fs[cur].parent if cur in fs else None
            if cur == f.tid:
                ref["parent loop"].add(f.tid)
                break
    # parent type / versioning of parents
    for p, kids in by.items():
        if p == ROOT_PARENT or p not in fs:
            continue
        pf = fs[p]
        if any(k.kind is not None for k in kids):
            if pf.kind is None:
                ref["missing parent"].add(p)
            elif pf.kind != "directory":
                ref["non-directory parent"].add(p)
        if not git and not pf.versioned and any(k.versioned for k in kids):
            ref["unversioned parent"].add(p)
    # versioning / executability / overwrite
    nv = new_versioned(tt)
    for t in nv:
        if fs[t].kind is None:
            ref["versioning no contents"].add(t)
    for t in tt._new_executability:
        if not fs[t].versioned:
            ref["unversioned executability"].add(t)
        elif fs[t].kind != "file":
            ref["non-file executability"].add(t)
    for t, f in fs.items():
        if f.new_contents and f.tree_kind is not None and not f.removed:
            ref["overwrite"].add(t)
    if not git:
        try:
            active = set(tt._tree.all_file_ids())
        except Exception:
            active = None
        if active is not None:
            active -= {tt.tree_file_id(t) for t in tt._removed_id}
            for t, fid in nv.items():
                if fid in active:
                    ref["duplicate id"].add(t)
    return ref


def reported(conflicts):
    """The same description of what find_raw_conflicts() returned."""
    rep = {}
    for c in conflicts:
        k = c[0]
        if k == "duplicate":
            rep.setdefault(k, set()).update({(c[1], c[3]), (c[2], c[3])})
        elif k == "duplicate id":
            rep.setdefault(k, set()).add(c[2])
        else:
            rep.setdefault(k, set()).add(c[1])
    return rep


def describe(f):
    """Short class of an entry for failure keys."""
    origin = "tree" if f.tree_path is not None else "new"
    if f.kind is None:
        body = "kept-versioned-without-contents" if f.versioned else "gone"
    else:
        body = "with-contents"
    return "%s-%s" % (origin, body)


def compare(ref, rep, fs):
    """[(key suffix, message)] for every difference between demanded and reported raw conflicts."""
    out = []
    for kind in sorted(k for k in ref if k != "duplicate-groups"):
        want, got = ref[kind], rep.get(kind, set())
        if kind == "duplicate":
            for (p, name), members in sorted(ref["duplicate-groups"].items(), key=repr):
                missing = [t for t in members if (t, name) not in got]
                if missing:
                    lab = "+".join(sorted({describe(fs[t]) for t in members}))
                    out.append(("duplicate-not-reported:%s" % lab,
                                "entries %r all end up as %r in %r, find_raw_conflicts() has no 'duplicate' for %r" % (members, name, p, missing)))
            extra = sorted(got - want, key=repr)
            if extra:
                out.append(("duplicate-reported-without-cause", "'duplicate' reported for %r which do not share a parent and name with another present entry" % (extra,)))
            continue
        for t in sorted(want - got, key=repr):
            out.append(("%s-not-reported:%s" % (kind.replace(" ", "-"), describe(fs[t]) if t in fs else "?"), "%r: definition of %r holds, not reported" % (t, kind)))
        for t in sorted(got - want, key=repr):
            out.append(("%s-reported-without-cause" % kind.replace(" ", "-"), "%r: %r reported, its definition does not hold" % (t, kind)))
    return out


# ------------------------------------------------------------------ op shapes (mechanism part of symptom keys)

def shapes(tt, fs, git, before_view, disk_before, stored=None):
    """Names of the op shapes present in the transform (state just before apply): preconditions of the known apply-time
    and preview defects.  before_view / disk_before: the start tree (versioned view, disk snapshot)."""
    from breezy.transform import ROOT_PARENT

    out = set()
    by = children_by_parent(fs)
    place = {}
    for f in fs.values():
        if f.parent is not None and f.name is not None:
            place.setdefault((f.parent, f.name), []).append(f)
    for members in place.values():
        if len(members) > 1:
            out.add("two-present-entries-one-final-path" if len([m for m in members if there(m)]) > 1 else "two-trans-ids-one-final-path")
    if any(v.get("kind") is None for v in before_view.values()):
        out.add("versioned-entry-missing-on-disk")
    nv = new_versioned(tt)
    for t, f in fs.items():
        if f.parent is None or f.name is None:
            out.add("nameless-trans-id")
        if t == tt.root:
            if t in tt._removed_id or t in nv or f.removed:
                out.add("root-unversioned-reversioned-or-deleted")
            continue
        kids = by.get(t, [])
        pf = fs.get(f.parent)
        if f.kind is None and f.versioned and f.removed:
            out.add("contents-deleted-entry-kept-versioned")
        if f.kind is None and f.versioned and pf is not None and f.parent != ROOT_PARENT and (f.moved or pf.moved or pf.removed or pf.new_contents):
            if pf.kind in ("file", "symlink"):
                out.add("versioned-entry-without-contents-under-non-directory")
            elif pf.kind is None:
                out.add("versioned-entry-without-contents-under-missing-parent")
        if f.kind is None and not f.versioned and pf is not None and f.parent != ROOT_PARENT and (f.moved or f.tree_path is None):
            if pf.kind in ("file", "symlink"):
                out.add("contentless-entry-under-non-directory")
        if f.tree_kind == "directory" and f.removed:
            stay = [k for k in kids if k.tree_path is not None and not k.moved and not k.removed]
            if stay and f.new_contents:
                out.add("deleted-directory-keeps-children" if f.kind == "directory" else "directory-becomes-file-children-left-behind")
        if stored and f.tree_path in stored and f.tree_kind is not None and stored[f.tree_path] != f.tree_kind and not f.removed:
            if f.moved or f.new_contents or any(k.moved or k.new_contents or k.tree_path is None for k in kids):
                # the start tree has a pending kind change here: the transform works with the kind on disk, the inventory / index
                # still has the old kind
                out.add("pending-kind-change-entry-moved-or-given-children")
        if f.tree_path is not None and f.tree_kind is None and f.new_contents and not f.removed and stored and f.tree_path in stored \
                and stored[f.tree_path] != f.kind:
            # new contents of another kind for a versioned entry that is missing on disk: no deletion, so no kind change is recorded
            out.add("versioned-entry-missing-on-disk-recreated-as-another-kind")
        if f.tree_kind == "symlink" and any(k.tree_path is not None and k.tree_path.startswith(f.tree_path + "/") for k in kids):
            out.add("symlink-listed-as-directory")
        if not git and f.tree_path is not None and t in tt._removed_id:
            try:
                old = tt.tree_file_id(t)
            except Exception:
                old = None
            if old is not None and any(fid == old and t2 != t for t2, fid in nv.items()):
                out.add("file-id-moved-to-another-trans-id")
        if git and f.tree_path is not None and f.tree_kind in ("file", "symlink") and t in nv and not f.new_contents \
                and f.tree_path not in before_view:
            out.add("existing-unversioned-file-versioned-and-moved" if f.moved else "existing-unversioned-file-versioned")
        if git and f.tree_path is not None and f.tree_path in before_view and t in tt._removed_id and t in nv and not f.new_contents:
            # unversion_file + version_file on an entry the index already has: the index entry is removed and, without new
            # contents, not added again, while the preview keeps listing it
            out.add("git-unversion-then-version-same-entry")
        if git and f.tree_kind == "directory" and f.moved and any(q.startswith(f.tree_path + "/") for q in before_view):
            # git has no directory entries: the index paths of the files below a moved directory are not rewritten
            out.add("git-directory-moved-children-keep-index-paths")
        if f.tree_path is not None and f.tree_kind is None and f.tree_path not in before_view and (f.moved or kids):
            out.add("nonexistent-tree-path-moved-or-used-as-parent")
    return out


# shapes that explain a symptom, most specific first; the first one present names the mechanism
GLOBAL_ORDER = [
    "two-present-entries-one-final-path", "git-unversion-then-version-same-entry", "pending-kind-change-entry-moved-or-given-children", "versioned-entry-missing-on-disk-recreated-as-another-kind",
    "git-directory-moved-children-keep-index-paths", "deleted-directory-keeps-children", "directory-becomes-file-children-left-behind",
    "versioned-entry-without-contents-under-non-directory", "versioned-entry-without-contents-under-missing-parent",
    "contentless-entry-under-non-directory", "symlink-listed-as-directory", "two-trans-ids-one-final-path",
    "existing-unversioned-file-versioned-and-moved", "existing-unversioned-file-versioned", "root-unversioned-reversioned-or-deleted",
    "contents-deleted-entry-kept-versioned", "versioned-entry-missing-on-disk", "nonexistent-tree-path-moved-or-used-as-parent",
    "file-id-moved-to-another-trans-id", "nameless-trans-id",
]
PRIORITY = {
    "apply_deletions": ["deleted-directory-keeps-children", "directory-becomes-file-children-left-behind"],
    "rename": ["contentless-entry-under-non-directory", "versioned-entry-without-contents-under-non-directory", "deleted-directory-keeps-children"],
    "delta": ["pending-kind-change-entry-moved-or-given-children", "versioned-entry-missing-on-disk-recreated-as-another-kind",
              "versioned-entry-without-contents-under-non-directory", "versioned-entry-without-contents-under-missing-parent",
              "two-present-entries-one-final-path", "file-id-moved-to-another-trans-id", "contents-deleted-entry-kept-versioned"],
    "late-conflict": ["symlink-listed-as-directory", "versioned-entry-missing-on-disk"],
    "preview": ["git-unversion-then-version-same-entry", "pending-kind-change-entry-moved-or-given-children", "two-trans-ids-one-final-path", "existing-unversioned-file-versioned-and-moved", "existing-unversioned-file-versioned",
                "symlink-listed-as-directory", "root-unversioned-reversioned-or-deleted", "git-directory-moved-children-keep-index-paths"] + GLOBAL_ORDER,
}


def touched_paths(tt, fs):
    """Tree paths and final paths of every entry the transform changes in any way (labels only)."""
    from breezy.transform import FinalPaths

    fp = FinalPaths(tt)
    nv = new_versioned(tt)
    out = set()
    for t, f in fs.items():
        if f.moved or f.removed or f.new_contents or t in nv or t in tt._removed_id or t in tt._new_executability:
            if f.tree_path is not None:
                out.add(f.tree_path)
            try:
                out.add(fp.get_path(t))
            except Exception:
                pass
    return out


RESOLVER_ORDER = ["parent loop", "non-directory parent", "missing parent", "deleting parent", "unversioned parent", "duplicate id", "duplicate",
                  "versioning no contents"]


def attribute(symptom, shape_set):
    """First op shape (precondition of a known defect) that explains the symptom; failing that, the resolver that produced the
    layout; failing that 'unattributed' (never a known finding)."""
    for sh in PRIORITY.get(symptom) or GLOBAL_ORDER:
        if sh in shape_set:
            return sh
    for r in RESOLVER_ORDER:
        if "after-resolver:" + r.replace(" ", "-") in shape_set:
            return "after-resolver:" + r.replace(" ", "-")
    return "unattributed"
