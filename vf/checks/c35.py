"""C35 - git object export is consistent and round-trips.

One case = one generated native history (merges, renames, exec flips, symlinks, binary contents, empty
directories, names whose git order differs from byte order; paths vacated and re-occupied within one revision -
an entry removed and an untouched directory / file / symlink moved onto its path or a new entry added there, two
entries trading places; symlink <-> regular file changes that keep the bytes git stores, the file holding the link
target as its text; merges that record the merged branch but keep none of its changes, so the merge revision's tree
is its first parent's), judged by three groups of oracles (plus a live monitor on
breezy.git.fetch.import_git_commit: the trees it caches must keep describing their own revision).  The revision
shapes the export / import shortcuts are sensitive to are counted (w_* counters, shape:* histogram, no verdict):

 (a) from-scratch reference.  For every revision the harness builds dulwich Blob / Tree objects straight
     from the revision-tree snapshot (modes 100644 / 100755 / 120000 / 040000, empty directories omitted,
     dulwich's own tree serialisation = git name order).  The tree sha BazaarObjectStore records for the
     revision must equal it: with a warm cache (topological conversion, parents' ids reused), per revision
     through `_tree_to_objects` with an EMPTY id map (every blob id computed through the fall-back paths),
     with the parents in the other order, and again after the on-disk cache has been deleted; every object
     `_tree_to_objects` yields must be the reference object at that path; every reference object must be
     served by `store[sha]` byte-identically; `find_missing_objects` must enumerate every reference object
     the receiver lacks.
 (b) git origin.  A repository built with plain dulwich from the same snapshots (same DAG, branch refs) is
     fetched into a fresh rich-root bzr repository (in one step, or in two / three steps with fresh objects per step,
     the first step mostly stopping at the first parent of a merge whose other parent then arrives together with
     the merge); BazaarObjectStore over that
     repository must serve every original commit / tree / blob byte-identically, from the cache the import
     filled and again after that cache was deleted; the imported trees equal the snapshots; a round-tripping
     (non-lossy) push of the imported branch into a fresh git repository reproduces the original commit ids.
 (c) push and fetch back.  Every native branch is pushed (lossy = dpush; the non-lossy push of native
     revisions is the documented refusal NoRoundtrippingSupport) into one local git repository, in one step
     or two; the git repository is read with plain dulwich: commit -> reference tree sha, parents mapped,
     every reachable object present; fetched back into a fresh bzr repository (one step or stepwise as in (b)) the
     per-revision trees equal the originals minus empty directories.
"""
import os
import shutil
import stat
import traceback

ID = "C35"
LEVEL = "exploration"
TECHNIQUE = ("independent from-scratch reference (dulwich objects built from tree snapshots) vs the real incremental "
             "BazaarObjectStore (warm / empty id map / swapped parents / deleted cache), byte-identical object service, "
             "git-origin import -> re-export sha equality, dpush -> plain-dulwich inspection -> fetch back tree equality")
LEVEL_TEXT = ("generated native histories (quick <= 8 revisions / 3 branches, thorough <= 20 / 4) in 2a (mostly), "
              "1.9-rich-root, pack-0.92 and rich-root-pack; every revision of every history judged by every oracle; "
              "git side read with plain dulwich only; about half of the composite edits re-use a path within one revision "
              "(removed entry replaced by a moved or new one, swaps) or flip symlink <-> file with unchanged git blob; about a third "
              "of the merges keep the first parent's tree unchanged; most git -> bzr transfers of histories with merges are "
              "split at the first parent of a merge")
RULE = ("one evaluation = one revision judged by one oracle group (a / b / c); distinct = distinct (tree snapshot, parents' "
        "snapshots, oracle group); non-trivial = the revision's tree has a sub-directory, a symlink or an executable "
        "file, or the revision is a merge")
CASES = {"quick": 72, "thorough": 700}
BUDGET_S = {"quick": 40, "thorough": 700}
MIN_EVALS = {"quick": 400, "thorough": 6000}
FLOORS = {"a_warm_tree": 150, "a_empty_map_tree": 150, "a_deleted_cache_tree": 150, "a_yielded_object": 300,
          "a_object_served": 450, "a_missing_objects_complete": 30, "b_commit_sha": 100, "b_object_served": 400,
          "b_cold_commit_sha": 100, "b_tree_equal": 100, "c_git_commit_tree": 100, "c_fetched_back_tree": 100,
          "a_merge_revision": 10, "a_parents_swapped_tree": 10,
          # workload counters: revisions in which a path changed owner / an entry changed kind keeping its git blob
          "w_path_taken_over": 25, "w_kind_change_same_blob": 5,
          # merges recording a parent none of whose changes were kept (git tree = first parent's); merges imported from
          # git in a later step than their first parent, together with another parent
          "w_merge_keeps_first_parent_tree": 2, "w_import_merge_first_parent_from_earlier_step": 3}
EXHAUSTIVE = {"quick": False, "thorough": False}
ASSUMPTIONS = [
    "the per-revision tree snapshot is read through the public RevisionTree API (iter_entries_by_dir, get_file_text, "
    "is_executable, get_symlink_target); C01 judges that commits record the right tree",
    "dulwich's Blob/Tree serialisation and sha computation are the reference for what git would store",
    "default mapping (git-v1): empty directories are dropped on export, file names are utf-8; no entry is called .git",
    "unusual git file modes (100664 ...) appear in a small share of the git-origin histories only",
    "revision metadata round trips are C34's subject; here commit ids are compared only for git-origin histories",
]

FORMATS = ["2a"] * 6 + ["1.9-rich-root", "pack-0.92", "rich-root-pack"]
LEGACY_TARGETS = ["1.9-rich-root", "rich-root-pack"]


# ----------------------------------------------------------------------------- reference

def prune_empty(snap):
    """snapshot {path: (kind, content, exec)} without directories that (transitively) hold no file / symlink."""
    keep = set()
    for p, v in snap.items():
        if v[0] in ("file", "symlink"):
            while "/" in p:
                p = p.rpartition("/")[0]
                keep.add(p)
    return {p: v for p, v in snap.items() if v[0] != "directory" or p in keep}


def ref_objects(snap, modes=None):
    """(root tree id, {path: ShaFile}) built from scratch; '' is the root tree.  Empty directories omitted."""
    from dulwich.objects import Blob, Tree

    children = {}
    for p, v in snap.items():
        par, _, name = p.rpartition("/")
        children.setdefault(par, []).append((name, p, v))
    objs = {}

    def build(d):
        t = Tree()
        for name, p, v in children.get(d, ()):
            kind = v[0]
            if kind == "directory":
                sub = build(p)
                if sub is not None:
                    t.add(name.encode("utf-8"), 0o040000, sub.id)
            elif kind == "file":
                b = Blob.from_string(v[1])
                objs[p] = b
                mode = 0o100755 if v[2] else 0o100644
                if modes and p in modes:
                    mode = modes[p]
                t.add(name.encode("utf-8"), mode, b.id)
            elif kind == "symlink":
                b = Blob.from_string(v[1].encode("utf-8"))
                objs[p] = b
                t.add(name.encode("utf-8"), 0o120000, b.id)
            else:
                raise AssertionError(kind)
        if d != "" and len(t) == 0:
            return None
        objs[d] = t
        return t

    return build("").id, objs


def snapshot(tree):
    from vf.observe import snap_tree, strip_ids

    return strip_ids(snap_tree(tree))


def nontrivial(snap, parents):
    return len(parents) > 1 or any(v[0] == "symlink" or (v[0] == "file" and (v[2] or "/" in p)) for p, v in snap.items())


def where(e):
    from vf.runner import _where

    return _where(e.__traceback__)


_LIVE = {"ctx": None, "basis_mutated": False, "suspect": frozenset(), "incomplete_git": False}
RENAMED_DIR_KEY = "export:tree-of-renamed-directory-not-generated"


def missing_key(default, oid):
    """A tree object the incremental export never produced: one mechanism when it is the tree of a directory that
    was renamed in that revision (seen by serve / dpush / find_missing_objects alike), else the oracle's own key."""
    return RENAMED_DIR_KEY if oid in _LIVE["suspect"] else default


def classify(e, what, detail=None):
    """Mechanism key for an exception that escaped the operation under test."""
    tb = "".join(traceback.format_exception(type(e), e, e.__traceback__))
    if isinstance(e, KeyError) and detail and detail.get("oid") in _LIVE["suspect"]:
        return RENAMED_DIR_KEY
    if "builder already open" in str(e) and _LIVE["incomplete_git"]:
        # fetching back a git repository that lacks a tree: the importer falls back to the target's own object store
        return RENAMED_DIR_KEY
    if isinstance(e, TypeError) and "import_git_blob" in tb and "not dict" in str(e):
        return "git-import:parent-lookup-gets-dict"
    if what.startswith("legacy-target:") and _LIVE["basis_mutated"]:
        return "git-import:non-chk-target:cached-basis-inventory-mutated"
    if isinstance(e, AssertionError) and "Invalid sha for" in str(e):
        kind = "commit" if "<Commit" in str(e) else "tree" if "<Tree" in str(e) else "blob" if "<Blob" in str(e) else "object"
        return "%s:reconstructed-%s-sha-mismatch" % (what, kind)
    return "%s:unexpected:%s@%s" % (what, type(e).__name__, where(e))


def legacy_key(key):
    """Failures of a non-CHK target whose import was seen to corrupt its cached parent trees share that mechanism."""
    if key.startswith("legacy-target:") and _LIVE["basis_mutated"]:
        return "git-import:non-chk-target:cached-basis-inventory-mutated"
    return key


def worker_init(tier):
    """Live monitor on breezy.git.fetch.import_git_commit: the trees it keeps in its cache must keep describing
    the revision they were cached for (a later commit with the same parent is converted against them)."""
    from breezy.git import fetch

    if getattr(fetch.import_git_commit, "_c35", False):
        return
    orig = fetch.import_git_commit

    def import_git_commit(repo, mapping, head, lookup_object, target_git_object_retriever, trees_cache, strict):
        r = orig(repo, mapping, head, lookup_object, target_git_object_retriever, trees_cache, strict)
        ctx = _LIVE["ctx"]
        if ctx is not None:
            ctx.count("live_import_git_commit")
            try:
                cached = list(trees_cache._cache.as_dict().items())
            except Exception:
                cached = []
            for revid, tree in cached:
                inv_rev = getattr(tree.root_inventory, "revision_id", revid)
                if inv_rev not in (None, revid) and not _LIVE["basis_mutated"]:
                    _LIVE["basis_mutated"] = True
                    ctx.fail("git-import:non-chk-target:cached-basis-inventory-mutated",
                             "after importing %s the cached tree of %s carries the inventory of %s" % (head, revid, inv_rev),
                             {"repository": repr(repo._format)})
        return r

    import_git_commit._c35 = True
    fetch.import_git_commit = import_git_commit


class OneKeyCtx:
    """Everything that goes wrong in an input class the statement does not name is one mechanism."""

    def __init__(self, ctx, key):
        self._ctx, self._key = ctx, key

    def __getattr__(self, name):
        return getattr(self._ctx, name)

    def fail(self, key, msg, detail=None, stop=False):
        d = dict(detail or {})
        d["observed_as"] = key
        self._ctx.fail(self._key, "%s: %s" % (key, msg), d, stop=stop)

    def check(self, cond, key, msg, detail=None, stop=False):
        if not cond:
            self.fail(key, msg, detail, stop=stop)
        return cond


STORAGE_KEY = "bzr-storage:text-differs-from-recorded-sha1"


def storage_intact(ctx, repo, revids):
    """Pre-pass over an imported repository: every file text must hash to the sha1 its inventory entry records.

    A repository that fails this was damaged below the git layer (seen: 2a `pack(hint)` after the import turning a
    NUL that follows a shared prefix into 'd', see fixes/C35-observed-2a-pack-corrupts-text-after-nul.md); everything
    the git oracles would report about it is that one mechanism, so it is reported once under its own key and the
    git oracles are skipped for that repository."""
    import hashlib

    seen = set()
    for brev in revids:
        if not repo.has_revision(brev):
            continue
        t = repo.revision_tree(brev)
        for path, ie in t.iter_entries_by_dir():
            if ie.kind != "file" or (ie.file_id, ie.revision) in seen:
                continue
            seen.add((ie.file_id, ie.revision))
            ctx.count("storage_text_checked")
            if hashlib.sha1(t.get_file_text(path)).hexdigest().encode() != ie.text_sha1:
                ctx.fail(STORAGE_KEY, "text %r of %s reads back with another sha1 than its inventory entry records" % (path, brev),
                         {"text": repr(t.get_file_text(path))[:200], "format": repr(repo._format)})
                return False
    return True


def attempt(ctx, what, fn, detail=None):
    """Run an operation under test; an exception is an oracle failure with a mechanism key (case goes on)."""
    try:
        return True, fn()
    except Exception as e:
        d = dict(detail or {})
        d["traceback"] = traceback.format_exc()[-2500:]
        key = classify(e, what, d)
        d.pop("oid", None)
        ctx.fail(key, repr(e)[:400], d)
        return False, None


def merge_splits(h, among=None):
    """[(A, M)]: recorded merge M whose first parent A lacks another parent of M in its ancestry.  Transferring A in
    one step and M in a later one, the receiver already stores M's first parent while another parent arrives
    together with M (the incremental shape of `pull` after upstream merged a side branch)."""
    from vf.checks._c35_hist import ancestry

    out = []
    for m in h.order:
        ps = [p for p in h.recorded[m]["parents"] if p in h.recorded]
        if len(ps) < 2 or (among is not None and (m not in among or any(p not in among for p in ps))):
            continue
        anc = ancestry(h, ps[0])
        if any(p not in anc for p in ps[1:]):
            out.append((ps[0], m))
    return out


def pick_steps(rng, h, pool, among=None, p_multi=0.6, p_split=0.75):
    """Revisions to transfer first (in this order) before the final transfer of everything; [] = one step.
    pool: revisions a step may stop at.  Mostly the first parent of a merge whose other parent is not in that
    parent's ancestry, else any revision; sometimes a second intermediate stop."""
    if len(pool) < 2 or rng.random() >= p_multi:
        return []
    splits = [a for a, _m in merge_splits(h, among) if a in pool]
    steps = [rng.choice(splits) if splits and rng.random() < p_split else rng.choice(pool)]
    if rng.random() < 0.3:
        steps.append(rng.choice(pool))
    return steps


def count_steps(ctx, h, steps, tag, among=None):
    """Workload counters for a stepwise transfer: merges that arrive in a step whose predecessor steps already
    delivered the first parent but not some other parent."""
    from vf.checks._c35_hist import ancestry

    ctx.hist("%s:steps:%d" % (tag, len(steps) + 1))
    have = set()
    universe = set(h.order) if among is None else set(among)
    for stop in list(steps) + [None]:
        new = (universe if stop is None else ancestry(h, stop) & universe) - have
        if have:
            for m in new:
                ps = [p for p in h.recorded[m]["parents"] if p in universe]
                if len(ps) > 1 and ps[0] in have and any(p in new for p in ps[1:]):
                    ctx.count("w_%s_merge_first_parent_from_earlier_step" % tag)
                elif len(ps) > 1 and ps[0] in new and any(p in have for p in ps[1:]):
                    ctx.hist("shape:%s:merge-other-parent-from-earlier-step" % tag)
        have |= new


# ----------------------------------------------------------------------------- (a)

def drop_git_cache(repo_path):
    d = os.path.join(repo_path, ".bzr", "repository", "git")
    had = os.path.isdir(d)
    shutil.rmtree(d, ignore_errors=True)
    return had


def store_tree_sha(store, rid):
    """Tree sha the store has on record for revision rid (converting what is needed)."""
    csha = store._lookup_revision_sha1(rid)
    for kind, data in store.lookup_git_sha(csha):
        if kind == "commit" and data[0] == rid:
            return csha, data[1]
    raise KeyError(rid)


def oracle_a(ctx, rng, h, repo_path, revs):
    """revs: {rid: {"snap", "parents", "root", "objs"}} for every recorded revision."""
    from breezy.git.cache import DictGitShaMap
    from breezy.git.mapping import default_mapping
    from breezy.git.object_store import BazaarObjectStore, _tree_to_objects
    from breezy.repository import Repository

    repo = Repository.open(repo_path)
    store = BazaarObjectStore(repo)
    order = list(h.order)
    commit_sha = {}
    with store.lock_read():
        sched = rng.choice(["all", "each-topo", "each-shuffled", "tips"])
        ctx.hist("a:schedule:" + sched)
        if sched == "all":
            store._update_sha_map()
        seq = list(order)
        if sched == "each-shuffled":
            rng.shuffle(seq)
        elif sched == "tips":
            seq = list(reversed(order))
        for rid in seq:
            r = revs[rid]
            ok, res = attempt(ctx, "warm", lambda: store_tree_sha(store, rid), {"revision": rid.decode()})
            if not ok:
                continue
            csha, tsha = res
            commit_sha[rid] = csha
            ctx.count("a_warm_tree")
            if len(r["parents"]) > 1:
                ctx.count("a_merge_revision")
            ctx.check(tsha == r["root"], "warm-cache:tree-sha-differs-from-scratch",
                      "revision %s: store %s, from scratch %s" % (rid.decode(), tsha, r["root"]),
                      {"revision": rid.decode(), "paths": sorted(r["snap"])[:40], "schedule": sched})
            ok, c = attempt(ctx, "warm-commit", lambda: store[csha], {"revision": rid.decode()})
            if ok:
                ctx.check(c.tree == r["root"], "warm-cache:commit-tree-differs-from-scratch",
                          "revision %s: commit.tree %s, from scratch %s" % (rid.decode(), c.tree, r["root"]))
                want = [commit_sha.get(p) for p in r["parents"] if p in revs]
                if None not in want:
                    ctx.check(list(c.parents) == want, "warm-cache:commit-parents", "revision %s: %r != %r" % (rid.decode(), c.parents, want))
            ctx.note((sorted(r["snap"].items()), [sorted(revs[p]["snap"].items()) for p in r["parents"] if p in revs], "a"),
                     nontrivial=nontrivial(r["snap"], r["parents"]),
                     sample={"oracle": "a", "revision": rid.decode(), "paths": sorted(r["snap"])[:12], "tree_sha": r["root"].decode(),
                             "parents": [p.decode() for p in r["parents"]]})
        # every reference object is served byte-identically
        seen = set()
        for rid in order:
            for path, obj in revs[rid]["objs"].items():
                if obj.id in seen:
                    continue
                seen.add(obj.id)
                ok, got = attempt(ctx, "serve", lambda: store[obj.id], {"revision": rid.decode(), "path": path, "type": obj.type_name.decode(), "oid": obj.id})
                if not ok:
                    continue
                ctx.count("a_object_served")
                ctx.check(got.type_name == obj.type_name and got.as_raw_string() == obj.as_raw_string(),
                          "serve:object-differs-from-scratch:%s" % obj.type_name.decode(),
                          "store[%s] for %s in %s is not the from-scratch object" % (obj.id.decode(), path, rid.decode()))
        # what a receiver lacking `have` must be sent
        if commit_sha:
            tip = rng.choice([r for r in order if r in commit_sha])
            from vf.checks._c35_hist import ancestry

            anc = ancestry(h, tip)
            cands = sorted(a for a in anc if a != tip and a in commit_sha)
            have = rng.choice(cands) if cands and rng.random() < 0.6 else None
            have_anc = ancestry(h, have) if have else set()
            need = set()
            for rid in anc - have_anc:
                need.update(o.id for o in revs[rid]["objs"].values())
                need.add(commit_sha.get(rid))
            for rid in have_anc:
                need.difference_update(o.id for o in revs[rid]["objs"].values())
            need.discard(None)
            ok, got = attempt(ctx, "find_missing_objects",
                              lambda: {oid for oid, _ in store.find_missing_objects([commit_sha[have]] if have else [], [commit_sha[tip]])})
            if ok:
                ctx.count("a_missing_objects_complete")
                ctx.hist("a:find_missing:" + ("with-have" if have else "no-have"))
                lack = need - got
                ctx.check(not lack, RENAMED_DIR_KEY if lack and lack <= _LIVE["suspect"] else "find_missing_objects:object-not-sent",
                          "%d objects reachable from %s and absent from %s are not enumerated" % (len(lack), tip.decode(), have and have.decode()),
                          {"missing": sorted(x.decode() for x in lack)[:10]})
        idmap_warm = store._cache.idmap
        # per revision through _tree_to_objects: empty id map, warm id map with swapped parents
        for rid in order:
            r = revs[rid]
            tree = repo.revision_tree(rid)
            ptrees = [repo.revision_tree(p) for p in r["parents"] if p in revs]
            variants = [("empty-map", DictGitShaMap(), ptrees)]
            if len(ptrees) > 1:
                variants.append(("swapped-warm", idmap_warm, list(reversed(ptrees))))
                variants.append(("swapped-empty", DictGitShaMap(), list(reversed(ptrees))))
            if ptrees and rng.random() < 0.3:
                variants.append(("no-parent-trees", DictGitShaMap(), []))
            for vname, idmap, pts in variants:
                ok, ys = attempt(ctx, vname, lambda: list(_tree_to_objects(tree, pts, idmap, {}, default_mapping.BZR_DUMMY_FILE)),
                                 {"revision": rid.decode()})
                if not ok:
                    continue
                root = None
                for path, obj, _key in ys:
                    ctx.count("a_yielded_object")
                    exp = r["objs"].get(path)
                    if exp is None or exp.id != obj.id:
                        ctx.fail("%s:yielded-object-differs-from-scratch:%s" % (vname, obj.type_name.decode()),
                                 "revision %s path %r: yielded %s, from scratch %s" % (rid.decode(), path, obj.id, exp and exp.id),
                                 {"revision": rid.decode(), "path": path})
                    if path == "":
                        root = obj.id
                if root is None:
                    # nothing changed against the base tree: the revision shares its base's root tree
                    base_rid = None
                    if pts:
                        base_rid = pts[0].get_revision_id()
                    root = revs[base_rid]["root"] if base_rid else ref_objects({})[0]
                    ctx.hist("a:%s:no-root-yielded" % vname)
                ctx.count("a_parents_swapped_tree" if vname.startswith("swapped") else "a_empty_map_tree" if vname == "empty-map" else "a_no_parent_trees")
                ctx.check(root == r["root"], "%s:tree-sha-differs-from-scratch" % vname,
                          "revision %s: %s gives %s, from scratch %s" % (rid.decode(), vname, root, r["root"]),
                          {"revision": rid.decode(), "paths": sorted(r["snap"])[:40]})
    # deleted on-disk cache, fresh objects, other schedule
    drop_git_cache(repo_path)
    repo = Repository.open(repo_path)
    store = BazaarObjectStore(repo)
    with store.lock_read():
        seq = list(order)
        rng.shuffle(seq)
        for rid in seq:
            ok, res = attempt(ctx, "deleted-cache", lambda: store_tree_sha(store, rid), {"revision": rid.decode()})
            if not ok:
                continue
            ctx.count("a_deleted_cache_tree")
            ctx.check(res[1] == revs[rid]["root"], "deleted-cache:tree-sha-differs-from-scratch",
                      "revision %s: store %s, from scratch %s" % (rid.decode(), res[1], revs[rid]["root"]))
            if rid in commit_sha:
                ctx.check(res[0] == commit_sha[rid], "deleted-cache:commit-sha-differs-from-warm",
                          "revision %s: %s after cache deletion, %s before" % (rid.decode(), res[0], commit_sha[rid]))
    return commit_sha


# ----------------------------------------------------------------------------- (b)

def build_git_origin(ctx, rng, h, revs, unusual):
    """Plain dulwich repository with one commit per recorded revision.  Returns (path, {rid: sha}, repo)."""
    from dulwich.objects import Commit
    from dulwich.repo import Repo

    gd = ctx.tmp("gitorigin")
    g = Repo.init_bare(gd)
    sha_of = {}
    tips = {}
    odd = {}
    for rid in h.order:
        r = revs[rid]
        rec = h.recorded[rid]
        modes = None
        if unusual:
            for p, v in sorted(r["snap"].items()):
                if v[0] == "file" and p not in odd and rng.random() < 0.15:
                    odd[p] = rng.choice([0o100664, 0o100600, 0o100775])
            modes = {p: m for p, m in odd.items() if p in r["snap"] and r["snap"][p][0] == "file"}
        root, objs = ref_objects(r["snap"], modes)
        for o in objs.values():
            g.object_store.add_object(o)
        c = Commit()
        c.tree = root
        c.parents = [sha_of[p] for p in rec["parents"] if p in sha_of]
        ident = rec["committer"].encode("utf-8")
        c.author = c.committer = ident
        c.commit_time = c.author_time = int(rec["timestamp"])
        c.commit_timezone = c.author_timezone = rec["timezone"]
        c.message = rec["message"].encode("utf-8")
        g.object_store.add_object(c)
        sha_of[rid] = c.id
        tips[rec["branch"]] = c.id
        r["git_root"] = root
        r["git_objs"] = objs
        r["git_modes"] = modes
    for name, sha in tips.items():
        g.refs[b"refs/heads/" + name.encode()] = sha
    g.refs.set_symbolic_ref(b"HEAD", b"refs/heads/b0")
    return gd, sha_of, g


def oracle_b(ctx, rng, h, revs):
    from breezy.controldir import ControlDir, format_registry
    from breezy.git.mapping import default_mapping
    from breezy.git.object_store import BazaarObjectStore
    from breezy.repository import Repository

    unusual = rng.random() < 0.1
    ctx.hist("b:unusual-modes:%s" % unusual)
    if unusual:
        ctx = OneKeyCtx(ctx, "git-import:unusual-file-modes")
    gd, sha_of, g = build_git_origin(ctx, rng, h, revs, unusual)
    fmt = rng.choice(LEGACY_TARGETS) if rng.random() < 0.12 else "2a"
    pfx = "" if fmt == "2a" else "legacy-target:"
    ctx.hist("b:target-format:" + fmt)
    td = ctx.tmp("imported")
    tcd = ControlDir.create(td, format=format_registry.make_controldir(fmt))
    tcd.create_repository()
    what = pfx + "import"

    steps = pick_steps(rng, h, h.order[:-1]) if len(h.order) > 2 else []
    count_steps(ctx, h, steps, "import")

    def do_import():
        for mid in steps:
            # fresh objects per step: what separate `brz pull` runs see (nothing cached from the step before)
            Repository.open(td).fetch(Repository.open(gd), revision_id=default_mapping.revision_id_foreign_to_bzr(sha_of[mid]))
        Repository.open(td).fetch(Repository.open(gd))

    ok, _ = attempt(ctx, what, do_import, {"format": fmt})
    if not ok:
        return
    for cold in (False, True):
        if cold:
            drop_git_cache(td)
        repo = Repository.open(td)
        if not cold:
            with repo.lock_read():
                if not storage_intact(ctx, repo, [default_mapping.revision_id_foreign_to_bzr(sha_of[r]) for r in h.order]):
                    g.close()
                    return
        store = BazaarObjectStore(repo)
        pre = "b_cold_" if cold else "b_"
        tag = pfx + ("git-origin-deleted-cache" if cold else "git-origin")
        with store.lock_read():
            seen = set()
            seq = list(h.order)
            if cold:
                rng.shuffle(seq)
            for rid in seq:
                r = revs[rid]
                gsha = sha_of[rid]
                brev = default_mapping.revision_id_foreign_to_bzr(gsha)
                if not ctx.check(repo.has_revision(brev), legacy_key("%s:commit-not-imported" % tag), "commit %s of %s absent after fetch" % (gsha, rid.decode())):
                    continue
                ok, c = attempt(ctx, tag + ":commit", lambda: store[gsha], {"revision": rid.decode()})
                if ok:
                    ctx.count(pre + "commit_sha")
                    ctx.check(c.as_raw_string() == g[gsha].as_raw_string(), legacy_key("%s:commit-bytes-differ" % tag),
                              "commit %s re-exported as %r, original %r" % (gsha, c.as_raw_string()[:300], g[gsha].as_raw_string()[:300]))
                ok, recs = attempt(ctx, tag + ":lookup", lambda: list(store.lookup_git_sha(gsha)))
                if ok:
                    trees = [d[1] for k, d in recs if k == "commit"]
                    ctx.check(trees and all(t == r["git_root"] for t in trees), legacy_key("%s:recorded-tree-sha-differs" % tag),
                              "commit %s: sha map has tree %r, original %s" % (gsha, trees, r["git_root"]))
                for path, obj in r["git_objs"].items():
                    if obj.id in seen:
                        continue
                    seen.add(obj.id)
                    ok, got = attempt(ctx, tag + ":serve", lambda: store[obj.id], {"revision": rid.decode(), "path": path,
                                                                                   "type": obj.type_name.decode(), "modes": repr(r["git_modes"])})
                    if not ok:
                        continue
                    ctx.count(pre + "object_served")
                    ctx.check(got.as_raw_string() == obj.as_raw_string(), legacy_key("%s:object-bytes-differ:%s" % (tag, obj.type_name.decode())),
                              "object %s (%r in %s) re-exported differently" % (obj.id.decode(), path, rid.decode()),
                              {"modes": repr(r["git_modes"])})
                if not cold:
                    ok, snap = attempt(ctx, pfx + "git-origin:tree", lambda: snapshot(repo.revision_tree(brev)))
                    if ok:
                        ctx.count("b_tree_equal")
                        ctx.check(snap == prune_empty(r["snap"]), legacy_key(pfx + "git-origin:imported-tree-differs"),
                                  "imported tree of %s differs from the model" % rid.decode(),
                                  {"diff": sorted(map(repr, set(snap.items()) ^ set(prune_empty(r["snap"]).items())))[:8], "format": fmt})
                    ctx.note((sorted(r["snap"].items()), [sorted(revs[p]["snap"].items()) for p in r["parents"] if p in revs], "b"),
                             nontrivial=nontrivial(r["snap"], r["parents"]),
                             sample={"oracle": "b", "revision": rid.decode(), "git_commit": gsha.decode(), "paths": sorted(r["snap"])[:12]})
    # pushing git-origin revisions into a fresh git repository reproduces the ids
    from breezy import errors
    from breezy.branch import Branch
    from dulwich.repo import Repo

    def repush():
        bd = ctx.tmp("imported-branch")
        gb = Branch.open(gd)  # refs/heads/b0 through HEAD
        nb = ControlDir.create_branch_convenience(bd, format=format_registry.make_controldir("2a"))
        nb.pull(gb)
        out = ctx.tmp("regit")
        cd = ControlDir.create(out, format=format_registry.make_controldir("git-bare"))
        cd.create_repository()
        ob = cd.create_branch()
        try:
            Branch.open(bd).push(ob, lossy=False)
            ctx.hist("b:round-tripping-push:accepted")
        except errors.NoRoundtrippingSupport:
            # documented refusal: the shipped mappings are not round-tripping ("Try dpush instead")
            ctx.hist("b:round-tripping-push:refused:NoRoundtrippingSupport")
            Branch.open(bd).push(ob, lossy=True)
        return Repo(out)

    if unusual:
        g.close()
        return
    ok, g2 = attempt(ctx, "git-origin:push", repush)
    if ok:
        ctx.count("b_push_reproduces_ids")
        head = g.refs[b"refs/heads/b0"]
        got = g2.refs.as_dict().get(b"refs/heads/master") or g2.refs.as_dict().get(b"HEAD")
        ctx.check(got == head, "git-origin:push:head-differs", "pushed head %r, original %r" % (got, head))
        if got == head:
            todo, seen = [head], set()
            while todo:
                s = todo.pop()
                if s in seen:
                    continue
                seen.add(s)
                if not ctx.check(s in g2.object_store, "git-origin:push:object-missing", "object %s absent from push target" % s):
                    continue
                o = g2[s]
                if o.type_name == b"commit":
                    todo.extend(o.parents)
                    todo.append(o.tree)
                elif o.type_name == b"tree":
                    todo.extend(sha for _n, _m, sha in o.iteritems())
        g2.close()
    g.close()


# ----------------------------------------------------------------------------- (c)

def oracle_c(ctx, rng, h, revs):
    from breezy import errors
    from breezy.branch import Branch
    from breezy.controldir import ControlDir, format_registry
    from breezy.repository import Repository
    from dulwich.repo import Repo
    from vf.checks._c35_hist import ancestry

    gd = ctx.tmp("pushed")
    cd = ControlDir.create(gd, format=format_registry.make_controldir(rng.choice(["git-bare", "git-bare", "git"])))
    cd.create_repository()
    mapped = {}
    names = sorted(h.trees)
    rng.shuffle(names)
    for i, name in enumerate(names[:2] if ctx.tier == "quick" else names):
        src = Branch.open(h.trees[name])
        if src.last_revision() == b"null:":
            continue
        gb = cd.create_branch() if i == 0 else cd.create_branch(name=name)
        try:
            src.push(gb, lossy=False)
            ctx.fail("push:non-lossy-native-accepted", "non-lossy push of native revisions with the non-roundtripping default mapping succeeded")
        except errors.NoRoundtrippingSupport:
            ctx.hist("c:refused:NoRoundtrippingSupport")
        mine = [r for r in h.order if h.recorded[r]["branch"] == name]
        steps = [None]
        if len(mine) > 1 and rng.random() < 0.5:
            steps = [rng.choice(mine[:-1]), None]
            tip_anc = ancestry(h, src.last_revision())
            splits = [a for a, m in merge_splits(h, tip_anc) if a not in mapped]
            if splits and rng.random() < 0.6:
                steps = [rng.choice(sorted(splits)), None]
                ctx.hist("c:push:stop-at-first-parent-of-merge")
        if rng.random() < 0.5:
            drop_git_cache(h.trees[name])
        for stop in steps:
            ctx.hist("c:push:%s" % ("partial" if stop else "tip"))
            ok, res = attempt(ctx, "dpush", lambda: Branch.open(h.trees[name]).push(gb, lossy=True, stop_revision=stop), {"branch": name})
            if not ok:
                break
            for old, (sha, new) in res.revidmap.items():
                if old in mapped:
                    ctx.check(mapped[old] == (sha, new), "dpush:revision-mapped-to-two-commits", "%s -> %r and %r" % (old.decode(), mapped[old], (sha, new)))
                mapped[old] = (sha, new)
            want_tip = stop or src.last_revision()
            ctx.check(want_tip in mapped, "dpush:tip-not-in-revidmap", "pushed %s but the revision map does not mention it" % want_tip.decode())
    if not mapped:
        return
    g = Repo(gd)
    checked = set()
    for old in h.order:
        if old not in mapped:
            continue
        sha, new = mapped[old]
        r = revs[old]
        if not ctx.check(sha in g.object_store, "dpush:commit-missing-in-git", "commit %s for %s is not in the git repository" % (sha, old.decode())):
            continue
        c = g[sha]
        ctx.count("c_git_commit_tree")
        ctx.check(c.tree == r["root"], "dpush:tree-sha-differs-from-scratch", "revision %s pushed with tree %s, from scratch %s" % (old.decode(), c.tree, r["root"]),
                  {"paths": sorted(r["snap"])[:40]})
        want = [mapped[p][0] for p in r["parents"] if p in mapped]
        ctx.check(list(c.parents) == want, "dpush:commit-parents", "revision %s: git parents %r, expected %r" % (old.decode(), c.parents, want))
        todo = [c.tree]
        while todo:
            s = todo.pop()
            if s in checked:
                continue
            checked.add(s)
            if s not in g.object_store:
                _LIVE["incomplete_git"] = True
                ctx.fail(missing_key("dpush:object-missing-in-git", s), "object %s reachable from %s (%s) was not pushed" % (s, sha, old.decode()))
                continue
            o = g[s]
            if o.type_name == b"tree":
                todo.extend(x for _n, _m, x in o.iteritems())
    g.close()
    # fetch back
    fmt = rng.choice(LEGACY_TARGETS) if rng.random() < 0.12 else "2a"
    pfx = "" if fmt == "2a" else "legacy-target:"
    ctx.hist("c:fetch-back-format:" + fmt)
    td = ctx.tmp("back")
    ControlDir.create(td, format=format_registry.make_controldir(fmt)).create_repository()
    pushed = [o for o in h.order if o in mapped]
    back_steps = pick_steps(rng, h, pushed[:-1], among=set(pushed)) if len(pushed) > 2 else []
    count_steps(ctx, h, back_steps, "fetch_back", among=set(pushed))

    def fetch_back():
        for mid in back_steps:
            Repository.open(td).fetch(Repository.open(gd), revision_id=mapped[mid][1])
        Repository.open(td).fetch(Repository.open(gd))

    ok, _ = attempt(ctx, pfx + "fetch-back", fetch_back, {"format": fmt, "steps": [m.decode() for m in back_steps]})
    if not ok:
        return
    back = Repository.open(td)
    with back.lock_read():
        if not storage_intact(ctx, back, [mapped[o][1] for o in h.order if o in mapped]):
            return
        for old in h.order:
            if old not in mapped:
                continue
            new = mapped[old][1]
            if not ctx.check(back.has_revision(new), legacy_key(pfx + "fetch-back:revision-missing"), "%s (for %s) absent after fetching the git repository" % (new, old.decode())):
                continue
            ok, snap = attempt(ctx, pfx + "fetch-back:tree", lambda: snapshot(back.revision_tree(new)))
            if not ok:
                continue
            ctx.count("c_fetched_back_tree")
            exp = prune_empty(revs[old]["snap"])
            ctx.check(snap == exp, legacy_key(pfx + "fetch-back:tree-differs"),
                      "tree of %s after push + fetch differs from the original minus empty directories" % old.decode(),
                      {"diff": sorted(map(repr, set(snap.items()) ^ set(exp.items())))[:8], "format": fmt})
            ctx.note((sorted(revs[old]["snap"].items()), [sorted(revs[p]["snap"].items()) for p in revs[old]["parents"] if p in revs], "c"),
                     nontrivial=nontrivial(revs[old]["snap"], revs[old]["parents"]),
                     sample={"oracle": "c", "revision": old.decode(), "git_commit": mapped[old][0].decode(), "paths": sorted(exp)[:12]})


# ----------------------------------------------------------------------------- case

def blob_bytes(v):
    return v[1] if v[0] == "file" else v[1].encode("utf-8") if v[0] == "symlink" else None


def workload_shape(ctx, base, r, old):
    """Counts the revision shapes the export / import shortcuts are sensitive to (workload counters, no verdict):
    a path that another entry occupied in the base revision (vacated and re-occupied in one revision), and an entry
    that changed kind between file and symlink while the bytes git stores for it stayed the same."""
    for path, fid in r["ids"].items():
        v = r["snap"][path]
        bfid = base["ids"].get(path)
        if bfid is not None and bfid != fid:
            was = old.get(fid)
            if was is None:
                how = "new"
            else:
                same = v[0] != "directory" and base["snap"][was] == v
                if v[0] == "directory":
                    sub = {q[len(path):]: (w, r["ids"][q]) for q, w in r["snap"].items() if q.startswith(path + "/")}
                    bsub = {q[len(was):]: (w, base["ids"][q]) for q, w in base["snap"].items() if q.startswith(was + "/")}
                    same = sub == bsub
                how = "moved-unchanged" if same else "moved-changed"
            gone = bfid not in r["ids"].values()
            ctx.hist("shape:path-taken-over:%s:%s:%s" % (v[0], how, "previous-removed" if gone else "previous-moved"))
            ctx.count("w_path_taken_over")
            if v[0] == "directory" and how == "moved-unchanged" and gone and prune_empty({"x": v, **{"x" + k: w[0] for k, w in sub.items()}}).get("x"):
                ctx.count("w_untouched_directory_onto_removed_path")
        bpath = old.get(fid)
        if bpath is not None:
            bv = base["snap"][bpath]
            if bv[0] != v[0] and {bv[0], v[0]} == {"file", "symlink"} and blob_bytes(bv) == blob_bytes(v):
                ctx.hist("shape:kind-change-same-blob:%s->%s%s" % (bv[0], v[0], ":exec" if (bv[2] or v[2]) else ""))
                ctx.count("w_kind_change_same_blob")



def case(ctx):
    from vf.checks import _c35_hist as H
    from vf.observe import snap_tree, strip_ids

    from vf import gen

    gen._uniq[0] = 0  # content markers restart per case: a case replays alone exactly as it ran inside a shard
    rng = ctx.rng
    thorough = ctx.tier != "quick"
    fmt = rng.choice(FORMATS)
    nrevs = rng.randint(3, 8) if not thorough else rng.randint(3, 20)
    names = H.GitNames(ctx.tier)
    weights = H.WEIGHTS_KC if rng.random() < 0.4 else H.WEIGHTS
    try:
        h = H.build(ctx, rng, fmt, nrevs=nrevs, nbranches=3 if not thorough else 4, names=names, weights=weights,
                    extra_kinds=H.EXTRA_KINDS + H.REUSE_KINDS * 2, start=H.rich_start if rng.random() < 0.75 else None, quiet=0.3,
                    ours=0.3, merge_rate=0.7)
        repo = H.gather(h)
    except Exception as e:  # workload construction, not the operation under test
        ctx.discard("history-construction:%s" % type(e).__name__)
    ctx.hist("format:" + fmt)
    ctx.info["log"] = h.log[-60:]
    ctx.info["format"] = fmt
    revs = {}
    with repo.lock_read():
        for rid in h.order:
            full = snap_tree(repo.revision_tree(rid))
            snap = strip_ids(full)
            root, objs = ref_objects(snap)
            revs[rid] = {"snap": snap, "parents": list(h.recorded[rid]["parents"]), "root": root, "objs": objs,
                         "ids": {p: v[3] for p, v in full.items()}}
            for v in snap.values():
                ctx.hist("entry:" + ("exec-file" if v[0] == "file" and v[2] else v[0]))
            if prune_empty(snap) != snap:
                ctx.hist("tree:has-empty-directory")
    for e in h.log:
        if "extra" in e:
            ctx.hist("extra:%s" % e["extra"])
    suspect = set()
    for rid in h.order:
        r = revs[rid]
        p0 = r["parents"][0] if r["parents"] and r["parents"][0] in revs else None
        if p0 is None:
            continue
        old = {fid: p for p, fid in revs[p0]["ids"].items()}
        workload_shape(ctx, revs[p0], r, old)
        others = [p for p in r["parents"][1:] if p in revs]
        if others:
            same0 = r["root"] == revs[p0]["root"]
            same_other = any(r["root"] == revs[p]["root"] for p in others)
            ctx.hist("shape:merge:git-tree-%s" % ("of-every-parent" if same0 and same_other else "of-first-parent" if same0 else
                                                  "of-other-parent" if same_other else "own"))
            if same0 and not same_other:
                ctx.count("w_merge_keeps_first_parent_tree")
        for path, obj in r["objs"].items():
            if path and obj.type_name == b"tree" and old.get(r["ids"].get(path), path) != path:
                suspect.add(obj.id)
    cwd = os.getcwd()
    os.chdir(ctx.tmp("cwd"))
    _LIVE["ctx"] = ctx
    _LIVE["basis_mutated"] = False
    _LIVE["suspect"] = frozenset(suspect)
    _LIVE["incomplete_git"] = False
    try:
        oracle_a(ctx, rng, h, h.trees["b0"], revs)
        oracle_c(ctx, rng, h, revs)
        oracle_b(ctx, rng, h, revs)
    finally:
        _LIVE["ctx"] = None
        os.chdir(cwd)
