"""C36 - git identifier mappings round-trip.

Inverse-pair law monitors on the REAL conversion functions, fed from bounded grammars that
contain the escape characters of each layer, plus an end-to-end monitor of
GitBranch.set_parent(url) / get_parent() on a real git control directory:

  file_id_escape   unescape_file_id(escape_file_id(b)) == b ; the escaped form has no ' ' / FF
  file_id_path     parse_file_id(generate_file_id(p)) == p for str and bytes paths (non-UTF-8 too)
  revid            revision_id_bzr_to_foreign(revision_id_foreign_to_bzr(sha)) == (sha, mapping),
                   for both registered mappings, class method and registry entry point
  branch_ref       ref_to_branch_name(branch_name_to_ref(n)) == n   (n not starting with 'refs/')
                   and branch_name_to_ref(ref_to_branch_name(r)) == r for r = HEAD | refs/heads/<utf8>
  tag_ref          ref_to_tag_name(tag_name_to_ref(n)) == n and back
  ref_name         starting from the REF (bytes, leaf from a byte grammar with the escape characters and byte
                   sequences that are not UTF-8): ref_to_{branch,tag}_name(r) either refuses r with ValueError
                   (r has no name: outside the domain) or returns a str that *_name_to_ref maps back to r
  url              bzr_url_to_git_url(git_url_to_bzr_url(u, branch|ref)) == (L, branch, ref) (any bytes ref is
                   accepted; one that has no branch name must come back denoting the same ref) with
                   L = git_url_to_bzr_url(u); branch/ref compared after ONE unquote (the converter hands
                   back the segment parameter still quoted); L follows the documented scheme table
  parent           set_parent(url) ; fresh open ; get_parent() denotes the same repository location and
                   the same target ref; the value stored in git's config is the ref itself.  The git config
                   the branch lives in is drawn too: branch.<name>.remote (non-default upstream remote),
                   branch.<name>.pushRemote / a [branch] remote default naming ANOTHER remote (triangular
                   workflow, that remote with or without a url), a remote.origin.url left by an earlier clone
"""
import itertools
import os

ID = "C36"
LEVEL = "exploration"
TECHNIQUE = ("inverse-pair law monitors on the real mapping/refs/urls functions (fresh _git_rs) + "
             "end-to-end set_parent/get_parent monitor on real git control dirs")
LEVEL_TEXT = ("all byte strings of <= K bytes over the 8 escape-relevant bytes (K=4 quick, 5 thorough) and seeded "
              "random inputs from per-layer grammars (paths incl. non-UTF-8, SHAs, branch/tag names with / % , = "
              "unicode, URLs in scp/ssh/git+ssh/https/http/git/ftp/file/path forms with ~, spaces, ports, users)")
RULE = ("case i takes the exhaustive escape strings with index = i mod CASES and N random inputs per layer; "
        "one evaluation = one composed conversion judged; non-trivial = input contains at least one character that "
        "the layer escapes/translates (or any SHA / parent case); distinct = distinct (layer, input)")
CASES = {"quick": 128, "thorough": 1024}
BUDGET_S = {"quick": 45, "thorough": 700}
MIN_EVALS = {"quick": 20000, "thorough": 600000}
FLOORS = {
    "quick": {"file_id_escape": 5000, "file_id_path": 3000, "revid": 2000, "branch_ref": 2500, "tag_ref": 2500,
              "ref_name": 4000, "ref_name_named": 1500, "ref_name_refused": 500, "url_with_unnameable_head_ref": 100,
              "url": 4000, "url_with_ref": 800, "url_with_branch": 800, "parent": 600, "parent_with_target": 300,
              "parent_push_remote_differs": 150, "parent_upstream_remote_not_origin": 80},
    "thorough": {"file_id_escape": 100000, "file_id_path": 80000, "revid": 60000, "branch_ref": 80000, "tag_ref": 80000,
                 "ref_name": 100000, "ref_name_named": 40000, "ref_name_refused": 10000,
                 "url_with_unnameable_head_ref": 2000,
                 "url": 100000, "url_with_ref": 20000, "url_with_branch": 20000, "parent": 10000, "parent_with_target": 5000,
                 "parent_push_remote_differs": 2500, "parent_upstream_remote_not_origin": 1200},
}
RUST = ["breezy._git_rs"]
EXHAUSTIVE = {"quick": False, "thorough": False}
ASSUMPTIONS = [
    "branch names starting with 'refs/' are outside the inverse-pair domain (documented pass-through of branch_name_to_ref)",
    "a ref that ref_to_branch_name / ref_to_tag_name refuses with ValueError (not under the prefix, or leaf not "
    "valid UTF-8: branch and tag names are str) has no name and is outside the ref->name->ref pair; every ref that "
    "IS given a name must map back to itself.  Such a ref is still a legal ref= argument / parent target and must "
    "come back denoting the same ref",
    "refs refs/heads/refs/... are outside the ref->name->ref pair (their name starts with 'refs/', see above)",
    "URL equality for the location part is judged against the documented scheme table (known git schemes unchanged, "
    "ssh -> git+ssh, scp-style -> git+ssh://[user@]host/path, anything else unchanged)",
    "URLs do not contain ',' in their path (that is breezy's own segment-parameter syntax)",
    "parent equivalence = same location after stripping a trailing '/', same effective target ref "
    "(ref parameter, else refs/heads/<branch parameter>, else HEAD)",
    "the parent read back does not depend on where the branch PUSHES: remotes named by branch.<name>.pushRemote or by a "
    "[branch] remote default are configuration of the push location only; which remote section set_parent writes to is "
    "not judged (only recorded)",
]

ESC = (b"_", b" ", b"\x0c", b"/", b"a", b"s", b"c", b"\xff")
ZERO = b"0" * 40


# ------------------------------------------------------------------ generators

def esc_strings(maxlen):
    for n in range(maxlen + 1):
        for t in itertools.product(ESC, repeat=n):
            yield b"".join(t)


SEGS = (b"a", b"src", b"_", b"__", b"_s", b"_c", b" ", b"a b", b"\x0c", b"x\x0cy", "é".encode(), "日本".encode(),
        b"\xff\xfe", b"caf\xe9", b"TREE_ROOT", b"git:", b".bzrdummy", b"s_", b"c", b"s")


def gen_path(rng):
    n = rng.choice((1, 1, 2, 2, 3, 4))
    return b"/".join(rng.choice(SEGS) for _ in range(n))


NAME_PIECES = ("a", "feature", "x", "é", "日本", "/", "/", "HEAD", "refs", "heads", "tags", "%", "%2F", "%25", ",", "=",
               "-", " ", ".", "_", "master", "1.0", "@", "+", "~", "^", ":", "\\", "ß")


def gen_name(rng):
    n = rng.choice((1, 1, 2, 3, 4, 5))
    return "".join(rng.choice(NAME_PIECES) for _ in range(n))


HOSTS = ("h", "example.com", "git.example.org", "10.0.0.1", "host-1")
USERS = (None, None, "u", "git", "jane.doe")
PSEGS = ("repo.git", "p", "a", "proj", "x-y", "_z", "~user", "%7Euser", "a%20b", "caf%C3%A9", "v1.0", "=x")
RAWSEGS = ("repo.git", "p", "a b", "~user", "é", "x%y", "proj", "q=r", "tab\there")
SCHEMES = ("git+ssh", "git", "http", "https", "ftp", "ssh")


def gen_url(rng):
    """Returns (kind, url, expected_location or None, parts) - expected per the documented scheme table."""
    from breezy import urlutils

    kind = rng.choice(("scheme", "scheme", "scheme", "scp", "scp", "file", "abspath", "relpath", "chroot"))
    if kind == "scheme":
        sch = rng.choice(SCHEMES)
        user = rng.choice(USERS)
        host = rng.choice(HOSTS)
        port = rng.choice((None, None, None, 22, 2222, 8080))
        path = "/" + "/".join(rng.choice(PSEGS) for _ in range(rng.randint(1, 3)))
        if rng.random() < 0.15:
            path = "/~" + path[1:].lstrip("~")
        if rng.random() < 0.1:
            path += "/"
        rest = "%s%s%s%s" % (user + "@" if user else "", host, ":%d" % port if port else "", path)
        u = "%s://%s" % (sch, rest)
        exp = "%s://%s" % ("git+ssh" if sch == "ssh" else sch, rest)
        return "scheme:" + sch, u, exp
    if kind == "scp":
        user = rng.choice(USERS)
        host = rng.choice(HOSTS)
        path = "/".join(rng.choice(RAWSEGS) for _ in range(rng.randint(1, 3)))
        if rng.random() < 0.3:
            path = "/" + path
        u = "%s%s:%s" % (user + "@" if user else "", host, path)
        qp = urlutils.quote(path, safe="/~")
        exp = "git+ssh://%s%s%s" % (urlutils.quote(user) + "@" if user else "", host, qp if qp.startswith("/") else "/" + qp)
        return "scp", u, exp
    path = "/".join(rng.choice(PSEGS) for _ in range(rng.randint(1, 3)))
    if kind == "file":
        u = "file:///" + path
    elif kind == "abspath":
        u = "/" + path
    elif kind == "relpath":
        u = rng.choice(("../", "./", "../../", "")) + path
        if ":" in u:
            u = "./" + u
    else:
        u = "chroot-%d:///%s" % (rng.randint(1, 99999), path)
    return kind, u, u


LEAF_PIECES = (b"a", b"feature", b"x", b"_", b"%", b"%2F", b"%FF", b",", b"=", b" ", b"/", b"/", b"-", b".", b"@", b"+",
               b"HEAD", b"refs", b"heads", b"tags", b"1.0", "\u00e9".encode(), "\u65e5\u672c".encode(), "\u00df".encode(),
               "\U0001f600".encode())
# byte sequences that are not UTF-8: lone lead / continuation bytes, latin-1, overlong, CESU surrogate, > U+10FFFF
BAD_PIECES = (b"\xff", b"\xfe", b"\xe9", b"caf\xe9", b"\xc3", b"\x80", b"\xc0\xaf", b"\xed\xb3\xbf", b"\xf5\x80\x80\x80",
              b"\xe6\x97")


def _is_utf8(b):
    try:
        b.decode("utf-8")
        return True
    except UnicodeDecodeError:
        return False


def gen_leaf(rng, bad):
    """A ref leaf (bytes, no leading/trailing/double '/'); bad => guaranteed not to be valid UTF-8."""
    while True:
        n = rng.choice((1, 1, 2, 3, 4))
        parts = [rng.choice(LEAF_PIECES) for _ in range(n)]
        if bad:
            parts.insert(rng.randint(0, len(parts)), rng.choice(BAD_PIECES))
            if rng.random() < 0.3:
                parts = [p for p in parts if p in BAD_PIECES]
        leaf = b"".join(parts).strip(b"/")
        while b"//" in leaf:
            leaf = leaf.replace(b"//", b"/")
        if leaf and (not bad or not _is_utf8(leaf)):
            return leaf


def gen_ref(rng):
    """A ref (bytes) for the ref= parameter, and its class."""
    k = rng.choice(("tag", "tag", "head", "remote", "other", "nonutf8", "nonutf8-head", "HEAD", "pull"))
    if k == "HEAD":
        return k, b"HEAD"
    if k == "nonutf8":
        return k, rng.choice((b"refs/tags/", b"refs/tags/", b"refs/notes/", b"refs/remotes/origin/")) + gen_leaf(rng, True)
    if k == "nonutf8-head":
        return k, b"refs/heads/" + gen_leaf(rng, True)
    name = gen_name(rng).strip("/") or "x"
    pre = {"tag": "refs/tags/", "head": "refs/heads/", "remote": "refs/remotes/origin/", "other": "refs/notes/",
           "pull": "refs/pull/"}[k]
    return k, (pre + name).encode("utf-8")


# ------------------------------------------------------------------ monitors

def m_escape(ctx, b):
    from breezy.git.mapping import escape_file_id, unescape_file_id

    ctx.count("file_id_escape")
    e = escape_file_id(b)
    try:
        back = unescape_file_id(e)
    except ValueError as x:
        ctx.fail("file_id:unescape-rejects-escaped", "%r -> %r -> %r" % (b, e, x), {"input": repr(b)})
        back = None
    if back is not None:
        ctx.check(back == b, "file_id:escape-not-inverse", "%r -> %r -> %r" % (b, e, back), {"input": repr(b)})
    ctx.check(b" " not in e and b"\x0c" not in e, "file_id:escaped-form-contains-separator", "%r -> %r" % (b, e), {"input": repr(b)})
    ctx.note(("esc", repr(b)), nontrivial=any(c in b for c in b"_ \x0c"))


def m_path(ctx, mapping, p):
    from breezy.git.mapping import decode_git_path

    s = decode_git_path(p)
    for form, arg in (("bytes", p), ("str", s)):
        ctx.count("file_id_path")
        fid = mapping.generate_file_id(arg)
        d = {"path": repr(p), "form": form, "file_id": repr(fid)}
        if not ctx.check(isinstance(fid, bytes), "file_id:not-bytes", repr(fid), d):
            continue
        back = mapping.parse_file_id(fid)
        ctx.check(back == s, "file_id:path-not-inverse", "%r -> %r -> %r" % (arg, fid, back), d)
        ctx.check(b" " not in fid and b"\x0c" not in fid, "file_id:contains-separator", repr(fid), d)
    ctx.check(mapping.generate_file_id(p) == mapping.generate_file_id(s), "file_id:str-bytes-differ", repr(p), {"path": repr(p)})
    try:
        p.decode("utf-8")
        ctx.hist("path:utf8")
    except UnicodeDecodeError:
        ctx.hist("path:non-utf8")
    ctx.note(("path", repr(p)), nontrivial=any(c in p for c in b"_ \x0c") or p != s.encode("utf-8", "replace"))


def m_revid(ctx, sha):
    from breezy.git.mapping import BzrGitMappingExperimental, BzrGitMappingv1, mapping_registry
    from breezy.revision import NULL_REVISION

    for cls in (BzrGitMappingv1, BzrGitMappingExperimental):
        ctx.count("revid")
        m = cls()
        d = {"sha": sha.decode(), "mapping": cls.__name__}
        rid = m.revision_id_foreign_to_bzr(sha)
        if sha == ZERO:
            ctx.check(rid == NULL_REVISION, "revid:zero-sha-not-null", repr(rid), d)
            back = mapping_registry.revision_id_bzr_to_foreign(rid)
            ctx.check(back == (ZERO, None), "revid:null-not-zero-sha", repr(back), d)
            continue
        ctx.check(isinstance(rid, bytes) and rid.startswith(cls.revid_prefix + b":"), "revid:prefix", repr(rid), d)
        for entry, fn in (("mapping", m.revision_id_bzr_to_foreign), ("class", cls.revision_id_bzr_to_foreign),
                          ("registry", mapping_registry.revision_id_bzr_to_foreign),
                          ("registry.parse", mapping_registry.parse_revision_id)):
            back = fn(rid)
            ctx.check(back[0] == sha and type(back[1]) is cls and back[1] == m, "revid:not-inverse:" + entry,
                      "%r -> %r -> %r" % (sha, rid, back), d)
        other = BzrGitMappingExperimental if cls is BzrGitMappingv1 else BzrGitMappingv1
        try:
            other.revision_id_bzr_to_foreign(rid)
            ctx.fail("revid:foreign-prefix-accepted", "%s accepted %r" % (other.__name__, rid), d)
        except Exception as e:
            ctx.hist("revid:other-mapping-rejects:" + type(e).__name__)
    ctx.note(("sha", sha.decode()))


def m_branch_name(ctx, n):
    from breezy.git.refs import branch_name_to_ref, ref_to_branch_name

    if n.startswith("refs/"):
        ctx.hist("branch_ref:out-of-domain:refs/-prefix")
        return
    ctx.count("branch_ref")
    d = {"name": n}
    r = branch_name_to_ref(n)
    if not ctx.check(isinstance(r, bytes), "refs:branch-ref-not-bytes", repr(r), d):
        return
    back = ref_to_branch_name(r)
    ctx.check(back == n, "refs:branch-name-not-inverse", "%r -> %r -> %r" % (n, r, back), d)
    ctx.check(r == b"HEAD" if n == "" else r == b"refs/heads/" + n.encode("utf-8"), "refs:branch-ref-shape", repr(r), d)
    # the other direction, from the ref
    r2 = b"HEAD" if n == "" else b"refs/heads/" + n.encode("utf-8")
    n2 = ref_to_branch_name(r2)
    if n2.startswith("refs/"):
        ctx.hist("branch_ref:out-of-domain:refs/-prefix")
    else:
        ctx.check(branch_name_to_ref(n2) == r2, "refs:ref-branch-ref-not-inverse", "%r -> %r -> %r" % (r2, n2, branch_name_to_ref(n2)), d)
    ctx.note(("branch", n), nontrivial=(n == "" or any(c in n for c in "/%,= ") or not n.isascii()))


def m_tag_name(ctx, n):
    from breezy.git.refs import ref_to_tag_name, tag_name_to_ref

    ctx.count("tag_ref")
    d = {"name": n}
    r = tag_name_to_ref(n)
    if not ctx.check(isinstance(r, bytes) and r == b"refs/tags/" + n.encode("utf-8"), "refs:tag-ref-shape", repr(r), d):
        return
    back = ref_to_tag_name(r)
    ctx.check(back == n, "refs:tag-name-not-inverse", "%r -> %r -> %r" % (n, r, back), d)
    ctx.check(tag_name_to_ref(back) == r, "refs:ref-tag-ref-not-inverse", repr(r), d)
    ctx.note(("tag", n), nontrivial=(any(c in n for c in "/%,= ") or not n.isascii() or n.startswith("refs")))


def m_ref_name(ctx, kind, ref):
    """Starting from the ref: a ref either has no name (ValueError) or its name maps back to it."""
    from breezy.git import refs as R

    to_name, to_ref = ((R.ref_to_branch_name, R.branch_name_to_ref) if kind == "branch"
                       else (R.ref_to_tag_name, R.tag_name_to_ref))
    prefix = b"refs/heads/" if kind == "branch" else b"refs/tags/"
    ctx.count("ref_name")
    utf8 = _is_utf8(ref)
    d = {"ref": repr(ref), "kind": kind, "utf8": utf8}
    sig = ("ref", kind, repr(ref))
    try:
        name = to_name(ref)
    except ValueError as e:
        # no name for this ref.  Every UTF-8 ref under the prefix has one.
        ctx.count("ref_name_refused")
        ctx.hist("ref_name:%s:refused:%s:%s" % (kind, "utf8" if utf8 else "non-utf8", type(e).__name__))
        ctx.check(not (utf8 and (ref.startswith(prefix) or (kind == "branch" and ref == b"HEAD"))),
                  "refs:utf8-ref-refused:" + kind, "%s(%r) raised %r" % (to_name.__name__, ref, e), d)
        ctx.note(sig, nontrivial=not utf8)
        return
    ctx.count("ref_name_named")
    ctx.hist("ref_name:%s:named:%s" % (kind, "utf8" if utf8 else "non-utf8"))
    if not ctx.check(isinstance(name, str), "refs:name-of-ref-not-str:" + kind, repr(name), d):
        return
    d["name"] = ascii(name)
    if kind == "branch" and name.startswith("refs/"):
        ctx.hist("branch_ref:out-of-domain:refs/-prefix")
        return
    try:
        back = to_ref(name)
    except Exception as e:
        ctx.fail("refs:name-of-ref-cannot-map-back:" + kind,
                 "%s(%r) = %a but %s raises %r" % (to_name.__name__, ref, name, to_ref.__name__, e), d)
        return
    ctx.check(back == ref, "refs:ref-%s-ref-not-inverse" % kind, "%r -> %a -> %r" % (ref, name, back), d)
    ctx.note(sig, nontrivial=(not utf8 or not ref.isascii() or any(c in ref[len(prefix):] for c in b"/%,= ")))


def gen_any_ref(rng, kind):
    prefix = b"refs/heads/" if kind == "branch" else b"refs/tags/"
    x = rng.random()
    if x < 0.45:
        return prefix + gen_leaf(rng, False)
    if x < 0.9:
        return prefix + gen_leaf(rng, True)
    if x < 0.93 and kind == "branch":
        return b"HEAD"
    # not under this converter's prefix: documented ValueError
    return rng.choice((b"refs/notes/", b"refs/remotes/origin/", b"refs/tags/" if kind == "branch" else b"refs/heads/",
                       b"refs/head/", b"")) + gen_leaf(rng, rng.random() < 0.5)


def effective_ref(branch_q, ref_q):
    """Target ref denoted by (still quoted) branch / ref segment parameter values."""
    from breezy import urlutils

    if ref_q is not None:
        return urlutils.unquote_to_bytes(ref_q)
    if branch_q:
        return b"refs/heads/" + urlutils.unescape(branch_q).encode("utf-8")
    return b"HEAD"


def m_url(ctx, rng):
    from breezy import urlutils
    from breezy.git.urls import bzr_url_to_git_url, git_url_to_bzr_url

    kind, u, exp = gen_url(rng)
    mode = rng.choice(("none", "branch", "branch", "ref", "ref"))
    kw, want_branch, want_ref, want_eff = {}, None, None, None
    if mode == "branch":
        b = gen_name(rng)
        if b.startswith("refs/"):
            b = "x" + b
        kw["branch"] = b
        want_branch = b or None
    elif mode == "ref":
        rk, r = gen_ref(rng)
        kw["ref"] = r
        if r == b"HEAD":
            pass
        elif r.startswith(b"refs/heads/") and _is_utf8(r):
            want_branch = r[len(b"refs/heads/"):].decode("utf-8")
        elif r.startswith(b"refs/heads/"):
            want_eff = r        # a head ref without a branch name: whichever parameter carries it, it must denote r
        else:
            want_ref = r
        ctx.hist("url:ref-class:" + rk)
    ctx.count("url")
    ctx.hist("url:kind:" + kind.split(":")[0])
    d = {"url": u, "kind": kind, "args": {k: (v if isinstance(v, str) else repr(v)) for k, v in kw.items()}}
    L0 = git_url_to_bzr_url(u)
    d["location"] = L0
    fam = "git-scheme" if kind.startswith("scheme") or kind == "chroot" else kind
    # location part
    if not ctx.check(L0 == exp or urlutils.unquote_to_bytes(L0) == urlutils.unquote_to_bytes(exp), "urls:location:%s" % ("scheme-url-taken-for-scp-host" if kind == "file" and L0.startswith("git+ssh://file/")
                                                      else "differs-from-scheme-table:" + fam),
                     "git_url_to_bzr_url(%r) = %r, documented %r" % (u, L0, exp), d):
        pass
    ctx.check(git_url_to_bzr_url(L0) == L0, "urls:location:not-stable", "converting %r again gives %r" % (L0, git_url_to_bzr_url(L0)), d)
    sig = ("url", u, sorted((k, repr(v)) for k, v in kw.items()))
    try:
        L = git_url_to_bzr_url(u, **kw)
    except Exception as e:
        # only documented refusal: branch and ref given together (never generated)
        ctx.fail("urls:to-bzr-url-raises:%s:%s" % (mode if want_eff is None else "ref-without-branch-name", type(e).__name__),
                 "git_url_to_bzr_url(%r, %s) raised %r" % (u, ", ".join("%s=%r" % kv for kv in kw.items()), e), d)
        ctx.note(sig)
        return
    d["bzr_url"] = L
    back = bzr_url_to_git_url(L)
    d["back"] = repr(back)
    ok = ctx.check(isinstance(back, tuple) and len(back) == 3, "urls:back-shape", repr(back), d)
    if ok:
        loc, bq, rq = back
        ctx.check(loc == L0, "urls:location-not-returned", "%r != %r" % (loc, L0), d)
        local = fam in ("abspath", "relpath", "file") and not L0.startswith("git+ssh://")
        if want_branch is not None:
            ctx.count("url_with_branch")
            if bq is None and local and "," not in L:
                # documented: "If the input URL scheme is not recognized as a Git scheme, the original
                # location is returned unchanged" - not a verdict here; the parent monitor judges the
                # end-to-end consequence.
                ctx.hist("url:documented-unchanged:branch-not-attached-to-non-git-location")
            elif bq is None:
                ctx.fail("urls:branch-dropped", "branch %r not in %r" % (want_branch, back), d)
            else:
                ctx.check(urlutils.unescape(bq) == want_branch, "urls:branch-differs", "%r vs %r" % (bq, want_branch), d)
            ctx.check(rq is None, "urls:spurious-ref", repr(back), d)
        elif want_ref is not None:
            ctx.count("url_with_ref")
            in_url = ",ref=" in L
            if rq is None and local and not in_url:
                ctx.hist("url:documented-unchanged:ref-not-attached-to-non-git-location")
            elif rq is None:
                ctx.fail("urls:ref-dropped:%s" % ("ref-parameter-not-read-back" if in_url else "not-written"),
                         "ref %r not in %r (bzr url %r)" % (want_ref, back, L), d)
            else:
                ctx.check(urlutils.unquote_to_bytes(rq) == want_ref, "urls:ref-differs", "%r vs %r" % (rq, want_ref), d)
            ctx.check(bq is None, "urls:spurious-branch", repr(back), d)
        elif want_eff is not None:
            ctx.count("url_with_ref")
            ctx.count("url_with_unnameable_head_ref")
            if bq is None and rq is None and local and "," not in L:
                ctx.hist("url:documented-unchanged:ref-not-attached-to-non-git-location")
            elif bq is None and rq is None:
                ctx.fail("urls:ref-dropped:%s" % ("ref-parameter-not-read-back" if ",ref=" in L else "not-written"),
                         "ref %r not in %r (bzr url %r)" % (want_eff, back, L), d)
            else:
                try:
                    eff = effective_ref(bq, rq)
                except Exception as e:
                    eff = "undecodable: %r" % (e,)
                ctx.check(eff == want_eff, "urls:ref-differs:ref-without-branch-name",
                          "%r denotes %r, wanted %r" % (back, eff, want_eff), d)
                ctx.check(bq is None or rq is None, "urls:both-parameters", repr(back), d)
        else:
            ctx.check(bq is None and rq is None, "urls:spurious-parameter", repr(back), d)
    ctx.note(sig, nontrivial=(mode != "none" or exp != u),
             sample=(d if rng.random() < 0.001 else None))


# ------------------------------------------------------------------ end to end: parent location

def _stored(gitdir, name, upstream=b"origin"):
    from dulwich.config import ConfigFile

    cf = ConfigFile.from_path(os.path.join(gitdir, ".git", "config"))
    out = {}
    for sec, key, label in (((b"remote", upstream), b"url", "url"), ((b"branch", name.encode("utf-8")), b"merge", "merge"),
                            ((b"branch", b"origin"), b"merge", "merge_of_branch_named_like_remote")):
        try:
            out[label] = cf.get(sec, key)
        except KeyError:
            out[label] = None
    return out


def m_parent(ctx, rng, root, sibling_base, setup=None):
    from breezy import urlutils
    from breezy.controldir import ControlDir

    from breezy.git.urls import git_url_to_bzr_url

    # target location
    if rng.random() < 0.4:
        base = urlutils.local_path_to_url(os.path.join(sibling_base, rng.choice(("up", "up stream", "r_1", "é"))))
        fam = "local"
    else:
        _k, u, _e = gen_url_scheme(rng)
        base = u
        fam = "remote"
    mode = rng.choice(("none", "branch", "branch", "ref"))
    params = {}
    if mode == "branch":
        b = gen_name(rng).strip("/") or "x"
        if b.startswith("refs/"):
            b = "x" + b
        params["branch"] = urlutils.escape(b, safe="")
    elif mode == "ref":
        _rk, r = gen_ref(rng)
        if r == b"HEAD":
            r = b"refs/tags/v1"
        params["ref"] = urlutils.quote_from_bytes(r, safe="")
    url = urlutils.join_segment_parameters(base, params) if params else base
    want = effective_ref(params.get("branch"), params.get("ref"))
    bname = rng.choice(("", "", "feat", "origin", "é"))
    d = {"url": url, "branch_opened": bname or "(default)", "family": fam, "mode": mode, "want_ref": repr(want)}
    try:
        cd = ControlDir.open(root)
        br = cd.open_branch(name=bname) if bname else cd.open_branch()
    except Exception as e:
        ctx.hist("parent:cannot-open-branch:" + type(e).__name__)
        return
    ctx.count("parent")
    if mode != "none":
        ctx.count("parent_with_target")
    # the remotes this branch is configured with (written by make_gitdir with plain dulwich)
    cfg = (setup or {}).get(br.name, {})
    # (dulwich's ConfigDict.get falls back from [branch "<name>"] to the bare [branch] section, so a [branch] remote
    # default is also the upstream remote of every branch without its own branch.<name>.remote)
    upstream = cfg.get("remote") or (setup or {}).get(None) or b"origin"
    push = cfg.get("push") or (setup or {}).get(None) or upstream
    push_url = (setup or {}).get(("url", push)) if push != upstream else None
    d["remotes"] = {"branch.remote": cfg.get("remote", b"").decode() or None, "branch.pushRemote": cfg.get("push", b"").decode() or None,
                    "[branch] remote": ((setup or {}).get(None) or b"").decode() or None, "push remote url": push_url}
    if push != upstream:
        ctx.count("parent_push_remote_differs")
        ctx.hist("parent:push-remote:%s" % ("with-url" if push_url else "without-url"))
    if upstream != b"origin":
        ctx.count("parent_upstream_remote_not_origin")
    br.set_parent(url)
    st = _stored(root, br.name, upstream)
    ctx.hist("parent:url-stored-under-upstream-remote:%s" % (st["url"] is not None))
    d["stored"] = {k: (v.decode("utf-8", "replace") if v is not None else None) for k, v in st.items()}
    # stage A: what set_parent stored
    merge = st["merge"]
    if want != b"HEAD" or merge is not None:
        if merge != want:
            if mode == "ref" and (merge is None or merge == b"HEAD"):
                key = "parent:set:ref-parameter-ignored"
            elif merge is not None and (urlutils.unquote_to_bytes(merge.decode("latin-1")) == want) and b"%" in merge:
                key = "parent:set:merge-ref-stored-url-quoted"
            else:
                key = "parent:set:merge-ref-wrong"
            ctx.fail(key, "set_parent(%r) stored branch.%s.merge=%r, the URL denotes %r" % (url, br.name, merge, want), d)
    # stage B: read back through fresh objects
    br2 = ControlDir.open(root)
    br2 = br2.open_branch(name=bname) if bname else br2.open_branch()
    try:
        got = br2.get_parent()
    except Exception as e:
        ctx.fail("parent:get:raises:%s:%s" % (mode, type(e).__name__),
                 "set_parent(%r) stored merge=%r; get_parent() raised %r" % (url, merge, e), d)
        ctx.note(("parent", url, bname))
        return
    d["get_parent"] = got
    if got is None:
        ctx.fail("parent:get:none" + (":push-remote-without-url" if push != upstream and not push_url else ""),
                 "get_parent() is None after set_parent(%r)" % url, d)
        ctx.note(("parent", url, bname))
        return
    gbase, gparams = urlutils.split_segment_parameters(got)
    try:
        got_ref = effective_ref(gparams.get("branch"), gparams.get("ref"))
    except ValueError as e:
        got_ref = "undecodable: %r" % (e,)
    same_base = gbase.rstrip("/") == base.rstrip("/")
    if not same_base and fam == "local":
        try:
            same_base = urlutils.normalize_url(gbase).rstrip("/") == urlutils.normalize_url(base).rstrip("/")
        except Exception:
            pass
    if not same_base:
        cands = ()
        if push_url:
            cands = (git_url_to_bzr_url(push_url).rstrip("/"),
                     urlutils.join(urlutils.local_path_to_url(root), push_url).rstrip("/"))    # relative remote url
        if gbase.rstrip("/") in cands:
            # what came back is the url of the remote the branch pushes to, not of the one set_parent wrote
            ctx.fail("parent:get:location-is-push-remote-url", "set %r, got %r" % (base, gbase), d)
            ctx.note(("parent", url, bname))
            return
        ctx.fail("parent:get:location-differs:" + fam, "set %r, got %r" % (base, gbase), d)
    if got_ref != want:
        # what does the pure converter say for what is in the config?  (tells the mechanisms apart)
        pure = None
        if st["url"] is not None and merge is not None:
            try:
                pure = git_url_to_bzr_url(st["url"].decode("utf-8"), ref=merge)
            except Exception as e:
                pure = "raises " + type(e).__name__
        d["git_url_to_bzr_url(stored url, ref=stored merge)"] = pure
        if merge != want:
            ctx.hist("parent:get:not-judged-after-wrong-store")
            ctx.note(("parent", url, bname))
            return
        if got_ref == b"HEAD" and pure is not None and "," not in pure:
            key = "parent:get:target-ref-dropped-for-non-git-location"
        elif br.name != "origin" and got_ref == (st["merge_of_branch_named_like_remote"] or b"HEAD"):
            # what came back is branch.<remote name>.merge (or its HEAD default), not branch.<this branch>.merge
            key = "parent:get:stored-merge-ref-not-read-back"
        else:
            key = "parent:get:target-ref-differs"
        ctx.fail(key, "set_parent(%r) then get_parent() = %r: target ref %r, wanted %r" % (url, got, got_ref, want), d)
    ctx.hist("parent:%s:%s:%s:%s" % (fam, mode, "named" if bname else "default",
                                     "triangular" if push != upstream else "one-remote"))
    ctx.note(("parent", url, bname), sample=(d if rng.random() < 0.01 else None))


def gen_url_scheme(rng):
    while True:
        k, u, e = gen_url(rng)
        if k.startswith("scheme:") and not k.endswith(":ssh"):
            return k, u, e


PUSH_URLS = ("https://fork.example.net/me/fork.git", "git+ssh://git@fork.example.net/me/repo", "me@fork.example.net:me/fork.git",
             "ssh://fork.example.net:2222/me/fork", "../fork-of-tree")


def configure_remotes(rng, root, names):
    """Draw the remote configuration of the git dir (plain dulwich): returns
    {branch name: {"remote": b.., "push": b..}, None: [branch] remote default, ("url", remote): url}."""
    from dulwich.config import ConfigFile

    path = os.path.join(root, ".git", "config")
    cf = ConfigFile.from_path(path)
    setup = {}
    shape = rng.choice(("plain", "plain", "per-branch", "per-branch", "per-branch", "default"))
    if shape == "plain":
        return setup
    if rng.random() < 0.3:      # left by an earlier clone; set_parent overwrites it
        cf.set((b"remote", b"origin"), b"url", b"https://old.example.net/old.git")
        cf.set((b"remote", b"origin"), b"fetch", b"+refs/heads/*:refs/remotes/origin/*")
    remotes = set()
    if shape == "default":
        setup[None] = rng.choice((b"fork", b"mine"))
        cf.set((b"branch",), b"remote", setup[None])
        remotes.add(setup[None])
    for n in names:
        k = rng.choice(("none", "push", "push", "remote", "remote+push", "remote+push", "push=upstream"))
        c = {}
        if k in ("remote", "remote+push", "push=upstream"):
            c["remote"] = rng.choice((b"upstream", b"up-1", b"origin"))
        if k in ("push", "remote+push"):
            c["push"] = rng.choice((b"fork", b"mine", "f\u00f6rk".encode("utf-8")))
            remotes.add(c["push"])
        elif k == "push=upstream":
            c["push"] = c["remote"]
        sec = (b"branch", n.encode("utf-8"))
        if "remote" in c:
            cf.set(sec, b"remote", c["remote"])
        if "push" in c:
            cf.set(sec, b"pushRemote", c["push"])
        if c:
            setup[n] = c
    for r in sorted(remotes):
        if rng.random() < 0.75:
            u = rng.choice(PUSH_URLS)
            cf.set((b"remote", r), b"url", u.encode("utf-8"))
            cf.set((b"remote", r), b"fetch", b"+refs/heads/*:refs/remotes/" + r + b"/*")
            setup[("url", r)] = u
    cf.write_to_path(path)
    return setup


def make_gitdir(ctx):
    from breezy.controldir import ControlDir, format_registry

    top = ctx.tmp("c36")
    root = os.path.join(top, "work", "tree")
    os.makedirs(root)
    cd = ControlDir.create(root, format=format_registry.make_controldir("git"))
    cd.create_branch()
    # one (empty) commit so that colocated branches exist as refs; built with plain dulwich
    from dulwich.objects import Commit, Tree
    from dulwich.repo import Repo

    r = Repo(root)
    try:
        t = Tree()
        c = Commit()
        c.tree = t.id
        c.author = c.committer = b"V <v@example.com>"
        c.author_time = c.commit_time = 1
        c.author_timezone = c.commit_timezone = 0
        c.message = b"x\n"
        r.object_store.add_object(t)
        r.object_store.add_object(c)
        for n in ("master", "feat", "origin", "é"):
            r.refs[b"refs/heads/" + n.encode("utf-8")] = c.id
    finally:
        r.close()
    return root, os.path.join(top, "work"), configure_remotes(ctx.rng, root, ("master", "feat", "origin", "\u00e9"))


# ------------------------------------------------------------------ case

def case(ctx):
    from breezy.git.mapping import BzrGitMappingv1

    rng = ctx.rng
    quick = ctx.tier == "quick"
    ncases = CASES[ctx.tier]
    # exhaustive slice of escape strings
    for i, b in enumerate(esc_strings(4 if quick else 5)):
        if i % ncases == ctx.index:
            m_escape(ctx, b)
    N = 40 if quick else 110
    mapping = BzrGitMappingv1()
    for _ in range(N):
        m_escape(ctx, b"".join(rng.choice(ESC) for _ in range(rng.randint(6, 40))))
        m_escape(ctx, bytes(rng.randrange(256) for _ in range(rng.randint(1, 12))))
    for _ in range(N):
        m_path(ctx, mapping, gen_path(rng))
    m_path(ctx, mapping, b"")
    for _ in range(N // 2):
        m_revid(ctx, ("%040x" % rng.getrandbits(160)).encode())
    if ctx.index % 16 == 0:
        m_revid(ctx, ZERO)
    for _ in range(N):
        n = gen_name(rng)
        m_branch_name(ctx, n)
        m_tag_name(ctx, n)
    m_branch_name(ctx, "")
    m_branch_name(ctx, "HEAD")
    for _ in range(N):
        for kind in ("branch", "tag"):
            m_ref_name(ctx, kind, gen_any_ref(rng, kind))
    for _ in range(N * 2):
        m_url(ctx, rng)
    # end to end
    try:
        root, sib, setup = make_gitdir(ctx)
    except Exception as e:
        ctx.discard("cannot create git control dir: %s" % type(e).__name__)
        return
    for _ in range(8 if quick else 14):
        m_parent(ctx, rng, root, sib, setup)
