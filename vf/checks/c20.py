"""C20 - conflict and merge-hash records persist and resolve faithfully.

Monitors on the real code (all judged through *fresh* ``WorkingTree.open`` objects):

* persistence: random ``ConflictList``s over all ten conflict classes with hostile
  paths / file ids / actions -> ``wt.set_conflicts`` -> fresh open -> ``conflicts()``
  must give the same records (type, path, file_id, action, conflict_path,
  conflict_file_id), compared as a multiset; then a second store whose list differs from
  the stored one in exactly one field of one conflict (or not at all) -> same judgement;
* ``set_merge_modified`` -> (edit / rename / unversion / delete) -> fresh open ->
  ``merge_modified()`` must be exactly the written entries whose file is still
  versioned and still has that sha1 (the documented filter);
* selection: a contract rebinding ``bzr.conflicts.ConflictList.select_conflicts``
  judges every call (direct ones and the live ones made by ``resolve``): selected =
  conflicts whose path / conflict_path is in PATHS (with recurse: or lies inside one
  of them) or whose file_id / conflict_file_id is the id of one of PATHS in the tree;
  kept + selected is the original list; PATHS include directories written with a
  trailing slash ('dir/'): with recursion everything strictly below is designated, the
  directory's own conflict is left to the code (statement silent; recorded);
* merge-hash overwrite: two ``set_merge_modified`` stores on one tree with untouched
  files (second: empty / only unversioned / subset / disjoint / same) -> fresh open ->
  ``merge_modified()`` is exactly the latest record after each store;
* resolve: ``brz resolve PATHS`` / ``--all`` / auto through the command object and
  ``conflicts.resolve(tree, paths, recursive=True)``: a fresh tree lists exactly the
  conflicts the selection oracle keeps; only helper files (.BASE/.THIS/.OTHER) of the
  removed conflicts disappear from disk.
"""
import hashlib
import io
import os
import contextlib

ID = "C20"
LEVEL = "exploration"
TECHNIQUE = ("round trip through fresh WorkingTree.open judged field by field; contract on ConflictList.select_conflicts "
             "(rebinding, live during resolve); resolve through cmd_resolve judged on a fresh tree and on disk")
LEVEL_TEXT = ("held on the sampled conflict lists (10 classes, <= 9 conflicts, hostile paths/ids/actions), path selections "
              "and merge-hash dictionaries, on working tree formats 3, 4, 5 and 6")
RULE = ("case = one working tree (format drawn from knit/pack-0.92/1.14/2a) with a fixed hostile namespace; several rounds of "
        "(a) random ConflictList -> set_conflicts -> reopen -> conflicts(), (b) select_conflicts with random PATHS, "
        "ignore_misses, recurse, (c) resolve via command/API, (d) set_merge_modified + tree mutation -> reopen -> "
        "merge_modified(), (e) two consecutive set_merge_modified stores (second empty / unversioned-only / subset / "
        "disjoint / same) each read back through a fresh tree; PATHS of (b), (c) carry a trailing slash on directories "
        "with probability 0.3 (the command strips it, the API does not); evaluation = one of those executions judged; non-trivial = list has >= 2 conflicts of >= 2 "
        "classes (a), selection neither empty nor everything (b, c), dictionary with both surviving and filtered "
        "entries (d); distinct = distinct generated input")
CASES = {"quick": 240, "thorough": 6400}
BUDGET_S = {"quick": 45, "thorough": 700}
MIN_EVALS = {"quick": 800, "thorough": 8000}
FLOORS = {
    "oracle_conflicts_roundtrip": 150,
    "oracle_truncation": 30,
    "oracle_restore_one_field": 100,
    "contract_select_conflicts": 200,
    "contract_select_conflicts_live": 30,
    "oracle_resolve_command": 40,
    "oracle_resolve_disk": 40,
    "oracle_resolve_auto": 8,
    "oracle_merge_modified": 60,
    "oracle_merge_modified_overwrite": 100,
    "contract_select_trailing_slash_recurse": 40,
    "oracle_stanza_direct": 200,
}
EXHAUSTIVE = {"quick": False, "thorough": False}
RUST = []  # property anchored in Python only; Rust helpers come from the prebuilt breezy/*.so
ASSUMPTIONS = [
    "file ids are valid UTF-8 byte strings (the stanza API is unicode); paths are str without lone surrogates "
    "and without LF/CR (DESIGN: newline-free; such names cannot be versioned - smart_add skips them). Their round "
    "trip is recorded in the histogram only: 'x\\r\\ny' reads back as 'x\\ny' (rio continuation lines, external wheel)",
    "read-back is compared as a multiset of records (order is recorded, not judged)",
    "file-id based selection is part of the documented selection rule (docstring: 'File-ids are also used for this')",
    "a selected path 'dir/' designates, with recursion, every conflict strictly below dir; whether it also designates the "
    "conflict at 'dir' itself (and paths equal only after '//' or '.' normalisation) is not judged - the code's answer is "
    "recorded under select:statement-silent",
    "conflicts that own helper files are never placed below a path that is a regular file on disk "
    "(cleanup would raise ENOTDIR loudly; outside the statement)",
    "merge_modified: sha1 of the on-disk bytes computed by hashlib is the reference for 'still has that sha'",
]

FORMATS = ["2a", "pack-0.92", "1.14", "knit"]

# fixed namespace of the tree: (path, kind); ids are derived
TREE = [
    ("dir", "directory"), ("dir/sub", "directory"), ("dir2", "directory"), ("ü dir", "directory"),
    ("f", "file"), ("f2", "file"), ("dir/f", "file"), ("dir/sub/g h", "file"), ("dir2/f", "file"),
    ("ü dir/日本", "file"), ("q'\"x", "file"), ("dirx", "file"), ("dir/f.moved", "file"),
]
MISSING = ["nothere", "dir/nothere", "dir3/x", "f3", "di", "dir/su", "dir/sub/g", "ü", "no such/deep/er"]
HOSTILE = [" lead", "trail ", "tab\there", "q'\"\\", "colon: x", "type: text conflict", "a  b", "é" * 120,
           " sep", "x\x85y", "v\x0bt", "f\x0cf", "\x1c", "<deleted>", ".", "a/./b", "ＡＢ", "á",
           "\U0001f600/\U0001f601", "#hash", "-dash", "*glob?", "%41", "per%cent"]
HOSTILE_NL = ["nl\nx", "a\n", "\nlead", "a\n\nb", "a\n\tb", "cr\rx", "crlf\r\nx"]
ACTIONS = ["Moved existing file to", "Unversioned existing file", "Created directory", "Not deleting",
           "Cancelled move", "Versioned directory", "Diverted to", "ü action", "multi word: colon", ""]
MARKER_TEXTS = [b"a\n<<<<<<< TREE\nb\n=======\nc\n>>>>>>> MERGE-SOURCE\n", b"=======\n", b">>>>>>> x", b"<<<<<<<\n"]
CLEAN_TEXTS = [b"plain\n", b"", b" <<<<<<< not at line start\n", b"<<<<<< six\n======\n", b"x\r\n"]

_cur = {"ctx": None, "live": True}


def fid_of(path):
    return (path.replace("/", "_").replace(" ", "-") + "-id").encode("utf-8")


def rec(c):
    """Canonical record of one conflict object (everything the statement names)."""
    return (type(c).__name__, c.typestring, c.path, getattr(c, "file_id", None), getattr(c, "action", None),
            getattr(c, "conflict_path", None), getattr(c, "conflict_file_id", None))


FIELDS = ("class", "type", "path", "file_id", "action", "conflict_path", "conflict_file_id")


def jrec(r):
    return [x.decode("utf-8", "replace") if isinstance(x, bytes) else x for x in r]


def skey(r):
    return tuple("" if x is None else (x.decode("latin-1") if isinstance(x, bytes) else x) for x in r) + tuple(x is None for x in r)


# ------------------------------------------------------------------ selection oracle

def inside(d, p):
    return d == "" or p == d or p.startswith(d + "/")


def _comps(x):
    return [c for c in x.split("/") if c not in ("", ".")]


def path_verdict(cp, pathset, recurse):
    """True = the statement's selection rule designates cp; False = it does not; None = the statement is silent
    (the selected path only equals / contains cp after normalising a trailing slash, '//' or '.' components)."""
    if cp in pathset:
        return True
    verdict = False
    for p in pathset:
        d = p.rstrip("/")
        if d and d != p:
            # a directory written 'dir/': with recursion everything strictly below it is designated;
            # the directory itself ('dir') is left to the code either way
            if recurse and cp.startswith(d + "/"):
                return True
            if cp == d:
                verdict = None
        if recurse:
            if inside(p, cp):
                return True
            pc = _comps(p)
            if verdict is False and pc == _comps(cp)[:len(pc)]:
                verdict = None
    return verdict


def must_select(c, pathset, ids, recurse):
    verdict = False
    for key in ("path", "conflict_path"):
        cp = getattr(c, key, None)
        if cp is None:
            continue
        v = path_verdict(cp, pathset, recurse)
        if v:
            return True
        if v is None:
            verdict = None
    for key in ("file_id", "conflict_file_id"):
        f = getattr(c, key, None)
        if f is not None and f in ids:
            return True
    return verdict


def split_expected(ctx, original, pathset, ids, recurse, actually_selected):
    """(expected selected, expected kept) as conflict objects; where the statement is silent the code's own
    answer (`actually_selected`: set of records) is taken."""
    sel, kept = [], []
    for c in original:
        v = must_select(c, pathset, ids, recurse)
        if v is None:
            ctx.hist("select:statement-silent:%s" % ("selected" if rec(c) in actually_selected else "kept"))
            v = rec(c) in actually_selected
        (sel if v else kept).append(c)
    return sel, kept


def designated_through_slash(r, pathset, recurse):
    for cp in (r[2], r[5]):
        if cp is None or cp in pathset:
            continue
        for p in pathset:
            d = p.rstrip("/")
            if recurse and d and d != p and cp.startswith(d + "/") and not inside(p, cp):
                return True
    return False


def judge_selection(ctx, original, tree, paths, recurse, kept, selected, where):
    ctx.count("contract_select_conflicts")
    if _cur["live"]:
        ctx.count("contract_select_conflicts_live")
    pathset = set(paths)
    ids = set()
    for p in paths:
        try:
            i = tree.path2id(p)
        except Exception:
            i = None
        if i is not None:
            ids.add(i)
    orig = [rec(c) for c in original]
    got_sel = [rec(c) for c in selected]
    got_kept = [rec(c) for c in kept]
    e_sel, e_kept = split_expected(ctx, original, pathset, ids, recurse, set(got_sel))
    exp_sel = [rec(c) for c in e_sel]
    exp_kept = [rec(c) for c in e_kept]
    if any(p != "" and p.endswith("/") for p in pathset):
        ctx.count("contract_select_trailing_slash" + ("_recurse" if recurse else ""))
    det = {"where": where, "paths": list(paths), "recurse": bool(recurse), "original": [jrec(r) for r in orig],
           "selected": [jrec(r) for r in got_sel], "kept": [jrec(r) for r in got_kept],
           "expected_selected": [jrec(r) for r in exp_sel]}
    if sorted(got_sel + got_kept, key=skey) != sorted(orig, key=skey):
        ctx.fail("select:not-a-partition", "kept + selected is not the original list", det)
        return
    if got_sel != exp_sel or got_kept != exp_kept:
        extra = [r for r in got_sel if r not in exp_sel]
        missing = [r for r in exp_sel if r not in got_sel]
        if extra:
            # why would the oracle not select it: name the closest reason
            r = extra[0]
            near = any(p and (r[2] or "").startswith(p) or (r[5] or "").startswith(p) for p in pathset if p)
            key = "select:selected-unrelated" + (":string-prefix" if near and recurse else "") + ("" if recurse else ":no-recurse")
            ctx.fail(key, "selected %r, which no path/id of %r designates" % (jrec(r), list(paths)), det)
        elif missing:
            r = missing[0]
            why = "by-path"
            if not (r[2] in pathset or (r[5] is not None and r[5] in pathset)):
                if designated_through_slash(r, pathset, recurse):
                    why = "by-recursion:trailing-slash"
                else:
                    why = "by-recursion" if recurse and any(inside(p, x) for p in pathset for x in (r[2], r[5]) if x is not None) else "by-file-id"
            if why == "by-path" and r[2] not in pathset:
                why = "by-conflict-path"
            ctx.fail("select:not-selected:" + why, "did not select %r designated by %r" % (jrec(r), list(paths)), det)
        else:
            ctx.fail("select:order-changed", "selection reordered the conflicts", det)


def worker_init(tier):
    from breezy.bzr import conflicts as bc

    orig = bc.ConflictList.select_conflicts
    if getattr(orig, "_vf_wrapped", False):
        return

    def select_conflicts(self, tree, paths, ignore_misses=False, recurse=False):
        ctx = _cur["ctx"]
        if ctx is None:
            return orig(self, tree, paths, ignore_misses, recurse)
        before = list(self)
        paths_l = list(paths)
        ret = orig(self, tree, paths, ignore_misses, recurse)
        try:
            kept, selected = ret
            judge_selection(ctx, before, tree, paths_l, recurse, kept, selected, "live" if _cur["live"] else "direct")
        except Exception as e:
            ctx.fail("harness:contract-error", repr(e))
        return ret

    select_conflicts._vf_wrapped = True
    bc.ConflictList.select_conflicts = select_conflicts


# ------------------------------------------------------------------ generators

def rand_unicode(rng, n):
    out = []
    for _ in range(n):
        r = rng.random()
        if r < 0.5:
            out.append(chr(rng.randint(0x20, 0x7e)))
        elif r < 0.8:
            out.append(chr(rng.randint(0xa0, 0x2fff)))
        elif r < 0.9:
            out.append(chr(rng.randint(0x1f300, 0x1f6ff)))
        elif r < 0.95:
            out.append(chr(rng.choice([0x09, 0x0b, 0x0c, 0x1c, 0x1d, 0x1e, 0x85, 0x2028, 0x2029, 0x7f, 0xfeff, 0x200b, 0x01])))
        else:
            out.append(rng.choice([" ", "  ", ":", ": ", "/", "\\", "'", '"']))
    return "".join(out)


def gen_path(rng, mode):
    """mode 'tree': paths meaningful for selection; 'hostile': anything storable."""
    r = rng.random()
    tree_paths = [p for p, _k in TREE]
    if mode == "tree":
        if r < 0.6:
            return rng.choice(tree_paths)
        if r < 0.8:
            return rng.choice(MISSING)
        if r < 0.9:
            return rng.choice(tree_paths) + rng.choice([".moved", ".new", ".THIS", "2", " x"])
        return rng.choice(["dir/sub/new", "dir2/new file", "ü dir/ü", "new dir/x"])
    if r < 0.3:
        return rng.choice(tree_paths + MISSING)
    if r < 0.65:
        return rng.choice(HOSTILE)
    if r < 0.7 and mode == "beyond":
        return rng.choice(HOSTILE_NL)
    if r < 0.75:
        return ""
    return rand_unicode(rng, rng.randint(1, 14))


def gen_fid(rng, path, mode):
    r = rng.random()
    if r < 0.25:
        return None
    if r < 0.6:
        return fid_of(rng.choice(TREE)[0]) if rng.random() < 0.5 or path not in dict(TREE) else fid_of(path)
    if mode == "tree":
        return rng.choice([b"other-id", b"x", "ü-id".encode("utf-8")])
    if r < 0.7:
        return b""
    if r < 0.8:
        return rng.choice([b"with space", b"colon: id", b"tab\tid", "日本-id".encode("utf-8"), b"id\nnl", b"\xe2\x80\xa8id"])
    return rand_unicode(rng, rng.randint(1, 10)).encode("utf-8")


def gen_conflict(rng, mode, classes=None):
    from breezy.bzr import conflicts as bc

    names = classes or ["TextConflict", "ContentsConflict", "PathConflict", "DuplicateID", "DuplicateEntry", "ParentLoop",
                        "UnversionedParent", "MissingParent", "DeletingParent", "NonDirectoryParent"]
    name = rng.choice(names)
    cls = getattr(bc, name)
    path = gen_path(rng, mode)
    fid = gen_fid(rng, path, mode)
    action = rng.choice(ACTIONS) if (mode == "tree" or rng.random() < 0.7) else rand_unicode(rng, rng.randint(0, 12))
    if name == "TextConflict":
        return cls(path, file_id=fid)
    if name in ("ContentsConflict", "PathConflict"):
        cp = None if rng.random() < (0.7 if name == "ContentsConflict" else 0.2) else gen_path(rng, mode)
        return cls(path, conflict_path=cp, file_id=fid)
    if name in ("DuplicateID", "DuplicateEntry", "ParentLoop"):
        cfid = gen_fid(rng, path, mode)
        return cls(action, path, gen_path(rng, mode), file_id=fid, conflict_file_id=cfid)
    return cls(action, path, file_id=fid)


def mutate_one_field(rng, mode, c):
    """A conflict equal to `c` except for exactly one field (same class): the second store of a tree whose stored
    list differs from the new one in a single field must still be written (the statement says *any* list)."""
    from breezy.bzr import conflicts as bc

    name = type(c).__name__
    cls = getattr(bc, name)
    path, fid = c.path, getattr(c, "file_id", None)
    action, cp, cfid = getattr(c, "action", None), getattr(c, "conflict_path", None), getattr(c, "conflict_file_id", None)
    fields = ["path", "file_id"]
    if name in ("ContentsConflict", "PathConflict"):
        fields += ["conflict_path"] * 3
    elif name in ("DuplicateID", "DuplicateEntry", "ParentLoop"):
        fields += ["action", "conflict_path", "conflict_file_id"]
    elif name != "TextConflict":
        fields += ["action"]
    f = rng.choice(fields)
    for _ in range(8):
        if f == "path":
            new = gen_path(rng, mode)
            if new != path:
                path = new
                break
        elif f == "file_id":
            new = gen_fid(rng, path, mode)
            if new != fid:
                fid = new
                break
        elif f == "action":
            new = rng.choice(ACTIONS)
            if new != action:
                action = new
                break
        elif f == "conflict_path":
            new = rng.choice([None, "<deleted>", path + ".OTHER", gen_path(rng, mode)]) if name in ("ContentsConflict", "PathConflict") else gen_path(rng, mode)
            if new != cp:
                cp = new
                break
        elif f == "conflict_file_id":
            new = gen_fid(rng, path, mode)
            if new != cfid:
                cfid = new
                break
    else:
        return None, None
    if name == "TextConflict":
        return cls(path, file_id=fid), f
    if name in ("ContentsConflict", "PathConflict"):
        return cls(path, conflict_path=cp, file_id=fid), f
    if name in ("DuplicateID", "DuplicateEntry", "ParentLoop"):
        return cls(action, path, cp, file_id=fid, conflict_file_id=cfid), f
    return cls(action, path, file_id=fid), f


def gen_list(rng, mode, maxn=9):
    n = rng.choice([0, 1, 1, 2, 3, 4, 5, 7, maxn])
    out = [gen_conflict(rng, mode) for _ in range(n)]
    if out and rng.random() < 0.15:
        out.append(rng.choice(out))  # exact duplicate
    return out


# ------------------------------------------------------------------ fixtures

def make_tree(ctx, fmt):
    from breezy.controldir import ControlDir, format_registry

    root = os.path.join(ctx.tmp("c20"), "t")
    os.makedirs(root)
    wt = ControlDir.create_standalone_workingtree(root, format=format_registry.make_controldir(fmt))
    for p, k in TREE:
        ap = os.path.join(root, p)
        if k == "directory":
            os.mkdir(ap)
        else:
            with open(ap, "wb") as f:
                f.write(("content of %s\n" % p).encode("utf-8"))
    with wt.lock_write():
        wt.add([p for p, _k in TREE], ids=[fid_of(p) for p, _k in TREE])
        if ctx.rng.random() < 0.5:
            wt.commit("base", rev_id=b"base-rev", timestamp=1600000000, timezone=0, committer="C <c@example.com>")
    return root


def fresh(root):
    from breezy.workingtree import WorkingTree

    return WorkingTree.open(root)


def disk_files(root):
    out = {}
    for dp, dns, fns in os.walk(root):
        if ".bzr" in dns:
            dns.remove(".bzr")
        for fn in fns:
            ap = os.path.join(dp, fn)
            try:
                with open(ap, "rb") as f:
                    out[os.path.relpath(ap, root)] = f.read()
            except OSError:
                out[os.path.relpath(ap, root)] = None
    return out


# ------------------------------------------------------------------ (a) persistence

def persist_round(ctx, root, cl, prev_len):
    rng = ctx.rng
    written = [rec(c) for c in cl]
    wt = fresh(root)
    try:
        wt.set_conflicts(list(cl) if rng.random() < 0.5 else _as_conflict_list(cl))
    except Exception as e:
        ctx.fail("persist:write-raised:%s" % type(e).__name__, repr(e)[:300], {"written": [jrec(r) for r in written]})
        return False
    del wt
    ctx.count("oracle_conflicts_roundtrip")
    if prev_len is not None and len(cl) < prev_len:
        ctx.count("oracle_truncation")
    try:
        back = list(fresh(root).conflicts())
        got = [rec(c) for c in back]
    except Exception as e:
        ctx.fail("persist:read-raised:%s" % type(e).__name__, repr(e)[:300], {"written": [jrec(r) for r in written]})
        return False
    ok = True
    det = {"written": [jrec(r) for r in written], "read": [jrec(r) for r in got]}
    if len(got) != len(written):
        ctx.fail("persist:count:%s" % ("more" if len(got) > len(written) else "fewer"),
                 "wrote %d conflicts, read %d" % (len(written), len(got)), det)
        ok = False
    elif sorted(got, key=skey) != sorted(written, key=skey):
        ok = False
        bad = "record"
        for w, g in zip(written, got):
            if w != g:
                for i, f in enumerate(FIELDS):
                    if w[i] != g[i]:
                        bad = f
                        break
                break
        ctx.fail("persist:field:%s" % bad, "read-back differs from what was written", det)
    else:
        ctx.hist("persist-order:" + ("same" if got == written else "permuted"))
        # the objects must also be equal in breezy's own terms
        for c, b in zip(sorted(cl, key=lambda c: skey(rec(c))), sorted(back, key=lambda c: skey(rec(c)))):
            if not (c == b) or (c != b):
                ctx.fail("persist:eq-inconsistent", "records equal but objects compare unequal", det)
                ok = False
                break
    kinds = {r[0] for r in written}
    for k in kinds:
        ctx.hist("class:" + k)
    ctx.note(("persist", [jrec(r) for r in written]), nontrivial=len(written) >= 2 and len(kinds) >= 2,
             sample={"mode": "persist", "written": [jrec(r) for r in written[:4]], "read_equal": ok} if rng.random() < 0.01 else None)
    return ok


def _as_conflict_list(cl):
    from breezy.bzr.conflicts import ConflictList

    return ConflictList(list(cl))


def stanza_direct(ctx, n):
    """to_stanzas -> rio text -> from_stanzas without a tree (more volume on the serialiser)."""
    from breezy.bzr.conflicts import ConflictList
    from bzrformats import rio

    rng = ctx.rng
    for _ in range(n):
        cl = gen_list(rng, "hostile", 5)
        written = [rec(c) for c in cl]
        ctx.count("oracle_stanza_direct")
        try:
            lines = []
            for i, st in enumerate(ConflictList(cl).to_stanzas()):
                if i:
                    lines.append(b"\n")
                lines.extend(st.to_lines())
            back = ConflictList.from_stanzas(rio.RioReader(io.BytesIO(b"".join(lines))))
            got = [rec(c) for c in back]
        except Exception as e:
            ctx.fail("stanza:raised:%s" % type(e).__name__, repr(e)[:300], {"written": [jrec(r) for r in written]})
            continue
        if got != written:
            bad = "count"
            for w, g in zip(written, got):
                if w != g:
                    bad = next((f for i, f in enumerate(FIELDS) if w[i] != g[i]), "record")
                    break
            ctx.fail("stanza:field:%s" % bad, "stanza round trip differs",
                     {"written": [jrec(r) for r in written], "read": [jrec(r) for r in got]})
        ctx.note(("stanza", [jrec(r) for r in written]), nontrivial=len(written) >= 2)


def beyond_class_probe(ctx):
    """Paths containing LF / CR cannot be versioned (smart_add skips them) and DESIGN restricts the
    class to newline-free paths: their round trip is recorded, never judged."""
    from breezy.bzr.conflicts import ConflictList, TextConflict
    from bzrformats import rio

    p = ctx.rng.choice(HOSTILE_NL)
    try:
        lines = list(TextConflict(p, file_id=b"i").as_stanza().to_lines())
        back = list(ConflictList.from_stanzas(rio.RioReader(io.BytesIO(b"".join(lines)))))
        ctx.hist("beyond-class:%r:%s" % (p, "roundtrip-ok" if len(back) == 1 and back[0].path == p else "roundtrip-differs"))
    except Exception as e:
        ctx.hist("beyond-class:%r:raised-%s" % (p, type(e).__name__))


# ------------------------------------------------------------------ (b) selection

def gen_paths(rng, cl):
    pool = []
    for c in cl:
        for k in ("path", "conflict_path"):
            v = getattr(c, k, None)
            if v is not None:
                pool.append(v)
                if "/" in v:
                    pool.append(v.rsplit("/", 1)[0])
                    pool.append(v.split("/", 1)[0])
    pool += [p for p, _k in TREE] + MISSING + ["", "dir", "dir", "di", "f"]
    n = rng.choice([1, 1, 2, 2, 3, 4])
    dirs = {p for p, k in TREE if k == "directory"}
    for v in pool:
        if "/" in v:
            dirs.add(v.rsplit("/", 1)[0])
            dirs.add(v.split("/", 1)[0])
    out = []
    for _ in range(n):
        p = rng.choice(pool)
        if p in dirs and p and not p.endswith("/") and rng.random() < 0.3:
            p += "/"    # a directory written the way shells complete it
        if p not in out:
            out.append(p)
    return out


def select_round(ctx, root, cl):
    from breezy.bzr.conflicts import ConflictList

    rng = ctx.rng
    paths = gen_paths(rng, cl)
    recurse = rng.random() < 0.5
    ignore_misses = rng.random() < 0.5
    tree = fresh(root)
    lst = ConflictList(list(cl))
    _cur["live"] = False
    try:
        with tree.lock_read(), contextlib.redirect_stdout(io.StringIO()):
            kept, selected = lst.select_conflicts(tree, paths, ignore_misses, recurse)
    finally:
        _cur["live"] = True
    ctx.hist("select:recurse=%s" % recurse)
    ctx.note(("select", [jrec(rec(c)) for c in cl], paths, recurse), nontrivial=0 < len(selected) < len(cl),
             sample={"mode": "select", "paths": paths, "recurse": recurse, "n": len(cl), "selected": [jrec(rec(c)) for c in selected][:3]}
             if rng.random() < 0.01 else None)


# ------------------------------------------------------------------ (c) resolve

def safe_for_cleanup(c):
    """Conflicts owning helper files must not sit below a regular file (ENOTDIR in cleanup)."""
    files = {p for p, k in TREE if k == "file"}
    p = c.path
    parts = p.split("/")
    for i in range(1, len(parts)):
        if "/".join(parts[:i]) in files:
            return False
    return "\x00" not in p and not p.startswith("/") and ".." not in parts


def resolve_round(ctx, root, variant):
    from breezy import conflicts as gc
    from breezy.bzr import conflicts as bc

    rng = ctx.rng
    cl = [c for c in gen_list(rng, "tree", 8) if safe_for_cleanup(c)]
    if variant == "auto":
        # give the text conflicts a decidable state
        cl = [c for c in cl if not isinstance(c, bc.TextConflict)]
        cands = ["f", "f2", "dir/f", "dir2/f", "ü dir/日本", "dir", "nothere", "dir/nothere"]
        rng.shuffle(cands)
        for p in cands[:rng.randint(1, 5)]:
            cl.insert(rng.randint(0, len(cl)), bc.TextConflict(p, file_id=fid_of(p) if rng.random() < 0.7 else None))
    wt = fresh(root)
    wt.set_conflicts(cl)
    # helper files for some conflicts + unrelated bystanders
    text_state = {}
    for c in cl:
        if getattr(c, "has_files", False) and rng.random() < 0.7:
            for suf in (".BASE", ".THIS", ".OTHER"):
                if rng.random() < 0.8:
                    ap = os.path.join(root, c.path + suf)
                    if os.path.isdir(os.path.dirname(ap)) and not os.path.isdir(ap):
                        with open(ap, "wb") as f:
                            f.write(b"helper\n")
        if variant == "auto" and isinstance(c, bc.TextConflict):
            ap = os.path.join(root, c.path)
            if os.path.isfile(ap):
                marked = rng.random() < 0.5
                with open(ap, "wb") as f:
                    f.write(rng.choice(MARKER_TEXTS if marked else CLEAN_TEXTS))
                text_state[c.path] = "markers" if marked else "clean"
            elif os.path.isdir(ap):
                text_state[c.path] = "directory"
            else:
                text_state[c.path] = "missing"
    for by in ("bystander.BASE", "dir/keep.THIS", "f.OTHER.keep"):
        with open(os.path.join(root, by), "wb") as f:
            f.write(b"bystander\n")
    del wt
    before_disk = disk_files(root)
    original = list(fresh(root).conflicts())
    if [rec(c) for c in original] != [rec(c) for c in cl]:
        return  # persistence oracle reports this
    t = fresh(root)
    recurse = False
    if variant in ("paths", "paths-abs", "api-recursive", "api"):
        paths = [p for p in gen_paths(rng, cl) if p != "" and "\n" not in p] or ["f"]
    else:
        paths = None
    if variant == "api-recursive":
        recurse = True
    verdict_args = None
    if paths is not None:
        # the command normalises its arguments (trailing slashes go); the API takes them as they are
        eff = [p.rstrip("/") or p for p in paths] if variant in ("paths", "paths-abs") else list(paths)
        if any(p.endswith("/") for p in paths):
            ctx.hist("resolve:%s:trailing-slash-path" % variant)
        pathset = set(eff)
        ids = set()
        with t.lock_read():
            for p in eff:
                i = t.path2id(p)
                if i is not None:
                    ids.add(i)
        verdict_args = (pathset, ids, recurse)
        exp_kept = exp_gone = None
    elif variant == "all":
        exp_kept, exp_gone = [], list(original)
    else:  # auto: text conflicts without markers / vanished files are resolved, everything else stays
        exp_kept, exp_gone = [], []
        for c in original:
            if isinstance(c, bc.TextConflict) and text_state.get(c.path) in ("clean", "missing"):
                exp_gone.append(c)
            else:
                exp_kept.append(rec(c))
    del t
    out = io.StringIO()
    cwd = os.getcwd()
    try:
        with contextlib.redirect_stdout(out):
            if variant in ("paths", "all", "auto"):
                cmd = gc.cmd_resolve()
                argv = ["--directory", root]
                if variant == "all":
                    argv.append("--all")
                elif variant == "paths":
                    argv += paths
                cmd.run_argv_aliases(argv)
            elif variant == "paths-abs":
                cmd = gc.cmd_resolve()
                cmd.run_argv_aliases([os.path.join(root, p) for p in paths])
            else:
                gc.resolve(fresh(root), paths, ignore_misses=rng.random() < 0.5, recursive=recurse)
    finally:
        os.chdir(cwd)
    ctx.count("oracle_resolve_command")
    if variant == "auto":
        ctx.count("oracle_resolve_auto")
    ctx.hist("resolve:" + variant)
    got = [rec(c) for c in fresh(root).conflicts()]
    if verdict_args is not None:
        # where the statement is silent, a conflict counts as selected when it is gone afterwards
        gone_recs = {rec(c) for c in original} - set(got)
        exp_gone, k = split_expected(ctx, original, verdict_args[0], verdict_args[1], verdict_args[2], gone_recs)
        exp_kept = [rec(c) for c in k]
    det = {"variant": variant, "paths": paths, "original": [jrec(rec(c)) for c in original], "after": [jrec(r) for r in got],
           "expected": [jrec(r) for r in exp_kept], "text_state": text_state}
    if sorted(got, key=skey) != sorted(exp_kept, key=skey):
        lost = [r for r in exp_kept if r not in got]
        stay = [r for r in got if r not in exp_kept]
        if lost:
            ctx.fail("resolve:%s:removed-unselected" % variant, "conflict %r was removed although not selected" % (jrec(lost[0]),), det)
        elif stay and stay[0] in [rec(c) for c in original]:
            ctx.fail("resolve:%s:selected-kept%s" % (variant, ":trailing-slash" if verdict_args is not None and designated_through_slash(
                stay[0], verdict_args[0], verdict_args[2]) else ""), "conflict %r was selected but is still listed" % (jrec(stay[0]),), det)
        else:
            ctx.fail("resolve:%s:list-differs" % variant, "conflicts after resolve differ from the expected rest", det)
    # disk: only helper files of removed conflicts may disappear; nothing else may change
    ctx.count("oracle_resolve_disk")
    after_disk = disk_files(root)
    allowed = set()
    for c in exp_gone:
        for fn in c.associated_filenames():
            allowed.add(os.path.normpath(fn))
    for p, data in before_disk.items():
        if p not in after_disk:
            if p not in allowed:
                ctx.fail("resolve:%s:deleted-unrelated-file" % variant, "file %r disappeared; it belongs to no resolved conflict" % p,
                         dict(det, file=p))
        elif after_disk[p] != data:
            ctx.fail("resolve:%s:changed-file" % variant, "file %r changed content during resolve --done" % p, dict(det, file=p))
    for c in exp_gone:
        for fn in c.associated_filenames():
            if os.path.normpath(fn) in after_disk and os.path.normpath(fn) in before_disk:
                ctx.fail("resolve:%s:helper-file-left" % variant, "helper file %r of a resolved conflict still exists" % fn, dict(det, file=fn))
    ctx.note(("resolve", variant, [jrec(rec(c)) for c in original], paths, text_state),
             nontrivial=0 < len(exp_kept) < len(original),
             sample={"mode": "resolve", "variant": variant, "paths": paths, "before": len(original), "after": len(got)}
             if rng.random() < 0.03 else None)


# ------------------------------------------------------------------ (d) merge_modified

def sha1(b):
    return hashlib.sha1(b).hexdigest().encode("ascii")


def mm_read(ctx, root, det):
    try:
        return dict(fresh(root).merge_modified())
    except Exception as e:
        ctx.fail("merge_modified:read-raised:%s" % type(e).__name__, repr(e)[:300], det)
        return None


def merge_modified_overwrite(ctx, root):
    """Two stores on the same tree without touching the files in between: the second record replaces the
    first (an empty map - what a merge or revert that touched nothing records - clears it)."""
    rng = ctx.rng
    wt = fresh(root)
    files = []
    with wt.lock_read():
        for p, e in wt.iter_entries_by_dir():
            ap = os.path.join(root, p)
            if p and e.kind == "file" and os.path.isfile(ap) and not os.path.islink(ap):
                with open(ap, "rb") as f:
                    files.append((p, sha1(f.read())))
    del wt
    if len(files) < 2:
        ctx.hist("mm-overwrite:too-few-files")
        return
    rng.shuffle(files)
    first = dict(files[:rng.randint(1, len(files))])
    kind = rng.choice(["empty", "empty", "only-unversioned", "subset", "disjoint", "same"])
    if kind == "empty":
        second = {}
    elif kind == "only-unversioned":
        second = {p: sha1(p.encode("utf-8")) for p in rng.sample(MISSING, rng.randint(1, 2))}
    elif kind == "subset":
        keys = sorted(first)
        second = {p: first[p] for p in rng.sample(keys, rng.randint(0, len(keys) - 1))}
    elif kind == "disjoint":
        rest = [(p, h) for p, h in files if p not in first]
        second = dict(rest[:rng.randint(0, len(rest))])
    else:
        second = dict(first)
    det = {"first": {k: v.decode() for k, v in first.items()}, "second": {k: v.decode() for k, v in second.items()}, "kind": kind}
    ctx.hist("mm-overwrite:" + kind + (":second-empty" if not second else ""))
    true_now = dict(files)
    for step, written in (("first", first), ("second", second)):
        try:
            fresh(root).set_merge_modified(dict(written))
        except Exception as e:
            ctx.fail("merge_modified:write-raised:%s" % type(e).__name__, repr(e)[:300], det)
            return
        ctx.count("oracle_merge_modified_overwrite")
        got = mm_read(ctx, root, det)
        if got is None:
            return
        exp = {p: h for p, h in written.items() if true_now.get(p) == h}
        if got != exp:
            d = dict(det, step=step, got={k: v.decode() for k, v in got.items()})
            stale = [p for p in got if p not in exp and step == "second" and first.get(p) == got[p]]
            if stale:
                ctx.fail("merge_modified:overwrite:stale-entry-survives" + (":empty-map" if not written else ""),
                         "entries %r of the previous record are still reported after a later record without them" % stale, d)
            elif [p for p in exp if p not in got]:
                ctx.fail("merge_modified:overwrite:entry-lost", "entries of the %s record are not reported" % step, d)
            else:
                ctx.fail("merge_modified:overwrite:differs", "read-back differs from the %s record" % step, d)
            return
    ctx.note(("mm-overwrite", sorted(det["first"].items()), sorted(det["second"].items())), nontrivial=set(second) != set(first),
             sample=dict(det, mode="merge_modified_overwrite") if rng.random() < 0.03 else None)


def merge_modified_round(ctx, root):
    rng = ctx.rng
    wt = fresh(root)
    files = {}
    with wt.lock_read():
        for p, e in wt.iter_entries_by_dir():
            if p:
                files[p] = (e.file_id, e.kind)
    model = {}      # file_id -> sha written
    written = {}
    alt = {}
    cands = sorted(files)
    rng.shuffle(cands)
    for p in cands[:rng.randint(1, 8)]:
        fid, kind = files[p]
        ap = os.path.join(root, p)
        r = rng.random()
        if kind == "file" and os.path.isfile(ap):
            with open(ap, "rb") as f:
                cur = f.read()
            if r < 0.55:
                h = sha1(cur)
            else:
                # stale hash = hash of an alternative content the file may later get
                other = cur[:-1] + b"X" if (cur and rng.random() < 0.5) else cur + b"more\n"
                alt[p] = other
                h = sha1(other)
        else:
            h = sha1(b"whatever " + p.encode("utf-8"))
        written[p] = h
        model[fid] = h
    for p in rng.sample(MISSING + ["bystander.BASE"], rng.randint(0, 2)):
        written[p] = sha1(p.encode("utf-8"))   # not versioned: must be ignored
    items = list(written.items())
    rng.shuffle(items)
    try:
        wt.set_merge_modified(dict(items))
    except Exception as e:
        ctx.fail("merge_modified:write-raised:%s" % type(e).__name__, repr(e)[:300], {"written": {k: v.decode() for k, v in written.items()}})
        return
    del wt
    # mutate the tree between write and read
    ops = []
    for _ in range(rng.choice([0, 0, 1, 2, 3])):
        wt = fresh(root)
        with wt.lock_read():
            cur_files = [(p, e.file_id) for p, e in wt.iter_entries_by_dir() if p and e.kind == "file"]
        if not cur_files:
            break
        p, fid = rng.choice(cur_files)
        op = rng.choice(["edit", "edit-alt", "rename", "unversion", "delete", "touch"])
        with_alt = [q for q, _f in cur_files if q in alt]
        if with_alt and rng.random() < 0.35:
            p, op = rng.choice(with_alt), "edit-alt"
        ap = os.path.join(root, p)
        try:
            if op == "edit" and os.path.isfile(ap):
                with open(ap, "ab") as f:
                    f.write(b"edited\n")
            elif op == "edit-alt" and p in alt and os.path.isfile(ap):
                with open(ap, "wb") as f:
                    f.write(alt[p])
            elif op == "rename" and os.path.isfile(ap):
                new = rng.choice(["renamed %d" % rng.randint(0, 99), "dir2/mv%d" % rng.randint(0, 99), "ü dir/ü%d" % rng.randint(0, 99)])
                if not os.path.lexists(os.path.join(root, new)):
                    wt.rename_one(p, new)
                    if p in alt:
                        alt[new] = alt.pop(p)
            elif op == "unversion":
                wt.unversion([p])
            elif op == "delete" and os.path.isfile(ap):
                os.unlink(ap)
            elif op == "touch" and os.path.isfile(ap):
                os.utime(ap, (1, 1))
            else:
                continue
            ops.append(op)
        except Exception as e:
            ctx.hist("mm-mutation-refused:%s" % type(e).__name__)
        del wt
    # expected, from the disk and the inventory as they are now
    wt = fresh(root)
    exp = {}
    with wt.lock_read():
        now = {e.file_id: (p, e.kind) for p, e in wt.iter_entries_by_dir() if p}
    for fid, h in model.items():
        if fid not in now:
            continue
        p, kind = now[fid]
        ap = os.path.join(root, p)
        if kind == "file" and os.path.isfile(ap) and not os.path.islink(ap):
            with open(ap, "rb") as f:
                if sha1(f.read()) == h:
                    exp[p] = h
    del wt
    ctx.count("oracle_merge_modified")
    try:
        got = dict(fresh(root).merge_modified())
    except Exception as e:
        ctx.fail("merge_modified:read-raised:%s" % type(e).__name__, repr(e)[:300], {"ops": ops})
        return
    det = {"written": {k: v.decode() for k, v in written.items()}, "ops": ops, "got": {k: v.decode() for k, v in got.items()},
           "expected": {k: v.decode() for k, v in exp.items()}}
    if got != exp:
        missing = [p for p in exp if p not in got]
        extra = [p for p in got if p not in exp]
        if missing and extra and {exp[p] for p in missing} & {got[p] for p in extra}:
            ctx.fail("merge_modified:wrong-path-key", "entry reported under %r, file is at %r" % (extra, missing), det)
        elif missing:
            ctx.fail("merge_modified:entry-lost", "entries %r still have their recorded sha but are not reported" % missing, det)
        elif extra:
            ctx.fail("merge_modified:filter-not-applied", "entries %r reported although unversioned / changed / never written" % extra, det)
        else:
            ctx.fail("merge_modified:wrong-hash", "hash differs", det)
    for op in ops:
        ctx.hist("mm-op:" + op)
    ctx.hist("mm:survive=%d,filtered=%d" % (min(len(exp), 3), min(len(model) - len(exp), 3)))
    ctx.note(("mm", sorted((k, v.decode()) for k, v in written.items()), ops), nontrivial=bool(exp) and len(exp) < len(written),
             sample={"mode": "merge_modified", "written": len(written), "ops": ops, "reported": sorted(got)} if rng.random() < 0.03 else None)


# ------------------------------------------------------------------ the case

VARIANTS = ["paths", "paths", "paths-abs", "api-recursive", "api-recursive", "api", "all", "auto", "auto"]


def case(ctx):
    _cur["ctx"] = ctx
    try:
        _case(ctx)
    finally:
        _cur["ctx"] = None


def _case(ctx):
    rng = ctx.rng
    fmt = FORMATS[ctx.index % len(FORMATS)]
    stanza_direct(ctx, 12)
    beyond_class_probe(ctx)
    try:
        root = make_tree(ctx, fmt)
    except Exception as e:
        ctx.discard("fixture:%s:%s" % (fmt, type(e).__name__))
    ctx.hist("format:" + fmt)
    rounds = 5 if ctx.tier == "quick" else 7
    prev = None
    for _ in range(rounds):
        mode = "hostile" if rng.random() < 0.6 else "tree"
        cl = gen_list(rng, mode)
        if persist_round(ctx, root, cl, prev) and cl:
            select_round(ctx, root, cl)
            if rng.random() < 0.5:
                select_round(ctx, root, cl)
            if rng.random() < 0.7:
                # second store over the stored list: same length, exactly one field of one conflict differs (or nothing)
                i = rng.randrange(len(cl))
                c2, f = (cl[i], "nothing") if rng.random() < 0.1 else mutate_one_field(rng, mode, cl[i])
                if c2 is not None:
                    cl = cl[:i] + [c2] + cl[i + 1:]
                    ctx.count("oracle_restore_one_field")
                    ctx.hist("restore-one-field:" + f)
                    persist_round(ctx, root, cl, None)
        prev = len(cl)
    for _ in range(2 if ctx.tier == "quick" else 3):
        resolve_round(ctx, root, rng.choice(VARIANTS))
    for i in range(3 if ctx.tier == "quick" else 4):
        if i == 1:
            merge_modified_overwrite(ctx, root)
        merge_modified_round(ctx, root)
    if ctx.tier != "quick":
        merge_modified_overwrite(ctx, root)
