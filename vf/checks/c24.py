"""C24 - tag transfer never loses or silently rewrites tags.

Two monitors on the real code:

* an I5-style contract rebinding ``breezy.tag._reconcile_tags``: every live call
  (direct ones generated here and the ones made by ``InterTags._merge_to`` /
  ``MemoryTags.merge_to`` during the end-to-end workloads) is judged against the
  four-case table of the property statement;
* end-to-end ``source.tags.merge_to(target.tags, overwrite, ignore_master, selector)``
  (and ``Branch.pull`` / ``Branch.push``, which delegate to it) over BasicTags on
  bzr branches, MemoryTags and LocalGitTagDict, with and without a bound master;
  the oracle is the same table evaluated on what fresh ``Branch.open`` objects
  read before and after, plus the returned ``(updates, conflicts)``.

Sessions: after the independent rounds every case with a branch-backed target keeps ONE
long-lived, caller-unlocked target ``Branch`` object (and one long-lived source object) and
drives several transfers into it (primary source, an extra MemoryTags source, pull/push),
interleaved with writes made through other openers of the target / master / source and with
reads on the long-lived object.  D is always what a fresh opener reads just before the call, so
state or caches an earlier transfer left in the object must not leak into the next one.

Persistence: every dictionary installed with ``_set_tag_dict`` is read back
through a fresh ``Branch.open``; the bencode (de)serialiser is also driven
directly.
"""
import os

ID = "C24"
LEVEL = "exploration"
TECHNIQUE = ("contract on breezy.tag._reconcile_tags (rebinding) + end-to-end merge_to/pull/push judged by the "
             "four-case table on fresh Branch.open read-backs, both with fresh objects per transfer and with a long-lived "
             "unlocked target object interleaved with other openers' writes; bencode round trip")
LEVEL_TEXT = ("held on the sampled (source dict, destination dict, master dict, overwrite, ignore_master, selector) "
              "tuples for 10 store pairings, and on sampled 8-12 step sessions (transfer into a long-lived target object / "
              "foreign write / read) per branch-backed target; dictionaries over 5-7 names and 4-6 values per case")
RULE = ("case = one store pairing (mem>mem, mem>bzr, bzr>bzr, bzr>bound bzr, git>git, git>bzr, git>bound bzr, bzr>git, "
        "mem>git, pull/push bzr>bzr) x several rounds of random (S, D[, M], overwrite, ignore_master, selector) plus a "
        "batch of direct _reconcile_tags calls, plus one session: 8 (quick) / 12 random steps from {transfer into the "
        "long-lived unlocked target object from the primary or an in-memory source, set/delete/replace through another "
        "opener of target or master, read on the long-lived object}; an evaluation = one merge_to/pull/push execution or one direct "
        "reconcile call judged (or one long-lived read compared with a fresh one; non-trivial there = a transfer and a "
        "foreign write happened since the object's last read); non-trivial = source non-empty and at least two of the four table cases "
        "(source-only, dest-only, identical, differing) occur; distinct = distinct (pairing, S, D, M, flags)")
CASES = {"quick": 400, "thorough": 6000}
BUDGET_S = {"quick": 45, "thorough": 700}
MIN_EVALS = {"quick": 3000, "thorough": 30000}
FLOORS = {
    "contract_reconcile_tags": 2000,
    "contract_reconcile_tags_live": 100,
    "oracle_merge_to_result": 300,
    "oracle_merge_to_report": 300,
    "oracle_master_result": 20,
    "oracle_persist_roundtrip": 300,
    "oracle_bencode_roundtrip": 200,
    "oracle_git_target": 40,
    "oracle_git_source": 40,
    "oracle_annotated_source_reads_peeled": 10,
    "oracle_session_transfer": 300,
    "oracle_session_transfer_after_foreign_write": 40,
    "oracle_session_long_lived_read": 60,
}
EXHAUSTIVE = {"quick": False, "thorough": False}
RUST = []  # property anchored in Python only; Rust helpers come from the prebuilt breezy/*.so
ASSUMPTIONS = [
    "git stores: tag names restricted to valid, non-overlapping ref names and values to commits present in both "
    "repositories (lightweight tags); anything else is refused loudly or is outside the statement",
    "MemoryTags cannot be the target of a branch-backed source (no .branch attribute): pairing not driven",
    "with a bound master the reported updates/conflicts are the union of the child's and the master's tables "
    "(documented in InterTags.merge)",
    "the table oracle compares dictionaries with ==; order of updates/conflicts is not judged",
    "sessions: the long-lived target object is never locked by the caller and the other openers write strictly "
    "between its calls (no concurrency); MemoryTags.merge_to knows no master, so the master is not judged for an "
    "in-memory source",
]

KINDS = ["mem>mem", "mem>bzr", "bzr>bzr", "bzr>bound", "git>git", "git>bzr", "git>bound", "bzr>git", "mem>git", "pullpush"]

BZR_NAMES = ["v1", "rel 1.0", "ü/ñ", "日本語 タグ", " lead", "a/b", "q'\"\\", "", "x" * 70, "tab\there", "new\nline"]
GIT_NAMES = ["v1", "rel-1.0", "ü/ñ", "日本語", "a/b", "x.y", "q'q", "dir/sub/t"]
BZR_VALUES = [b"rev-1", b"rev-2", b"joe@example.com-20200101000000-abcdefghijklmnop", b"r\xc3\xa9v", b"null:",
              b"", b"a b", b"\xff\xfe\x00bin", b"git-v1:" + b"1" * 40]
BZR_FORMATS = ["2a", "pack-0.92", "1.14", "development-colo"]

_cur = {"ctx": None, "live": True}


# ------------------------------------------------------------------ the table

def table(S, D, overwrite, sel):
    """The four-case table of the statement: (result, updates, conflicts-set)."""
    result, updates, conflicts = {}, {}, set()
    for n, v in D.items():
        result[n] = v
    for n, v in S.items():
        if sel is not None and n not in sel:
            continue
        if n not in D:
            result[n] = v
            updates[n] = v
        elif D[n] == v:
            pass
        elif overwrite:
            result[n] = v
            updates[n] = v
        else:
            conflicts.add((n, v, D[n]))
    return result, updates, conflicts


def classes(S, D, sel):
    cl = set()
    for n in set(S) | set(D):
        if n in S and (sel is None or n in sel):
            if n not in D:
                cl.add("source-only")
            elif S[n] == D[n]:
                cl.add("identical")
            else:
                cl.add("differing")
        elif n in D:
            cl.add("dest-only" if n not in S else "dest-only-unselected")
    return cl


def classify(S, D, overwrite, sel, got):
    """Name the way in which `got` deviates from the table (mechanism key part)."""
    exp = table(S, D, overwrite, sel)[0]
    for n in sorted(set(exp) | set(got)):
        if exp.get(n, None) == got.get(n, None) and (n in exp) == (n in got):
            continue
        selected = n in S and (sel is None or n in sel)
        if n not in exp:
            return "extra-name" if n not in S else "unselected-copied"
        if n not in got:
            if n in D:
                return "dest-tag-lost" if not selected else "dest-tag-lost-selected"
            return "source-only-not-added"
        if n in D and not selected:
            return "dest-tag-rewritten"
        if n in D and selected and S[n] != D[n]:
            return "conflict-overwritten-without-overwrite" if not overwrite else "not-overwritten-with-overwrite"
        if n in D and selected and S[n] == D[n]:
            return "identical-changed"
        return "source-only-wrong-value"
    return "other"


def jd(d):
    if d is None:
        return None
    return {k: v.decode("latin-1") for k, v in sorted(d.items())}


def jc(c):
    return sorted([n, a.decode("latin-1"), b.decode("latin-1")] for n, a, b in c)


# ------------------------------------------------------------------ contract

def worker_init(tier):
    from breezy import tag as _tag

    orig = _tag._reconcile_tags
    if getattr(orig, "_vf_wrapped", False):
        return

    def contract(source_dict, dest_dict, overwrite, selector):
        ctx = _cur["ctx"]
        if ctx is None:
            return orig(source_dict, dest_dict, overwrite, selector)
        S, D = dict(source_dict), dict(dest_dict)
        ret = orig(source_dict, dest_dict, overwrite, selector)
        try:
            sel = None if not selector else {n for n in S if selector(n)}
            exp = table(S, D, bool(overwrite), sel)
            ctx.count("contract_reconcile_tags")
            if _cur["live"]:
                ctx.count("contract_reconcile_tags_live")
            result, updates, conflicts = ret
            det = {"S": jd(S), "D": jd(D), "overwrite": bool(overwrite), "selected": None if sel is None else sorted(sel)}
            if dict(result) != exp[0]:
                ctx.fail("reconcile:result:" + classify(S, D, bool(overwrite), sel, dict(result)),
                         "result %r != table %r" % (jd(dict(result)), jd(exp[0])), det)
            if dict(updates) != exp[1]:
                ctx.fail("reconcile:updates", "updates %r != table %r" % (jd(dict(updates)), jd(exp[1])), det)
            if set(conflicts) != exp[2] or len(list(conflicts)) != len(exp[2]):
                ctx.fail("reconcile:conflicts", "conflicts %r != table %r" % (jc(conflicts), jc(exp[2])), det)
        except Exception as e:  # a broken monitor must not change behaviour
            ctx.fail("harness:contract-error", repr(e))
        return ret

    contract._vf_wrapped = True
    contract._vf_orig = orig
    _tag._reconcile_tags = contract


# ------------------------------------------------------------------ generators

def gen_dict(rng, names, values, p=0.55):
    return {n: rng.choice(values) for n in names if rng.random() < p}


def gen_related(rng, names, values):
    """(S, D) with every table class likely present."""
    S = gen_dict(rng, names, values, rng.choice([0.3, 0.6, 0.9]))
    D = {}
    for n in names:
        r = rng.random()
        if n in S and r < 0.35:
            D[n] = S[n]
        elif r < 0.65:
            D[n] = rng.choice(values)
    return S, D


def gen_selector(rng, names):
    r = rng.random()
    if r < 0.45:
        return None, None
    sub = {n for n in names if rng.random() < 0.5}
    return (lambda n: n in sub), sub


# ------------------------------------------------------------------ fixtures

def _mkbranch(path, fmt):
    from breezy.controldir import ControlDir, format_registry

    os.makedirs(path)
    return ControlDir.create_branch_convenience(path, format=format_registry.make_controldir(fmt),
                                                force_new_tree=False)


def _mkgit(ctx, root):
    """Two local git branches in different repositories holding the same 4 commits."""
    from breezy.controldir import ControlDir, format_registry

    p1 = os.path.join(root, "g1")
    os.makedirs(p1)
    wt = ControlDir.create_standalone_workingtree(p1, format=format_registry.make_controldir("git"))
    revs = []
    for i in range(4):
        revs.append(wt.commit("c%d" % i, timestamp=1500000000 + i, timezone=0, committer="G <g@example.com>",
                              allow_pointless=True))
    p2 = os.path.join(root, "g2")
    wt.controldir.sprout(p2)
    return p1, p2, revs


class Store:
    """One tag store addressed so that fresh objects can be opened each time."""

    def __init__(self, kind, path=None, d=None):
        self.kind, self.path = kind, path
        self.mem = None
        if kind == "mem":
            from breezy.tag import MemoryTags

            self.mem = MemoryTags(dict(d or {}))

    def tags(self):
        if self.kind == "mem":
            return self.mem
        from breezy.branch import Branch

        return Branch.open(self.path).tags

    def branch(self):
        from breezy.branch import Branch

        return Branch.open(self.path)

    def install(self, ctx, d):
        """_set_tag_dict(d), then the persistence oracle on a fresh object."""
        if self.kind == "mem":
            from breezy.tag import MemoryTags

            self.mem = MemoryTags(dict(d))
            return True
        b = self.branch()
        with b.lock_write():
            b.tags._set_tag_dict(dict(d))
        got = self.read()
        ctx.count("oracle_persist_roundtrip")
        ctx.hist("persist:" + self.kind)
        if got != d:
            ctx.fail("persist:%s:roundtrip" % self.kind,
                     "_set_tag_dict then fresh Branch.open read %r, wrote %r" % (jd(got), jd(d)),
                     {"wrote": jd(d), "read": jd(got)})
            return False
        return True

    def read(self):
        if self.kind == "mem":
            return dict(self.mem.get_tag_dict())
        return dict(self.branch().tags.get_tag_dict())


def annotate(ctx, store, S, names):
    """Replace the lightweight tags `names` of a git store by annotated tag objects on the same commits."""
    from dulwich.objects import Commit, Tag

    if not names:
        return True
    try:
        b = store.branch()
        git = b.repository._git
        with b.lock_write():
            for n in names:
                ref = b"refs/tags/" + n.encode("utf-8")
                sha = git.refs[ref]
                t = Tag()
                t.name = n.encode("utf-8")
                t.object = (Commit, sha)
                t.tagger = b"T <t@example.com>"
                t.tag_time = 1500000100
                t.tag_timezone = 0
                t.message = b"annotated " + n.encode("utf-8") + b"\n"
                git.object_store.add_object(t)
                git.refs[ref] = t.id
    except Exception as e:
        ctx.hist("annotate-failed:" + type(e).__name__)
        return False
    got = store.read()
    ctx.count("oracle_annotated_source_reads_peeled")
    ctx.hist("annotated-tags", len(names))
    if got != S:
        ctx.fail("git:annotated-tag:dict-not-peeled", "source with annotated tags reads %r, commits are %r" % (jd(got), jd(S)),
                 {"S": jd(S), "annotated": names})
        return False
    return True


# ------------------------------------------------------------------ the case

def direct_contract(ctx, n):
    """Direct calls of the (wrapped) _reconcile_tags with hostile dictionaries."""
    from breezy import tag as _tag

    rng = ctx.rng
    _cur["live"] = False
    try:
        for _ in range(n):
            names = rng.sample(BZR_NAMES, rng.randint(1, 6))
            values = rng.sample(BZR_VALUES, rng.randint(1, 4))
            S, D = gen_related(rng, names, values)
            ow = rng.random() < 0.5
            selector, sub = gen_selector(rng, names)
            before = ctx.acc["fail_counts"].copy()
            ret = _tag._reconcile_tags(S, D, ow, selector)
            cl = classes(S, D, sub)
            ctx.hist("direct:classes=%d" % len(cl))
            ctx.note(("direct", jd(S), jd(D), ow, None if sub is None else sorted(sub)),
                     nontrivial=bool(S) and len(cl) >= 2,
                     sample={"mode": "direct _reconcile_tags", "S": jd(S), "D": jd(D), "overwrite": ow,
                             "selected": None if sub is None else sorted(sub), "result": jd(ret[0]),
                             "updates": jd(ret[1]), "conflicts": jc(ret[2])} if rng.random() < 0.002 else None)
            del before
    finally:
        _cur["live"] = True


def bencode_roundtrip(ctx, n):
    from breezy.bzr.tag import BasicTags

    rng = ctx.rng
    bt = BasicTags(None)
    for _ in range(n):
        names = rng.sample(BZR_NAMES, rng.randint(0, 7))
        if rng.random() < 0.5:
            names.append("".join(chr(rng.choice([rng.randint(0x20, 0x7e), rng.randint(0xa0, 0x24ff), rng.randint(0x1f300, 0x1f5ff), 0x0a, 0x00]))
                                 for _ in range(rng.randint(1, 12))))
        d = {}
        for nm in names:
            d[nm] = rng.choice(BZR_VALUES) if rng.random() < 0.7 else bytes(rng.randrange(256) for _ in range(rng.randint(0, 20)))
        ctx.count("oracle_bencode_roundtrip")
        data = bt._serialize_tag_dict(d)
        back = bt._deserialize_tag_dict(data)
        if back != d:
            ctx.fail("bencode:roundtrip", "deserialize(serialize(d)) != d", {"d": {k: repr(v) for k, v in d.items()},
                                                                           "back": {k: repr(v) for k, v in back.items()}})
        ctx.note(("bencode", sorted((k, v.hex()) for k, v in d.items())), nontrivial=len(d) >= 1)


def judge(ctx, pfx, kind, via, S, D, M, ow, ignore_master, sub, ret, exc, source, target, master, sample_p, extra=None, stale=None):
    """Judge ONE executed transfer against the four-case table on fresh read-backs.

    S, D, M are what fresh objects read from source, target and master just before the transfer.  Returns the
    target's new dictionary when it is the table's, else None.  `stale` (sessions only): what the target held right after the
    long-lived target object's previous transfer; used only to NAME a deviation (outcome == the table evaluated on
    that outdated dictionary instead of D), never to decide whether there is one.
    """
    rng = ctx.rng
    flags = {"kind": kind, "via": via, "overwrite": ow, "ignore_master": ignore_master if master is not None else None,
             "selected": None if sub is None else sorted(sub)}
    det = dict(flags, S=jd(S), D=jd(D), M=jd(M))
    if extra:
        det["session"] = extra
    cl = classes(S, D, sub)
    for c in cl:
        ctx.hist("class:" + c)
    ctx.hist("via:" + pfx + via)
    sig = (pfx, kind, via, jd(S), jd(D), jd(M), ow, flags["ignore_master"], flags["selected"], extra)
    if exc is not None:
        ctx.fail("%s%s:%s:raised:%s" % (pfx, via, kind, type(exc).__name__), repr(exc)[:400], det)
        ctx.note(sig, nontrivial=False)
        return None

    exp_res, exp_upd, exp_conf = table(S, D, ow, sub)
    touched_master = master is not None and not ignore_master
    if touched_master:
        mres, mupd, mconf = table(S, M, ow, sub)
        exp_upd = dict(exp_upd, **mupd)
        exp_conf = exp_conf | mconf
    st = table(S, stale, ow, sub) if stale is not None and stale != D else None
    if st is not None and touched_master:
        st = (st[0], dict(st[1], **mupd), st[2] | mconf)
    # -- result dictionaries through fresh objects
    good = True
    got = target.read()
    ctx.count("oracle_merge_to_result")
    if target.kind == "git":
        ctx.count("oracle_git_target")
    if source.kind == "git":
        ctx.count("oracle_git_source")
    if got != exp_res:
        good = False
        ctx.fail("%s%s:%s:result:%s" % (pfx, via, kind, "stale-destination-view"
                                        if st is not None and (got == st[0] or (got == D and st[0] == stale))
                                        else classify(S, D, ow, sub, got)),
                 "target reads %r, table says %r" % (jd(got), jd(exp_res)), dict(det, got=jd(got), expected=jd(exp_res)))
    if master is not None:
        mgot = master.read()
        ctx.count("oracle_master_result")
        want = mres if touched_master else M
        if mgot != want:
            ctx.fail("%s%s:%s:master-result:%s" % (pfx, via, kind, classify(S, M, ow, sub, mgot) if touched_master else "ignore_master-not-honoured"),
                     "master reads %r, expected %r" % (jd(mgot), jd(want)), dict(det, got=jd(mgot), expected=jd(want)))
        ctx.hist("master:" + ("updated" if touched_master else "ignored"))
    sgot = source.read()
    if sgot != S:
        ctx.fail("%s%s:%s:source-changed" % (pfx, via, kind), "source reads %r after merge, was %r" % (jd(sgot), jd(S)), det)
    # -- the report
    ctx.count("oracle_merge_to_report")
    try:
        upd, conf = ret
        upd = dict(upd)
        conf_l = list(conf)
        conf_s = set(conf_l)
    except Exception as e:
        ctx.fail("%s%s:%s:report-shape" % (pfx, via, kind), "returned %r (%r)" % (ret, e), det)
        return got if good else None
    if upd != exp_upd:
        ctx.fail("%s%s:%s:updates%s" % (pfx, via, kind, ":stale-destination-view" if st is not None and upd == st[1] else ""),
                 "updates %r, table says %r" % (jd(upd), jd(exp_upd)),
                 dict(det, got=jd(upd), expected=jd(exp_upd)))
    if conf_s != exp_conf:
        swapped = {(n, b, a) for n, a, b in conf_s} == exp_conf and bool(conf_s)
        ctx.fail("%s%s:%s:conflicts%s" % (pfx, via, kind, ":stale-destination-view" if st is not None and conf_s == st[2] else
                                          ":swapped-values" if swapped else
                                          (":missing" if exp_conf - conf_s else ":spurious")),
                 "conflicts %r, table says %r" % (jc(conf_s), jc(exp_conf)),
                 dict(det, got=jc(conf_s), expected=jc(exp_conf)))
    ctx.distinct("table-class-sets", sorted(cl))
    ctx.distinct("pairing-flags", [pfx, kind, via, ow, flags["ignore_master"], sub is not None])
    ctx.note(sig, nontrivial=bool(S) and len(cl) >= 2,
             sample=dict(det, result=jd(got), updates=jd(upd), conflicts=jc(conf_s)) if rng.random() < sample_p else None)
    return got if good else None


# ------------------------------------------------------------------ long-lived objects

def session(ctx, kind, src_kind, tgt_kind, source, target, master, revs):
    """Several transfers into ONE long-lived, caller-unlocked target Branch object, interleaved with writes
    made through other openers of the same branch (and of the source / master).

    The statement quantifies over the destination's tags at the time of the transfer: what a fresh opener reads
    just before the call is D, and the table must hold on what a fresh opener reads afterwards - whatever this
    target object did or cached earlier.  A long-lived object that is not locked must also read what a fresh one
    reads ("stored and read back unchanged").
    """
    rng = ctx.rng
    gitish = revs is not None
    if gitish:
        names = rng.sample(GIT_NAMES, 5)
        names = [n for n in names if not any(o != n and o.startswith(n + "/") for o in names)]
        svalues = tvalues = list(revs)
        if tgt_kind in ("bzr", "bound"):
            tvalues = list(revs) + rng.sample(BZR_VALUES, 2)
    else:
        names = rng.sample(BZR_NAMES, 5)
        svalues = tvalues = rng.sample(BZR_VALUES, 4)
    mvalues = svalues if tgt_kind == "git" else tvalues  # an in-memory source may hold anything the target can
    S, D = gen_related(rng, names, svalues)[0], gen_related(rng, names, tvalues)[1]
    ok = source.install(ctx, S) and target.install(ctx, D)
    if master is not None:
        ok = master.install(ctx, gen_related(rng, names, tvalues)[1]) and ok
    if not ok:
        return
    memsrc = Store("mem", d=gen_dict(rng, names, mvalues, 0.4))
    A = target.branch()             # the long-lived destination object; never locked by us
    src_obj = None if source.kind == "mem" else source.branch()   # long-lived source object
    ctx.hist("session:" + kind)
    # what happened to A since its last tag read: None | "xfer" (received a transfer) | "xfer+other" (... and then
    # somebody else wrote the branch)
    trail = None
    a_last = None   # what the target held right after A's latest transfer (naming aid only, see judge)
    steps = 8 if ctx.tier == "quick" else 12
    for _ in range(steps):
        r = rng.random()
        if r < 0.5:
            # ---- a transfer into A
            use_mem = source.kind != "mem" and rng.random() < 0.4
            src = memsrc if use_mem else source
            if rng.random() < 0.7:   # give the source something new to say
                if not src.install(ctx, gen_related(rng, names, mvalues if src is memsrc else svalues)[0]):
                    return
            S, D = src.read(), target.read()
            jmaster = master if src.kind != "mem" else None   # MemoryTags.merge_to has no notion of a master
            M = jmaster.read() if jmaster is not None else None
            ow = rng.random() < 0.5
            ignore_master = rng.random() < 0.4
            selector, sub = gen_selector(rng, names)
            via = "merge_to"
            if kind == "pullpush" and src.kind != "mem":
                via = rng.choice(["pull", "push"])
            if src.kind == "mem":
                sb = src.tags()
            elif rng.random() < 0.6:
                sb = src_obj.tags
            else:
                sb = src.tags()
            exc = ret = None
            try:
                if via == "merge_to":
                    ret = sb.merge_to(A.tags, overwrite=ow, ignore_master=ignore_master, selector=selector)
                else:
                    ov = rng.choice([True, {"tags"}, {"tags", "history"}]) if ow else rng.choice([False, set(), {"history"}])
                    if via == "pull":
                        res = A.pull(sb.branch, overwrite=ov, tag_selector=selector)
                    else:
                        res = sb.branch.push(A, overwrite=ov, tag_selector=selector)
                    ret = (getattr(res, "tag_updates", None) or {}, getattr(res, "tag_conflicts", None) or [])
            except Exception as e:
                exc = e
            pairing = "%s>%s" % (src.kind, tgt_kind)
            ctx.count("oracle_session_transfer")
            if trail == "xfer+other":
                ctx.count("oracle_session_transfer_after_foreign_write")
            ctx.hist("session-transfer:after-" + str(trail))
            now = judge(ctx, "session:", pairing, via, S, D, M, ow, ignore_master, sub, ret, exc, src, target, jmaster,
                        0.01, extra={"A-since-last-read": trail}, stale=a_last if trail is not None else None)
            if now is None:
                return   # later steps would only echo it
            trail = "xfer"
            a_last = now
        elif r < 0.85:
            # ---- somebody else (a fresh opener) writes the target, the master or replaces the whole dictionary
            st = master if (master is not None and rng.random() < 0.25) else target
            cur = st.read()
            op = rng.choice(["set", "set", "del", "install"])
            try:
                if op == "set":
                    st.branch().tags.set_tag(rng.choice(names), rng.choice(tvalues if st.kind != "git" else list(revs)))
                elif op == "del" and cur:
                    st.branch().tags.delete_tag(rng.choice(sorted(cur)))
                elif op == "install":
                    if not st.install(ctx, gen_related(rng, names, tvalues if st.kind != "git" else list(revs))[1]):
                        return
                else:
                    op = "none"
            except Exception as e:
                ctx.hist("session-other-writer-refused:%s:%s" % (st.kind, type(e).__name__))
                op = "none"
            ctx.hist("session-other-writer:" + op)
            if op != "none" and st is target and trail is not None:
                trail = "xfer+other"
        else:
            # ---- the long-lived, unlocked object reads: it must see what a fresh opener sees
            want = target.read()
            got = dict(A.tags.get_tag_dict())
            ctx.count("oracle_session_long_lived_read")
            ctx.hist("session-read:after-" + str(trail))
            if got != want:
                ctx.fail("session:long-lived-read:%s:stale" % target.kind,
                         "unlocked long-lived Branch object reads %r, a fresh opener reads %r" % (jd(got), jd(want)),
                         {"kind": kind, "A-since-last-read": trail, "got": jd(got), "fresh": jd(want)})
                return
            ctx.note(("session-read", kind, trail, jd(want)), nontrivial=trail == "xfer+other")
            trail = None


def case(ctx):
    _cur["ctx"] = ctx
    try:
        _case(ctx)
    finally:
        _cur["ctx"] = None


def _case(ctx):
    rng = ctx.rng
    kind = KINDS[ctx.index % len(KINDS)]
    direct_contract(ctx, 25 if ctx.tier == "quick" else 40)
    bencode_roundtrip(ctx, 3)
    root = ctx.tmp("c24")
    src_kind, _, tgt_kind = kind.partition(">")
    gitish = "git" in kind
    revs = None
    try:
        if gitish:
            g1, g2, revs = _mkgit(ctx, root)
        fmt = rng.choice(BZR_FORMATS)
        master = None
        if kind == "pullpush":
            src_kind, tgt_kind = "bzr", "bzr"
        if src_kind == "mem":
            source = Store("mem")
        elif src_kind == "git":
            source = Store("git", g1)
        else:
            _mkbranch(os.path.join(root, "src"), rng.choice(BZR_FORMATS))
            source = Store("bzr", os.path.join(root, "src"))
        if tgt_kind == "mem":
            target = Store("mem")
        elif tgt_kind == "git":
            target = Store("git", g2 if src_kind == "git" else g1)
        else:
            tb = _mkbranch(os.path.join(root, "tgt"), fmt)
            target = Store("bzr", os.path.join(root, "tgt"))
            if tgt_kind == "bound":
                mb = _mkbranch(os.path.join(root, "master"), rng.choice(BZR_FORMATS))
                tb.bind(mb)
                master = Store("bzr", os.path.join(root, "master"))
    except Exception as e:
        ctx.discard("fixture:%s:%s" % (kind, type(e).__name__))
    ctx.hist("kind:" + kind)

    rounds = 5 if ctx.tier == "quick" else 10
    for _ in range(rounds):
        if gitish:
            names = rng.sample(GIT_NAMES, 5)
            # 'a/b' style names: never both a name and a proper prefix of another (ref file vs directory)
            names = [n for n in names if not any(o != n and o.startswith(n + "/") for o in names)]
            svalues = tvalues = list(revs)
            if src_kind != "git" and tgt_kind != "git":
                pass
            if tgt_kind in ("bzr", "bound"):
                tvalues = list(revs) + rng.sample(BZR_VALUES, 2)
        else:
            names = rng.sample(BZR_NAMES, 5)
            svalues = tvalues = rng.sample(BZR_VALUES, 4)
        S, _D0 = gen_related(rng, names, svalues)
        _S0, D = gen_related(rng, names, tvalues)
        # correlate D with S so that 'identical' happens
        for n in names:
            if n in S and n in D and rng.random() < 0.4:
                D[n] = S[n]
        M = None
        if master is not None:
            M = dict(D) if rng.random() < 0.3 else gen_related(rng, names, tvalues)[1]
            for n in names:
                if n in S and n in M and rng.random() < 0.3:
                    M[n] = S[n]
        ow = rng.random() < 0.5
        ignore_master = rng.random() < 0.4
        selector, sub = gen_selector(rng, names)

        ok = source.install(ctx, S) and target.install(ctx, D)
        if ok and src_kind == "git" and tgt_kind != "git" and S and rng.random() < 0.5:
            ok = annotate(ctx, source, S, [n for n in sorted(S) if rng.random() < 0.5])
        if master is not None:
            ok = master.install(ctx, M) and ok
        if not ok:
            continue  # persistence already failed; the merge oracle would only echo it

        via = "merge_to"
        if kind == "pullpush":
            via = rng.choice(["pull", "push"])
        sb = source.tags()
        tt = target.tags()
        exc = ret = None
        try:
            if via == "merge_to":
                ret = sb.merge_to(tt, overwrite=ow, ignore_master=ignore_master, selector=selector)
            else:
                ov = rng.choice([True, {"tags"}, {"tags", "history"}]) if ow else rng.choice([False, set(), {"history"}])
                if via == "pull":
                    r = tt.branch.pull(sb.branch, overwrite=ov, tag_selector=selector)
                else:
                    r = sb.branch.push(tt.branch, overwrite=ov, tag_selector=selector)
                ret = (getattr(r, "tag_updates", None) or {}, getattr(r, "tag_conflicts", None) or [])
        except Exception as e:
            exc = e
        judge(ctx, "", kind, via, S, D, M, ow, ignore_master, sub, ret, exc, source, target, master, 0.02)
    if tgt_kind != "mem":
        session(ctx, kind, src_kind, tgt_kind, source, target, master, revs)
