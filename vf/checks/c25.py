"""C25 - log lists the requested history completely and consistently.

Generated multi-branch histories (merges of merges, criss-cross, ghosts on non-left parents);
the LogRevision sequences of the real _DefaultLogGenerator (request dicts from
make_log_request_dict) are compared with reference answers computed by plain set algebra over
the parents handed to commit: ancestry, left-hand history, 'merged by' groups, and - for the
per-file requests - the set of revisions whose committed inventory names themselves as the
file's last-changed revision.
"""
from vf.checks import _c02_hist as H
from vf.checks.c22 import G

ID = "C25"
LEVEL = "exploration"
TECHNIQUE = "structural oracles over the real LogRevision sequence (model ancestry / left-hand history / merge groups), differential per-file-graph vs delta matching"
LEVEL_TEXT = ("held on the generated histories for every request the generator produced; "
              "ranges are mainline ranges and single mainline revisions; per-file requests compare only the set of mainline revisions")
RULE = ("case = one generated history (quick <= 9 revisions, thorough <= 24; <= 3 branches; 2a / pack-0.92); requests = direction x levels{0,1} x "
        "limit (also with levels 2/3 and omit_merges) x mainline range (by revno spec, by revid, one-sided, single revision) x file filter x _match_using_deltas; "
        "every 4th case instead = a linear history of 14-22 (thorough -40) revisions with two files edited / renamed at random places (log batch boundaries); "
        "one evaluation = one request judged; non-trivial = the subject branch has merged revisions; distinct = (request shape, result shape)")
CASES = {"quick": 64, "thorough": 900}
BUDGET_S = {"quick": 30, "thorough": 780}
MIN_EVALS = {"quick": 600, "thorough": 40000}
FLOORS = {"quick": {"full_log": 15, "forward_vs_reverse": 15, "levels1": 30, "limit": 60, "range_levels0": 60, "range_levels1": 60,
                    "single_revision": 30, "file_mainline_sets": 12, "linear_rename_history": 4, "linear_file_log": 60,
                    "limit_with_filter_that_drops": 40, "filtered_listing": 100},
          "thorough": {"full_log": 800, "forward_vs_reverse": 800, "levels1": 1600, "limit": 4000, "range_levels0": 4000,
                       "range_levels1": 4000, "single_revision": 2000, "file_mainline_sets": 3000, "linear_rename_history": 100,
                       "linear_file_log": 1500, "limit_with_filter_that_drops": 2000, "filtered_listing": 6000, "depth2_history": 50}}
EXHAUSTIVE = {"quick": False, "thorough": False}
ASSUMPTIONS = [
    "revno strings are compared with Branch.get_revision_id_to_revno_map() (judged by C22)",
    "ranges: both ends on the mainline (given as revno specs, revids, or one-sided) and single revisions; dotted range ends are not judged",
    "per-file: only the set of mainline revisions is compared, and a mainline revision counts as listed when it or a revision it merged is listed; "
    "files whose path (own name or a parent directory) changed inside the logged ancestry are judged only for the per-file-graph matcher",
    "ghost parents are not part of the model ancestry (the generator only produces ghosts as non-left parents)",
]

NULL = b"null:"


def run_log(branch, **kw):
    from breezy import log

    rq = log._apply_log_request_defaults(log.make_log_request_dict(**kw))
    gen = log._DefaultLogGenerator(branch, **rq)
    return [(lr.rev.revision_id, lr.revno, lr.merge_depth) for lr in gen.iter_log_revisions()]


def ref_reverse_by_depth(seq, depth=0):
    """Reference: entries of `depth` are reversed as chunks, each chunk = one entry followed by the deeper entries
    that came after it; inside a chunk the deeper entries are reordered the same way (one level down)."""
    chunks, head = [], []
    for x in seq:
        if x[2] == depth:
            chunks.append([x])
        elif chunks:
            chunks[-1].append(x)
        else:
            head.append(x)
    out = []
    for c in reversed(chunks):
        out.append(c[0])
        out.extend(ref_reverse_by_depth(c[1:], depth + 1))
    if head:
        out.extend(ref_reverse_by_depth(head, depth + 1))
    return out


def groups(seq, main):
    """mainline revid -> frozenset of revisions listed under it (between it and the next depth-0 entry)."""
    out, cur = {}, None
    for r, _n, d in seq:
        if d == 0 and r in main:
            cur = r
            out[cur] = set()
        elif cur is not None:
            out[cur].add(r)
        else:
            out.setdefault(None, set()).add(r)
    return {k: frozenset(v) for k, v in out.items()}


class Judge:
    def __init__(self, ctx, hist, g, branch, tip):
        self.ctx, self.hist, self.g, self.b, self.tip = ctx, hist, g, branch, tip
        self.lh = g.lh(tip)
        self.anc = g.anc(tip)
        self.main = set(self.lh)
        self.merged = len(self.anc) > len(self.lh)
        self.M = {r: ".".join(map(str, v)) for r, v in branch.get_revision_id_to_revno_map().items()}
        # 'merged by' groups from the model: m -> anc(m) - anc(left parent of m)
        self.by = {}
        for i, m in enumerate(self.lh):
            lower = g.anc(self.lh[i - 1]) if i else set()
            self.by[m] = frozenset(g.anc(m) - lower - {m})

    def fail(self, key, msg, **d):
        d.update(format=self.hist.fmt, shapes=self.hist.shapes, log=self.hist.log[-30:],
                 parents={k.decode(): [p.decode() for p in v] for k, v in self.g.P.items() if k in self.anc})
        self.ctx.fail(key, msg, d)

    def ev(self, shape, seq):
        res = (len(seq) > 0, any(d for _r, _n, d in seq))
        self.ctx.note((shape, res), nontrivial=self.merged,
                      sample={"request": shape, "result": [(r.decode(), n, d) for r, n, d in seq[:12]]} if self.merged and self.ctx.rng.random() < 0.01 else None)
        self.ctx.distinct("request_shapes", shape)

    def common(self, seq, what, expected_set, req):
        """each expected revision exactly once, revno strings from the map."""
        ids = [r for r, _n, _d in seq]
        ok = True
        if len(ids) != len(set(ids)):
            dup = sorted({r for r in ids if ids.count(r) > 1})
            self.fail(what + ":revision-listed-twice", "%r listed more than once for %r" % (dup[:3], req), request=req)
            ok = False
        if set(ids) != set(expected_set):
            self.fail(what + ":wrong-revision-set", "request %r: missing %r, extra %r" % (
                req, sorted(set(expected_set) - set(ids))[:5], sorted(set(ids) - set(expected_set))[:5]), request=req,
                got=[r.decode() for r in ids])
            ok = False
        for r, n, _d in seq:
            if r in self.M and n != self.M[r]:
                self.fail(what + ":revno-string", "%r shown as %r, revno map says %r (request %r)" % (r, n, self.M[r], req), request=req)
                ok = False
                break
        return ok

    # ------------------------------------------------------------ whole history
    def full(self):
        ctx = self.ctx
        rev = run_log(self.b, direction="reverse", levels=0)
        ctx.count("full_log")
        self.ev(("full", "reverse", 0), rev)
        ok = self.common(rev, "full", self.anc, "reverse levels=0")
        for r, _n, d in rev:
            if (d == 0) != (r in self.main):
                self.fail("full:depth-zero-iff-mainline", "%r has merge depth %r, mainline=%s" % (r, d, r in self.main))
                ok = False
                break
        if [r for r, _n, d in rev if r in self.main] != self.lh[::-1]:
            self.fail("full:mainline-order", "mainline revisions are not newest-first left-hand history")
            ok = False
        if ok:
            gr = groups(rev, self.main)
            for m in self.lh:
                if gr.get(m) != self.by[m]:
                    self.fail("full:merged-revisions-not-under-their-merger", "under %r: %r, model %r" % (m, sorted(gr.get(m, ())), sorted(self.by[m])))
                    ok = False
                    break
        self.rev_full = rev
        # forward
        from breezy import log

        fwd = run_log(self.b, direction="forward", levels=0)
        ctx.count("forward_vs_reverse")
        self.ev(("full", "forward", 0), fwd)
        self.fwd_full = fwd
        want = ref_reverse_by_depth(list(rev))
        if fwd != want:
            self.fail("forward:not-reverse_by_depth-of-reverse", "forward %r, reverse-by-depth of reverse %r" % (fwd[:8], want[:8]))
            ok = False
        self.ctx.count("reverse_by_depth_function")
        if log.reverse_by_depth(list(rev)) != want:
            self.fail("reverse_by_depth:differs-from-definition", "log.reverse_by_depth(%r) -> %r" % (rev[:8], log.reverse_by_depth(list(rev))[:8]))
            ok = False
        if sorted(fwd) != sorted(rev):
            self.fail("forward:different-multiset", "forward and reverse list different (revision, revno, depth) multisets")
            ok = False
        elif [r for r, _n, d in fwd if d == 0] != self.lh:
            self.fail("forward:mainline-order", "forward mainline order is not oldest-first left-hand history")
            ok = False
        elif groups(fwd, self.main) != groups(rev, self.main):
            self.fail("forward:merged-revision-regrouped", "a merged revision moved to another mainline revision between reverse and forward")
            ok = False
        # levels=1
        for direction in ("reverse", "forward"):
            one = run_log(self.b, direction=direction, levels=1)
            ctx.count("levels1")
            self.ev(("full", direction, 1), one)
            want = self.lh[::-1] if direction == "reverse" else self.lh
            if [r for r, _n, _d in one] != want:
                self.fail("levels1:not-left-hand-history", "%s levels=1 lists %r, left-hand history %r" % (direction, [r for r, _n, _d in one], want))
                ok = False
            elif any(d != 0 for _r, _n, d in one) or any(n != self.M[r] for r, n, _d in one):
                self.fail("levels1:revno-or-depth", "levels=1 entry with non-zero depth or wrong revno: %r" % (one,))
                ok = False
        return ok

    # ------------------------------------------------------------ limits
    def limits(self):
        rng = self.ctx.rng
        from breezy import log

        for direction in ("reverse", "forward"):
            for levels in (0, 1):
                base = (self.rev_full if direction == "reverse" else self.fwd_full) if levels == 0 else None
                if base is None:
                    base = [(r, self.M[r], 0) for r in (self.lh[::-1] if direction == "reverse" else self.lh)]
                for k in sorted({1, 2, rng.randint(1, max(1, len(base))), len(base), len(base) + 3}):
                    got = run_log(self.b, direction=direction, levels=levels, limit=k)
                    self.ctx.count("limit")
                    self.ev(("limit", direction, levels, min(k, 3)), got)
                    if direction == "forward" and levels == 0:
                        # forward order is produced from the whole list: same prefix
                        pass
                    if got != base[:k]:
                        self.fail("limit:not-a-prefix-of-unlimited", "%s levels=%d limit=%d: %r, unlimited prefix %r" % (
                            direction, levels, k, got[:6], base[:k][:6]), limit=k, direction=direction, levels=levels)

        # limit together with filters that drop revisions after generation: deeper levels, omit_merges.
        # reference for the unlimited listing = the full listing filtered by depth / by number of recorded parents
        maxdepth = max([d for _r, _n, d in self.rev_full] or [0])
        if maxdepth >= 2:
            self.ctx.count("depth2_history")
        for direction in ("reverse", "forward"):
            full = self.rev_full if direction == "reverse" else self.fwd_full
            reqs = []
            for levels in (2, 3):
                reqs.append(({"levels": levels}, [x for x in full if x[2] < levels], "levels=%d" % levels))
            for levels in (0, 1, 2):
                want = [x for x in full if len(self.g.P[x[0]]) <= 1 and (levels == 0 or x[2] < levels)]
                reqs.append(({"levels": levels, "omit_merges": True}, want, "levels=%d omit_merges" % levels))
            for kw, want, label in reqs:
                base = run_log(self.b, direction=direction, **kw)
                self.ctx.count("filtered_listing")
                self.ev(("filtered", direction, label), base)
                dropped = len(full) - len(base)
                if base != want:
                    self.fail("filtered:%s:not-the-full-listing-filtered" % ("omit_merges" if "omit_merges" in kw else "levels"),
                              "%s %s: %r, full listing filtered %r" % (direction, label, base[:8], want[:8]), request=label)
                    continue
                for k in sorted({1, 2, rng.randint(1, max(1, len(base))), max(1, len(base) - 1), len(base)}):
                    got = run_log(self.b, direction=direction, limit=k, **kw)
                    self.ctx.count("limit")
                    if dropped:
                        self.ctx.count("limit_with_filter_that_drops")
                    self.ev(("limit-filtered", direction, label, min(k, 3), dropped > 0), got)
                    if got != base[:k]:
                        self.fail("limit:counted-before-%s-filter" % ("omit_merges" if "omit_merges" in kw else "levels"),
                                  "%s %s limit=%d: %r, unlimited prefix %r" % (direction, label, k, got[:6], base[:k][:6]),
                                  limit=k, direction=direction, request=label)

    # ------------------------------------------------------------ ranges
    def info(self, r, how):
        from breezy.revisionspec import RevisionInfo, RevisionSpec

        n = self.lh.index(r) + 1
        if how == "revno":
            return RevisionSpec.from_string(str(n)).in_history(self.b)
        if how == "revid":
            return RevisionSpec.from_string("revid:" + r.decode()).in_history(self.b)
        return RevisionInfo(self.b, n, r)

    def ranges(self):
        rng = self.ctx.rng
        g, lh = self.g, self.lh
        n = len(lh)
        pairs = set()
        for _ in range(6):
            s = rng.randint(1, n)
            e = rng.randint(s, n)
            pairs.add((s, e))
        pairs.add((1, n))
        if n > 1:
            pairs.add((2, n))
            pairs.add((1, n - 1))
        for s, e in sorted(pairs):
            how = rng.choice(["revno", "revid", "info"])
            side = rng.choice(["both", "both", "start-only", "end-only"])
            kw = {}
            if side != "end-only":
                kw["start_revision"] = self.info(lh[s - 1], how)
            else:
                s = 1
            if side != "start-only":
                kw["end_revision"] = self.info(lh[e - 1], how)
            else:
                e = n
            lower = g.anc(lh[s - 2]) if s >= 2 else set()
            want0 = g.anc(lh[e - 1]) - lower
            want1 = lh[s - 1:e]
            for direction in ("reverse", "forward"):
                req = "%s levels=0 range %d..%d (%s, %s)" % (direction, s, e, how, side)
                try:
                    got = run_log(self.b, direction=direction, levels=0, **kw)
                except Exception as ex:  # noqa: BLE001  a legal request: classify, keep judging the others
                    self.ctx.count("range_levels0")
                    self.ctx.hist("range:%s:raised:%s" % (side, type(ex).__name__))
                    if side == "start-only" and type(ex).__name__ in ("ValueError", "CommandError"):
                        # one mechanism, two symptoms: the open end (None) reaches graph.is_ancestor at the first merge
                        self.fail("range:start-only:open-end-fails-at-first-merge", "%s raised %r" % (req, ex), request=req)
                    else:
                        self.fail("range:%s:raises-%s" % (side, type(ex).__name__), "%s raised %r" % (req, ex), request=req)
                    continue
                self.ctx.count("range_levels0")
                self.ev(("range", direction, 0, side, how, s == e), got)
                if self.common(got, "range", want0, req):
                    mainline = [r for r, _n, d in got if r in self.main]
                    wm = want1[::-1] if direction == "reverse" else want1
                    if mainline != wm:
                        self.fail("range:mainline-order", "%s: mainline part %r, wanted %r" % (req, mainline, wm), request=req)
                    elif direction == "reverse":
                        sub = [x for x in self.rev_full if x[0] in want0]
                        if [x[0] for x in got] != [x[0] for x in sub]:
                            self.fail("range:order-differs-from-full-log", "%s: %r vs full log restricted %r" % (req, got[:8], sub[:8]), request=req)
                        elif [x[2] for x in got] != [x[2] for x in sub]:
                            self.fail("range:merge-depth-differs-from-full-log", "%s: depths %r vs %r" % (req, [x[2] for x in got], [x[2] for x in sub]), request=req)
                    else:
                        gg = groups(got, self.main)
                        for m in want1:
                            if gg.get(m) != self.by[m]:
                                self.fail("range:forward-merged-revision-regrouped", "%s: under %r %r, model %r" % (req, m, sorted(gg.get(m, ())), sorted(self.by[m])), request=req)
                                break
                        if any((d == 0) != (r in self.main) for r, _n, d in got):
                            self.fail("range:forward-depth-zero-iff-mainline", "%s: %r" % (req, got[:10]), request=req)
                req = "%s levels=1 range %d..%d (%s, %s)" % (direction, s, e, how, side)
                got = run_log(self.b, direction=direction, levels=1, **kw)
                self.ctx.count("range_levels1")
                self.ev(("range", direction, 1, side, how, s == e), got)
                wm = want1[::-1] if direction == "reverse" else want1
                if [r for r, _n, _d in got] != wm:
                    self.fail("range:levels1-not-mainline-slice", "%s lists %r, mainline slice %r" % (req, [r for r, _n, _d in got], wm), request=req)
                elif any(d != 0 for _r, _n, d in got) or any(nn != self.M[r] for r, nn, _d in got):
                    self.fail("range:levels1-revno-or-depth", "%s: %r" % (req, got), request=req)
                # limit inside a range (delayed graph generation path)
                k = rng.randint(1, 3)
                lim = run_log(self.b, direction=direction, levels=1, limit=k, **kw)
                self.ctx.count("limit")
                if lim != got[:k]:
                    self.fail("limit:not-a-prefix-of-unlimited:range", "%s limit=%d: %r vs %r" % (req, k, lim, got[:k]), request=req)
        # single revisions
        for r in rng.sample(lh, min(4, n)):
            how = rng.choice(["revno", "revid", "info"])
            i = self.info(r, how)
            for levels in (0, 1):
                for direction in ("reverse", "forward"):
                    got = run_log(self.b, direction=direction, levels=levels, start_revision=i, end_revision=i)
                    self.ctx.count("single_revision")
                    self.ev(("single", direction, levels, how, bool(self.by[r])), got)
                    want = ({r} | self.by[r]) if levels == 0 else {r}
                    req = "%s levels=%d -r %d..%d (%s)" % (direction, levels, lh.index(r) + 1, lh.index(r) + 1, how)
                    if self.common(got, "single", want, req):
                        if got[0][0] != r or got[0][2] != 0:
                            self.fail("single:requested-revision-not-first-at-depth-0", "%s: %r" % (req, got[:4]), request=req)

    # ------------------------------------------------------------ per file
    def files(self):
        ctx, g, b = self.ctx, self.g, self.b
        rng = ctx.rng
        repo = b.repository
        tip_tree = repo.revision_tree(self.tip)
        cands = [(p, ie.file_id) for p, ie in tip_tree.iter_entries_by_dir() if ie.kind == "file"]
        rng.shuffle(cands)
        trees = {}

        def tree(r):
            t = trees.get(r)
            if t is None:
                t = trees[r] = repo.revision_tree(r)
            return t

        def entry(r, fid):
            t = tree(r)
            try:
                p = t.id2path(fid)
            except Exception:  # noqa: BLE001
                return None
            return p, t.get_file_revision(p)

        for path, fid in cands[: (3 if ctx.tier == "quick" else 6)]:
            # versions of this file id: revisions whose own inventory names them as last-changed (recorded data)
            versions = set()
            paths = set()
            for r in self.anc:
                e = entry(r, fid)
                if e is not None:
                    paths.add(e[0])
                    if e[1] == r:
                        versions.add(r)
            model = {m for m in self.lh if m in versions or (self.by[m] & versions)}
            stable_path = len(paths) == 1
            # tree comparison follows *paths*, the per-file graph follows the *file id*: the two are only comparable for a
            # file that kept one path, was never deleted (and brought back) and whose path never held another file id
            if stable_path:
                for r in self.anc:
                    has = entry(r, fid) is not None
                    if not has and any(p in self.g.P and entry(p, fid) is not None for p in g.P[r]):
                        stable_path = False
                        ctx.count("file_deleted_somewhere_delta_not_judged")
                        break
                    if not has and tree(r).is_versioned(path):
                        stable_path = False
                        ctx.count("file_path_reused_delta_not_judged")
                        break
            results = {}
            raised = {}
            for deltas in (False, True):
                which = "delta" if deltas else "graph"
                if deltas and not stable_path:
                    ctx.count("file_delta_skipped_path_changed")
                    continue
                for levels in (0, 1):
                    for direction in ("reverse", "forward"):
                        ctx.count("file_log")
                        try:
                            got = run_log(b, direction=direction, levels=levels, specific_files=[path], _match_using_deltas=deltas)
                        except Exception as e:  # noqa: BLE001  classified: the request is legal, the file exists at the tip
                            ctx.hist("file:%s:%s:raised:%s" % (which, direction, type(e).__name__))
                            raised[(deltas, levels, direction)] = type(e).__name__
                            if direction == "forward" and raised.get((deltas, levels, "reverse")) == type(e).__name__:
                                continue  # same mechanism as the reverse request, already reported under its key
                            self.fail("file:%s:%s:raises-%s" % (which, direction, type(e).__name__),
                                      "log of %r (%s matching, %s, levels=%d) raised %r" % (path, which, direction, levels, e),
                                      path=path, file_id=fid.decode(), versions=sorted(v.decode() for v in versions))
                            continue
                        self.ev(("file", which, direction, levels, stable_path), got)
                        ids = [r for r, _n, _d in got]
                        if len(ids) != len(set(ids)):
                            self.fail("file:%s:revision-listed-twice" % which, "%r %s levels=%d" % (path, direction, levels))
                        if not set(ids) <= self.anc:
                            self.fail("file:%s:lists-revision-outside-ancestry" % which, "%r: %r" % (path, sorted(set(ids) - self.anc)))
                        results[(deltas, levels, direction)] = ({r for r in ids if r in self.main}, got)
            ctx.count("file_mainline_sets")
            ctx.hist("file:versions=%d" % min(len(versions), 5))

            def same_entry(m):
                """f's path and entry identical in m and in its left parent (a merge with no net change to f)."""
                lp = g.left_parent(m)
                if lp in (None, NULL):
                    return False
                t1, t0 = tree(m), tree(lp)
                try:
                    p1, p0 = t1.id2path(fid), t0.id2path(fid)
                except Exception:  # noqa: BLE001
                    return False
                return (p1 == p0 and t1.kind(p1) == t0.kind(p0) and t1.get_file_sha1(p1) == t0.get_file_sha1(p0)
                        and t1.is_executable(p1) == t0.is_executable(p0))

            for levels in (0, 1):
                gr = results.get((False, levels, "reverse"))
                if gr is not None:
                    ctx.count("file_graph_vs_model")
                    if gr[0] != model:
                        self.fail("file:graph:mainline-set-differs-from-model:levels%d" % levels,
                                  "%r (reverse, levels=%d): mainline listed %r, model %r; versions %r" % (
                                      path, levels, sorted(gr[0]), sorted(model), sorted(versions)), path=path, file_id=fid.decode())
                dr = results.get((True, levels, "reverse"))
                if gr is not None and dr is not None:
                    ctx.count("file_delta_vs_graph")
                    only_graph, only_delta = gr[0] - dr[0], dr[0] - gr[0]
                    # a mainline merge whose merged revisions made versions of f but which itself leaves f exactly as in its
                    # left parent (identical parallel change, change reverted inside the merged branch or by the merge) is
                    # 'touched' for the per-file graph and unchanged for tree comparison: by design, not judged
                    unexplained = {m for m in only_graph if not same_entry(m)}
                    if only_graph and not unexplained:
                        ctx.count("file_net_nil_merge_not_judged", len(only_graph))
                    ctx.hist("file:delta-vs-graph:reverse:levels%d:%s" % (levels, "equal" if not only_graph and not only_delta else (
                        "explained" if not unexplained and not only_delta else "differ")))
                    if unexplained or only_delta:
                        key = "file:delta-vs-graph:mainline-sets-differ:reverse:levels%d" % levels
                        added_in_merged = [r for r, _n, d in dr[1] if d and r not in self.main and g.left_parent(r) not in (None, NULL)
                                           and entry(g.left_parent(r), fid) is None and entry(r, fid) is not None]
                        if levels == 0 and not only_delta and added_in_merged:
                            # the walk met a merged (side-branch) revision whose left parent does not have the file yet: tree
                            # comparison sees an 'add', ends the file's life there and drops every older mainline revision
                            key = "file:delta:levels0:file-life-ended-by-merged-revision-that-lacks-it"
                        self.fail(key,
                                  "%r: only per-file graph lists %r, only delta matching lists %r; versions %r" % (
                                      path, sorted(unexplained), sorted(only_delta), sorted(versions)),
                                  path=path, file_id=fid.decode(), delta_result=[(r.decode(), n, d) for r, n, d in dr[1]],
                                  graph_result=[(r.decode(), n, d) for r, n, d in gr[1]])
                # forward: the same revisions, in reverse-by-depth order of the reverse listing
                from breezy import log

                for deltas in (False, True):
                    which = "delta" if deltas else "graph"
                    rv, fw = results.get((deltas, levels, "reverse")), results.get((deltas, levels, "forward"))
                    if rv is None or fw is None:
                        continue
                    ctx.count("file_forward_vs_reverse")
                    if sorted(x[0] for x in fw[1]) != sorted(x[0] for x in rv[1]):
                        self.fail("file:%s:forward:lists-different-revisions-than-reverse" % which,
                                  "%r levels=%d: forward %r, reverse %r" % (path, levels, [x[0] for x in fw[1]], [x[0] for x in rv[1]]),
                                  path=path, file_id=fid.decode(), versions=sorted(v.decode() for v in versions))
                    elif not deltas and fw[1] != ref_reverse_by_depth(list(rv[1])):
                        self.fail("file:graph:forward:not-reverse_by_depth-of-reverse", "%r levels=%d: forward %r, reverse %r" % (path, levels, fw[1], rv[1]))
            # limit after filtering (per-file graph, reverse)
            base = results.get((False, 0, "reverse"))
            if base and base[1]:
                k = rng.randint(1, len(base[1]))
                lim = run_log(b, direction="reverse", levels=0, specific_files=[path], _match_using_deltas=False, limit=k)
                ctx.count("limit")
                base1 = results.get((False, 1, "reverse"))
                if base1 and base1[1]:
                    k1 = rng.randint(1, len(base1[1]))
                    lim1 = run_log(b, direction="reverse", levels=1, specific_files=[path], _match_using_deltas=False, limit=k1)
                    ctx.count("limit")
                    if lim1 != base1[1][:k1]:
                        self.fail("limit:applied-before-file-filter", "%r levels=1 limit=%d: %r, filtered prefix %r" % (path, k1, lim1, base1[1][:k1]))
                if lim != base[1][:k]:
                    self.fail("limit:applied-before-file-filter", "%r limit=%d: %r, filtered prefix %r" % (path, k, lim, base[1][:k]))


def linear_renames(ctx):
    """Long linear history in which the logged files are edited and renamed (name / directory) at random places, so that
    renames fall on both sides of the log's batch boundaries (9, 13, 19 ... revisions, newest first): tree-comparison
    matching has to carry the path set across batches.  In a linear history with only file renames (the file's own name or
    parent id changes, so every rename is a version) both matchers must list exactly the file's versions."""
    import os

    from vf.gen import make_tree

    rng = ctx.rng
    fmt = "2a" if ctx.index % 2 else "pack-0.92"
    root = ctx.tmp("lin")
    wt = make_tree(os.path.join(root, "t"), fmt)
    base = wt.basedir
    os.mkdir(os.path.join(base, "d"))
    os.mkdir(os.path.join(base, "e"))
    tracked = {b"id-a": "a", b"id-b": "d/b"}
    for fid, p in tracked.items():
        with open(os.path.join(base, p), "wb") as f:
            f.write(b"start %s\n" % fid)
    with open(os.path.join(base, "noise"), "wb") as f:
        f.write(b"0\n")
    wt.add(["d", "e", "a", "d/b", "noise"], ids=[b"id-d", b"id-e", b"id-a", b"id-b", b"id-noise"])
    n = rng.randint(14, 22) if ctx.tier == "quick" else rng.randint(14, 40)
    # make sure a rename sits in the newest batch and an edit under the old name in an older one
    forced = {n - rng.randint(1, 7): ("rename", b"id-a"), rng.randint(2, max(2, n - 11)): ("edit", b"id-a")}
    revs, touched = [], {fid: set() for fid in tracked}
    # disjoint name pools: a path never holds two different file ids.  Tree comparison follows *paths*; a path handed from one
    # file to another (even within one commit: a -> c, b -> a) makes it follow the other file - path/id ambiguity, not judged
    names = {b"id-a": ["a", "a2", "a c.txt", "x y"], b"id-b": ["b", "b2", "b.h", "zz"]}
    for i in range(1, n + 1):
        rid = b"lin-%d" % i
        if i > 1:
            acts = [forced[i]] if i in forced else []
            for fid in sorted(tracked):
                k = rng.random()
                if k < 0.22:
                    acts.append(("edit", fid))
                elif k < 0.34:
                    acts.append(("rename", fid))
            for what, fid in acts:
                p = tracked[fid]
                if what == "edit":
                    with open(os.path.join(base, p), "ab") as f:
                        f.write(b"edit %d\n" % i)
                    touched[fid].add(rid)
                else:
                    for _ in range(8):
                        d = rng.choice(["", "d/", "e/"])
                        q = d + rng.choice(names[fid])
                        if q != p and not os.path.lexists(os.path.join(base, q)):
                            wt.rename_one(p, q)
                            tracked[fid] = q
                            touched[fid].add(rid)
                            break
            with open(os.path.join(base, "noise"), "ab") as f:
                f.write(b"%d\n" % i)
        else:
            for fid in tracked:
                touched[fid].add(rid)
        wt.commit("linear %d" % i, rev_id=rid, timestamp=1500000000 + i, timezone=0, committer="L <l@example.com>")
        revs.append(rid)
    ctx.hist("linear:revisions", n)
    b = wt.branch
    with b.lock_read():
        repo = b.repository
        allv_recorded = set()
        for fid in sorted(tracked):
            path = tracked[fid]
            # versions from the recorded inventories (the workload's own bookkeeping must agree: plain data)
            versions = set()
            for r in revs:
                t = repo.revision_tree(r)
                if t.get_file_revision(t.id2path(fid)) == r:
                    versions.add(r)
            # (the workload's own list of edits is only a superset: a rename there and back inside one commit is no version)
            if not versions <= touched[fid]:
                ctx.fail("linear:version-recorded-without-a-change", "%r: versions %r, edited/renamed in %r" % (path, sorted(versions), sorted(touched[fid])))
                return
            allv_recorded |= versions
            want = {"reverse": [r for r in revs[::-1] if r in versions], "forward": [r for r in revs if r in versions]}
            for deltas in (False, True):
                which = "delta" if deltas else "graph"
                for levels in (0, 1):
                    for direction in ("reverse", "forward"):
                        ctx.count("linear_file_log")
                        try:
                            got = [r for r, _n, _d in run_log(b, direction=direction, levels=levels, specific_files=[path], _match_using_deltas=deltas)]
                        except Exception as e:  # noqa: BLE001
                            ctx.fail("linear:file:%s:%s:raises-%s" % (which, direction, type(e).__name__), "log of %r raised %r" % (path, e),
                                     {"format": fmt, "revisions": n, "versions": sorted(v.decode() for v in versions)})
                            continue
                        renamed_across = len(versions) > 0
                        ctx.note(("linear", which, direction, levels, len(got) == len(versions)), nontrivial=renamed_across)
                        if got != want[direction]:
                            missing = [r.decode() for r in want[direction] if r not in got]
                            extra = [r.decode() for r in got if r not in versions]
                            key = "linear:file:%s:%s:%s" % (which, direction, "loses-revisions-of-renamed-file" if missing and not extra else "wrong-revisions")
                            ctx.fail(key, "%r (%s matching, %s, levels=%d, %d revisions): missing %r extra %r" % (path, which, direction, levels, n, missing, extra),
                                     {"format": fmt, "revisions": n, "path": path, "file_id": fid.decode(), "versions": sorted(v.decode() for v in versions),
                                      "got": [r.decode() for r in got]})
                        elif direction == "reverse" and got:
                            k = rng.randint(1, len(got))
                            lim = [r for r, _n, _d in run_log(b, direction=direction, levels=levels, specific_files=[path], _match_using_deltas=deltas, limit=k)]
                            ctx.count("limit")
                            if lim != got[:k]:
                                ctx.fail("limit:applied-before-file-filter", "%r %s limit=%d: %r vs %r" % (path, which, k, lim, got[:k]))
        # two paths at once (always tree comparison)
        both = sorted(tracked.values())
        allv = allv_recorded
        ctx.count("linear_file_log")
        try:
            got = [r for r, _n, _d in run_log(b, direction="reverse", levels=0, specific_files=both, _match_using_deltas=True)]
        except Exception as e:  # noqa: BLE001
            ctx.fail("linear:file:delta:reverse:raises-%s" % type(e).__name__, "log of %r raised %r" % (both, e))
        else:
            if got != [r for r in revs[::-1] if r in allv]:
                ctx.fail("linear:file:delta:two-paths:wrong-revisions", "%r: %r, wanted %r" % (both, got, [r for r in revs[::-1] if r in allv]))


def case(ctx):
    if ctx.index % 4 == 1:
        ctx.count("linear_rename_history")
        linear_renames(ctx)
        return
    from breezy.branch import Branch

    rng = ctx.rng
    fmt = "2a" if ctx.index % 3 else "pack-0.92"
    quick = ctx.tier == "quick"
    nrevs = rng.randint(5, 9) if quick else rng.randint(8, 24)
    mix = {"plain": 30, "branch": 14, "merge": 32, "crisscross": 10, "parallel": 5, "cherrypick": 6, "resurrect": 3}
    try:
        hist = H.build(ctx, rng, fmt, nrevs=nrevs, tier=ctx.tier, light=True, ghosts=(ctx.index % 4 == 0), tags=False, nbranches=3, mix=mix)
    except BaseException as e:
        if isinstance(e, (KeyboardInterrupt, SystemExit)):
            raise
        ctx.hist("build-error:" + type(e).__name__)
        ctx.discard("history construction failed: " + type(e).__name__)
    for s, k in hist.shapes.items():
        ctx.hist("shape:" + s, k)
    ctx.hist("format:" + fmt)
    g = G({r: list(p) for r, p in hist.parents.items()})
    names = sorted(hist.trees)

    def score(nm):
        t = Branch.open(hist.trees[nm]).last_revision()
        return len(g.anc(t)) - len(g.lh(t))

    order = sorted(names, key=lambda nm: (-score(nm), nm))
    subjects = order[:1] if quick else order[:2]
    for subject in subjects:
        b = Branch.open(hist.trees[subject])
        ctx.info = {"format": fmt, "subject": subject}
        with b.lock_read():
            tip = b.last_revision()
            for r in g.anc(tip):
                if list(b.repository.get_revision(r).parent_ids) != g.P[r]:
                    ctx.fail("model:recorded-parents-differ", "%r" % (r,))
                    return
            j = Judge(ctx, hist, g, b, tip)
            if not j.full():
                return
            j.limits()
            j.ranges()
            j.files()
