"""C11 - adding files versions exactly the intended paths.

Reference-predicate monitor: a random directory layout (files, directories, symlinks, ignore files with
basename / extension / dir/* / **/x / !x patterns, nested .bzr and .git control directories, recorded text
conflicts with their .BASE/.THIS/.OTHER helper files, some paths already versioned) is built in a bzr 2a
tree or a git tree; the real `smart_add(paths, recurse)` is called with random explicit paths (ignored ones,
ones inside ignored directories, helper files, directories, the tree root); the set of versioned paths
before and after (read from a freshly opened tree) is compared with the predicate of the property statement.
"Ignored" is taken from `tree.is_ignored(path)` of the tree under test (pattern semantics are C48's job).
"""
import os
import shutil
import stat

from vf import boot, gen

ID = "C11"
LEVEL = "exploration"
TECHNIQUE = "reference predicate over generated layouts vs set of versioned paths before/after the real smart_add()"
LEVEL_TEXT = ("for every generated layout and (explicit paths, recurse) choice, each path on disk was classified by the statement's rule as must-be-versioned, "
              "must-stay-unversioned or not-determined, and compared with what a freshly opened tree reports after smart_add; already versioned entries (ids) and the disk must be unchanged")
RULE = ("case = one random layout x 3 (quick) / 4 (thorough) independent smart_add calls, each on a fresh copy; bzr 2a and git trees alternate; "
        "one evaluation = one smart_add call judged; non-trivial = the call had at least one must and one must-not path; "
        "distinct = format + recurse + multiset of (class, reason) over the layout's unversioned paths + kinds of explicit paths")
CASES = {"quick": 32, "thorough": 3000}
BUDGET_S = {"quick": 45, "thorough": 700}
MIN_EVALS = {"quick": 45, "thorough": 4000}
FLOORS = {"judged:bzr": 20, "judged:git": 20, "must_checked": 100, "mustnot_checked": 100, "unchanged_checked": 60,
          "reason:ignored": 15, "reason:inside-ignored-dir": 4, "reason:nested-tree": 5, "reason:conflict-helper": 5, "explicit_ignored_path": 5}
ASSUMPTIONS = [
    "'ignored' = tree.is_ignored(path) is not None, asked of a fresh tree object on the same layout",
    "conflict helper files = path + .BASE/.THIS/.OTHER for every text conflict the tree itself reports (tree.conflicts())",
    "a directory that is already versioned (or becomes versioned because an explicit path lies below it) and whose name matches an ignore pattern: "
    "whether recursion continues below it is not determined by the statement -> not judged",
    "git: directories are not versioned objects; only files and symlinks are judged",
    "explicit paths inside nested trees, below symlinks or below non-directories are not generated",
]

FILES = ["a", "b.c", "x", "junk", "m.o", "keep.o", "n.log", "README", "conf.BASE", "t~"]
DIRS = ["d1", "d2", "build", "sub"]
PATS = {
    "2a": ["junk", "*.o", "d1/*", "**/x", "!keep.o", "build", "*.log", "sub/d2", "./README", "RE:.*\\.c"],
    "git": ["junk", "*.o", "d1/*", "**/x", "!keep.o", "build/", "*.log", "/sub/d2", "/README", "*.c"],
}
_templates = {}


def _template(fmt):
    if fmt not in _templates:
        d = boot.fresh_dir("c11tpl")
        p = os.path.join(d, "nb")
        wt = gen.make_tree(p, fmt)
        with open(os.path.join(p, "inner.txt"), "w") as f:
            f.write("inner\n")
        wt.smart_add([p])
        wt.commit("inner", committer="C <c@example.com>", timestamp=1500000000, timezone=0)
        _templates[fmt] = p
    return _templates[fmt]


def _w(path, data):
    with open(path, "w") as f:
        f.write(data)


def _disk(t, ctl, nested):
    """relpath -> kind for everything on disk below t (own control dir excluded; nested trees are leaves)."""
    out = {}
    for dp, dns, fns in os.walk(t):
        rel = os.path.relpath(dp, t)
        rel = "" if rel == "." else rel
        if rel == "":
            dns[:] = [d for d in dns if d != ctl]
        for d in list(dns):
            r = (rel + "/" + d) if rel else d
            if os.path.islink(os.path.join(dp, d)):
                out[r] = "symlink"
                dns.remove(d)
            else:
                out[r] = "directory"
                if r in nested:
                    dns.remove(d)
        for f in fns:
            r = (rel + "/" + f) if rel else f
            st = os.lstat(os.path.join(dp, f))
            out[r] = "symlink" if stat.S_ISLNK(st.st_mode) else "file" if stat.S_ISREG(st.st_mode) else "other"
    return out


def _layout(rng, fmt, t):
    """Build the layout; returns (nested roots, log)."""
    ctl = ".git" if fmt == "git" else ".bzr"
    wt = gen.make_tree(t, fmt)
    log = []
    dirs = [""]
    made = []
    for _ in range(rng.randint(8, 22)):
        parent = rng.choice(dirs)
        if parent.count("/") >= 2 and parent:
            parent = rng.choice(dirs[:3])
        isdir = rng.random() < 0.35
        name = rng.choice(DIRS if isdir else FILES)
        rel = (parent + "/" + name) if parent else name
        ap = os.path.join(t, rel)
        if os.path.lexists(ap):
            continue
        if isdir:
            os.mkdir(ap)
            dirs.append(rel)
        elif rng.random() < 0.12:
            os.symlink(rng.choice(["zz", "../x", "nowhere", "."]), ap)
        else:
            _w(ap, "content of %s\n" % rel)
        made.append(rel)
    # ignore rules
    pats = rng.sample(PATS[fmt], rng.randint(1, 5))
    ign_name = ".gitignore" if fmt == "git" else ".bzrignore"
    _w(os.path.join(t, ign_name), "\n".join(pats) + "\n")
    log.append({"ignore": pats})
    if fmt == "git" and len(dirs) > 1 and rng.random() < 0.4:
        d = rng.choice(dirs[1:])
        sub = rng.sample(["a", "!m.o", "x", "*.c"], 2)
        _w(os.path.join(t, d, ".gitignore"), "\n".join(sub) + "\n")
        log.append({"ignore-in": d, "patterns": sub})
    # some paths already versioned (parents first)
    pre = []
    for rel in sorted(made + [ign_name], key=lambda x: (x.count("/"), x)):
        par = os.path.dirname(rel)
        if rng.random() < 0.35 and (par == "" or par in pre):
            pre.append(rel)
    if pre:
        if fmt == "git":
            files = [r for r in pre if not os.path.isdir(os.path.join(t, r)) or os.path.islink(os.path.join(t, r))]
            if files:
                wt.add(files)
        else:
            wt.add(pre)
        if rng.random() < 0.6:
            try:
                wt.commit("base", committer="C <c@example.com>", timestamp=1500000000, timezone=0)
            except Exception:
                pass
    log.append({"versioned-before": pre})
    # recorded text conflicts with helper files on disk
    nconf = 0
    cands = [r for r in pre if os.path.isfile(os.path.join(t, r)) and not os.path.islink(os.path.join(t, r)) and r != ign_name]
    if cands and rng.random() < 0.6:
        from breezy.conflicts import ConflictList

        if fmt == "git":
            from breezy.git.workingtree import TextConflict
        else:
            from breezy.bzr.conflicts import TextConflict
        chosen = rng.sample(cands, min(len(cands), rng.randint(1, 2)))
        for r in chosen:
            for suf in (".BASE", ".THIS", ".OTHER"):
                if not os.path.lexists(os.path.join(t, r + suf)):
                    _w(os.path.join(t, r + suf), "helper %s\n" % suf)
        try:
            wt.set_conflicts(ConflictList([TextConflict(r) for r in chosen]) if fmt != "git" else [TextConflict(r) for r in chosen])
            nconf = len(chosen)
            log.append({"conflicts": chosen})
        except Exception as e:  # e.g. git tree without a commit yet: the helper files stay, as ordinary files
            log.append({"conflicts-refused": type(e).__name__})
    # helper-looking files without a conflict record (must be treated as ordinary files)
    if rng.random() < 0.3:
        p = rng.choice(dirs)
        ap = os.path.join(t, p, "plain.THIS")
        if not os.path.lexists(ap):
            _w(ap, "not a helper\n")
    # nested trees
    nested = []
    for _ in range(rng.choice([0, 1, 1, 2])):
        p = rng.choice(dirs)
        rel = (p + "/" if p else "") + rng.choice(["nb", "nested", "build"])
        ap = os.path.join(t, rel)
        if os.path.lexists(ap):
            continue
        f2 = rng.choice(["2a", "git"])
        shutil.copytree(_template(f2), ap, symlinks=True)
        nested.append(rel)
        log.append({"nested": rel, "fmt": f2})
    return nested, log, nconf


def _ancestors(p):
    out = []
    while "/" in p:
        p = p.rsplit("/", 1)[0]
        out.append(p)
    return out


RANK = {"mustnot": 0, "dontcare": 1, "must": 2}


def _predicate(fmt, disk, V0, ign, helpers, nested, explicit, recurse):
    """path -> (class, reason) for every unversioned path on disk, by the rule of the statement."""
    st = {}

    def put(p, cls, reason):
        if p in V0:
            return
        old = st.get(p)
        if old is None or RANK[cls] > RANK[old[0]] or (cls == old[0] and old[1] == "not-selected"):
            st[p] = (cls, reason)

    # default: nothing else becomes versioned
    for p in disk:
        if any(p == n or p.startswith(n + "/") for n in nested):
            put(p, "mustnot", "nested-tree" if p in nested else "inside-nested-tree")
        else:
            put(p, "mustnot", "not-selected")
    closure = set()
    for e in explicit:
        if e == "":
            continue
        if e not in V0:
            closure.add(e)
            put(e, "must", "explicit")
        for a in _ancestors(e):
            if a not in V0:
                closure.add(a)
                put(a, "must", "parent-of-explicit")
    children = {}
    for p in disk:
        children.setdefault(os.path.dirname(p), []).append(p)

    def below(d, reason):
        for c in children.get(d, ()):
            put(c, "mustnot", reason)
            if disk[c] == "directory":
                below(c, reason)

    def walk(d, dontcare):
        for c in sorted(children.get(d, ())):
            if c in nested:
                if c not in closure:
                    put(c, "mustnot", "nested-tree")
                continue  # never descended
            isdir = disk[c] == "directory"
            if c in V0 or c in closure:
                if isdir:
                    walk(c, dontcare or ign(c))
                continue
            if c in helpers:
                put(c, "mustnot", "conflict-helper")
                if isdir:
                    below(c, "inside-conflict-helper")
                continue
            if ign(c):
                put(c, "mustnot", "ignored")
                if isdir:
                    below(c, "inside-ignored-dir")
                continue
            if disk[c] == "other":
                continue
            put(c, "dontcare" if dontcare else "must", "recursed")
            if isdir:
                walk(c, dontcare)

    if recurse:
        for e in explicit:
            if e == "" or disk.get(e) == "directory":
                if e in nested:
                    continue
                walk(e, False)
    return st


def case(ctx):
    from breezy.workingtree import WorkingTree

    rng = ctx.rng
    fmt = "git" if ctx.index % 2 else "2a"
    git = fmt == "git"
    ctl = ".git" if git else ".bzr"
    root = ctx.tmp("c11")
    lay = os.path.join(root, "L")
    os.makedirs(lay)
    t0 = os.path.join(lay, "t")
    try:
        nested, log, nconf = _layout(rng, fmt, t0)
    except (KeyboardInterrupt, SystemExit):
        raise
    except Exception as e:
        ctx.discard("layout construction: %s" % type(e).__name__)
    disk = _disk(t0, ctl, nested)
    ncalls = 3 if ctx.tier == "quick" else 4
    for call in range(ncalls):
        run = os.path.join(root, "R%d" % call)
        shutil.copytree(lay, run, symlinks=True)
        t = os.path.join(run, "t")
        wt = WorkingTree.open(t)
        with wt.lock_read():
            V0 = {}
            for p, ie in wt.iter_entries_by_dir():
                if p == "" or (git and ie.kind == "directory"):
                    continue
                V0[p] = None if git else ie.file_id
            helpers = set()
            for c in wt.conflicts():
                if getattr(c, "typestring", "") == "text conflict":
                    helpers.update(c.path + suf for suf in (".BASE", ".THIS", ".OTHER"))
            cache = {}

            def ign(p, _wt=wt, _c=cache):
                if p not in _c:
                    _c[p] = _wt.is_ignored(p) is not None
                return _c[p]
            # candidates for explicit naming
            ok = []
            for p, k in disk.items():
                if any(p == n or p.startswith(n + "/") for n in nested) and p not in nested:
                    continue
                if any(disk.get(a) != "directory" for a in _ancestors(p)):
                    continue
                if k == "other":
                    continue
                ok.append(p)
            ok.sort()
            r = rng.random()
            if r < 0.3 or not ok:
                explicit = [""]
            else:
                explicit = sorted(set(rng.choice(ok) for _ in range(rng.randint(1, 3))))
                if rng.random() < 0.15:
                    explicit.append("")
            recurse = rng.random() < 0.7
            # make ignore verdicts available for every path the predicate may ask about, while the tree is locked
            for p in disk:
                if not any(p == n or p.startswith(n + "/") for n in nested):
                    try:
                        ign(p)
                    except Exception:
                        cache[p] = False
            pred = _predicate(fmt, disk, set(V0) | ({a for v in V0 for a in _ancestors(v)} if git else set()), ign, helpers, set(nested), explicit, recurse)
        from vf import observe

        before = observe.snap_disk(t)
        prog = {"fmt": fmt, "layout": log, "disk": {p: k for p, k in sorted(disk.items())}, "explicit": explicit, "recurse": recurse}
        ctx.info["call"] = prog
        for e in explicit:
            if e and e not in V0 and cache.get(e):
                ctx.count("explicit_ignored_path")
            ctx.hist("explicit:%s" % ("root" if e == "" else "versioned" if e in V0 else disk.get(e, "?") + (":ignored" if cache.get(e) else "")))
        wt = WorkingTree.open(t)
        warmed = rng.random() < 0.6
        if warmed:
            # the tree object has answered queries before (its caches are populated) - as in any long-lived session
            with wt.lock_read():
                for q in sorted(disk)[:40]:
                    try:
                        wt.is_versioned(q)
                    except Exception:
                        pass
        added, ignored_map = wt.smart_add([os.path.join(t, e) if e else t for e in explicit], recurse=recurse)
        # what the object that did the add says afterwards must be what a fresh open says
        probe = set()
        same = {}
        with wt.lock_read():
            for q, _ie in wt.iter_entries_by_dir():
                if q:
                    probe.add(q)
                    probe.update(_ancestors(q))
            probe.update(q for q in disk if not any(q == n or q.startswith(n + "/") for n in nested))
            for q in sorted(probe):
                try:
                    same[q] = bool(wt.is_versioned(q))
                except Exception as e:
                    same[q] = "raised:" + type(e).__name__
        del wt
        wt2 = WorkingTree.open(t)
        with wt2.lock_read():
            ctx.count("same_object_view_compared" + (":warmed" if warmed else ""))
            for q in sorted(probe):
                try:
                    fresh = bool(wt2.is_versioned(q))
                except Exception as e:
                    fresh = "raised:" + type(e).__name__
                if same[q] != fresh:
                    ctx.fail("same-object:is_versioned-differs-from-fresh-open", "after smart_add the adding tree object says is_versioned(%r)=%r, a fresh open says %r [%s tree, explicit=%r, warmed=%s]" % (
                        q, same[q], fresh, fmt, explicit, warmed), dict(prog, path=q))
                    break
        with wt2.lock_read():
            V1 = {}
            for p, ie in wt2.iter_entries_by_dir():
                if p == "" or (git and ie.kind == "directory"):
                    continue
                V1[p] = None if git else ie.file_id
        ctx.count("judged:%s" % ("git" if git else "bzr"))

        def fail(key, msg, path):
            ctx.fail(key, "%s: %r [%s tree, explicit=%r, recurse=%s]" % (msg, path, fmt, explicit, recurse), dict(prog, path=path, newly_versioned=sorted(set(V1) - set(V0))))

        # already versioned entries unchanged
        for p, fid in V0.items():
            ctx.count("unchanged_checked")
            if p not in V1:
                fail("versioned-entry-lost", "an already versioned path is no longer versioned", p)
            elif V1[p] != fid:
                fail("versioned-entry-id-changed", "an already versioned path changed its file id", p)
        nmust = nmustnot = 0
        classes = []
        for p, (cls, reason) in sorted(pred.items()):
            if git and disk.get(p) == "directory":
                continue
            classes.append((cls, reason))
            if cls == "must":
                nmust += 1
                ctx.count("must_checked")
                if p not in V1:
                    fail("intended-path-not-versioned:%s" % reason, "the rule requires this path to be versioned (%s) but it is not" % reason, p)
            elif cls == "mustnot":
                nmustnot += 1
                ctx.count("mustnot_checked")
                ctx.count("reason:%s" % reason)
                if p in V1:
                    fail("forbidden-path-versioned:%s" % reason, "the rule forbids versioning this path (%s) but it became versioned" % reason, p)
            else:
                ctx.hist("not-determined:%s" % reason)
        for p in V1:
            if p not in V0 and p not in pred and any(p.startswith(n + "/") for n in nested):
                ctx.count("reason:inside-nested-tree")
                fail("forbidden-path-versioned:inside-nested-tree", "a path inside a nested tree became versioned", p)
            elif p not in V0 and p not in pred:
                fail("phantom-path-versioned", "a path that is not on disk (or inside the control directory) became versioned", p)
        if observe.snap_disk(t) != before:
            fail("disk-changed", "smart_add changed files on disk", None)
        classes.sort()
        ctx.note((fmt, recurse, classes, sorted(("root" if e == "" else "v" if e in V0 else disk.get(e, "?")) for e in explicit)),
                 nontrivial=nmust > 0 and nmustnot > 0,
                 sample={"fmt": fmt, "explicit": explicit, "recurse": recurse, "must": nmust, "mustnot": nmustnot,
                         "newly_versioned": sorted(set(V1) - set(V0))[:10]} if call == 0 else None)
        boot.rm(run)
