"""Reference semantics of the file commands of a fast-import stream (git-fast-import(1), 'filemodify', 'filedelete',
'filerename', 'filecopy', 'filedeleteall'), applied to a plain path map.  Used by C44 to decide, per commit, whether the
*stream* describes the source tree (exporter's duty) and whether the *imported* tree is what the stream describes
(importer's duty).  ~60 lines, no breezy code involved; the stream is tokenised by the python-fastimport library.

Tree = {path: (kind, bytes|target|None, exec)}; directories are explicit entries (created implicitly for parents).
"""
import io
import stat


def _under(tree, path):
    pre = path + "/"
    return [p for p in tree if p.startswith(pre)]


def _make_parents(tree, path, notes):
    parts = path.split("/")[:-1]
    cur = ""
    for seg in parts:
        cur = seg if not cur else cur + "/" + seg
        v = tree.get(cur)
        if v is None:
            tree[cur] = ("directory", None, False)
        elif v[0] != "directory":
            # git: a file in the way of a needed directory is replaced by the directory
            notes.append(("implicit-replace-nondir-by-dir", cur))
            tree[cur] = ("directory", None, False)


def _remove(tree, path):
    for p in _under(tree, path):
        del tree[p]
    tree.pop(path, None)


def apply_commands(base, file_cmds):
    """Apply parsed file commands (python-fastimport command objects) sequentially.  Returns (tree, notes);
    notes = [(what, path)] for things git would reject or that are suspicious (rename of a missing path...)."""
    tree = dict(base)
    notes = []
    occupied = set()  # paths (re)created by an earlier command of this commit
    moved_away = set()  # old paths of what an earlier rename of this commit moved elsewhere
    for fc in file_cmds:
        name = fc.name
        if name == b"filemodify":
            path = fc.path.decode("utf-8")
            mode = fc.mode
            _make_parents(tree, path, notes)
            if stat.S_ISDIR(mode) or mode == 0o040000:
                if path in tree and tree[path][0] != "directory":
                    _remove(tree, path)
                tree.setdefault(path, ("directory", None, False))
                if tree[path][0] != "directory":
                    tree[path] = ("directory", None, False)
                continue
            if path in tree and tree[path][0] == "directory":
                _remove(tree, path)  # git: the directory is replaced by the file
            occupied.add(path)
            if stat.S_ISLNK(mode):
                tree[path] = ("symlink", (fc.data or b"").decode("utf-8"), False)
            else:
                if fc.data is None:
                    notes.append(("modify-by-dataref-not-modelled", path))
                tree[path] = ("file", fc.data or b"", bool(mode & 0o100))
        elif name == b"filedelete":
            path = fc.path.decode("utf-8")
            if path not in tree:
                # git ignores it; if the path was moved by an earlier rename of the commit the command addresses it by its old name
                notes.append(("delete-by-old-path-after-rename" if path in moved_away else "delete-of-missing-path", path))
            elif path in occupied:
                # the commit itself has just put something there (a rename onto the path, a new file): deleting it again
                # cannot be what the revision means
                notes.append(("delete-of-path-reoccupied-in-same-commit", path))
            _remove(tree, path)
            occupied.discard(path)
        elif name in (b"filerename", b"filecopy"):
            src = (fc.old_path if name == b"filerename" else fc.src_path).decode("utf-8")
            dst = (fc.new_path if name == b"filerename" else fc.dest_path).decode("utf-8")
            if src not in tree:
                notes.append(("%s-of-missing-path" % ("rename" if name == b"filerename" else "copy"), src))
                continue
            if dst == src:
                continue
            if dst.startswith(src + "/"):
                notes.append(("rename-into-itself", src + " -> " + dst))
            moved = {src: tree[src]}
            for p in _under(tree, src):
                moved[p] = tree[p]
            if name == b"filerename":
                moved_away.update(moved)
                _remove(tree, src)
            if dst in occupied or any(q in occupied for q in _under(tree, dst)):
                # the commit itself has just put something at (or below) the destination: it is wiped out by this rename
                notes.append(("rename-replaces-path-occupied-in-same-commit", dst))
            _remove(tree, dst)  # git: an existing destination is completely replaced
            _make_parents(tree, dst, notes)
            for p, v in moved.items():
                tree[dst + p[len(src):]] = v
            occupied.add(dst)
        elif name == b"filedeleteall":
            tree.clear()
        else:
            notes.append(("unknown-file-command", repr(name)))
    return tree, notes


def prune_empty_dirs(tree):
    """Directories without any file/symlink below them are not representable in a plain stream: drop them."""
    out = dict(tree)
    changed = True
    while changed:
        changed = False
        for p in [p for p, v in out.items() if v[0] == "directory"]:
            if not any(q.startswith(p + "/") for q in out):
                del out[p]
                changed = True
    return out


def parse_commits(data):
    """[(mark, from_mark|None, [merge marks], [file commands], CommitCommand)] in stream order, plus resets {ref: mark}."""
    from fastimport import commands, parser

    commits, resets = [], {}
    for cmd in parser.ImportParser(io.BytesIO(data)).iter_commands():
        if isinstance(cmd, commands.CommitCommand):
            frm = cmd.from_.lstrip(b":") if cmd.from_ else None
            commits.append((cmd.mark, frm, [m.lstrip(b":") for m in (cmd.merges or [])], list(cmd.iter_files()), cmd))
        elif isinstance(cmd, commands.ResetCommand):
            if cmd.from_ is not None:
                resets[cmd.ref] = cmd.from_.lstrip(b":")
    return commits, resets
