"""C49 helpers: value grammar, and the reference matcher for location sections.

The reference is written from `brz help configuration` (sections "Section headers",
"Option policies", "Section local options", "locations.conf") and the docstrings of
LocationStack / BranchStack:

  * a section matches a location when its name, split on '/', is a component-wise prefix
    of the location, each component compared as a glob ('*', '?'); trailing slashes do not
    count; a 'file://' section name stands for its local path;
  * matching sections are tried from the one with most path components to the one with
    fewest; the order of sections with the SAME number of components is not documented
    (=> such lookups are not judged when it would matter);
  * a section with a true `ignore_parents` ends the search: less specific sections (and the
    no-name section) are not consulted; the section itself still is;
  * `<opt>:policy = appendpath` appends the unmatched part of the location; `norecurse`
    makes the value apply to the exact location only; `{relpath}` is the unmatched part,
    `{basename}` its last component;
  * after the location sections come branch.conf (BranchStack only) and [DEFAULT] of breezy.conf.
"""
import hashlib
import itertools
import re
from urllib.parse import quote, unquote

# ------------------------------------------------------------------ values (monitor A)

BREAKS_OTHER = "\r\x0b\x0c\x1c\x1d\x1e\x85\u2028\u2029"
WORDS = ["a", "b", "value", "John Doe <jdoe@isp.com>", "lp:~vila/bzr", "sftp://example.com/location", "/usr/bin/vim -f",
         "when-required", "True", "1,2,3", "x=y", "é", "日本語", "😀", "naïve café", "C:\\Program Files\\x"]
ATOMS = ['"', "'", ",", "#", "=", " ", "\t", "{", "}", "[", "]", "\\", "%", "$", ";", ":", "!", "&", "|", "(", ")",
         '"""', "'''", "''", '""', ", ", " #", "# ", " = ", "{foo}", "{vf_opt0}", "{relpath}", "{a.b}", "{", "}}", "%(x)s",
         "\u00e9", "\u0301", "\u00a0", "\u2003", "\u3000", "\ufeff", "\u00ad", "\x7f", "\x1f", "\x01"]


def gen_simple_value(rng):
    return rng.choice(["plain", "two words", "x=1", "lp:~u/p", "é", "a,b", "keep 'this'", "1"])


CLASSES = ["plain", "edge-uspace", "both-quotes", "multiline", "otherbreak"]
SQ = chr(39)
DQ = chr(34)


def _raw_value(rng, want):
    r = rng.random()
    if want == "plain" and r < 0.04:
        return ""
    if want == "plain" and r < 0.10:
        return rng.choice(WORDS)
    n = rng.choice([1, 2, 2, 3, 4, 6, 9])
    parts = []
    for _ in range(n):
        parts.append(rng.choice(ATOMS) if rng.random() < 0.6 else rng.choice(WORDS))
    if rng.random() < 0.25:
        parts.insert(0, rng.choice([" ", "  ", "\t", DQ, SQ, "#", ",", "=", "["]))
    if rng.random() < 0.25:
        parts.append(rng.choice([" ", "  ", "\t", DQ, SQ, "#", ",", "\\", "="]))
    if want == "edge-uspace":
        sp = rng.choice(["\u00a0", "\u2003", "\u3000", "\u2009", "\u1680"])
        if rng.random() < 0.5:
            parts.insert(0, sp)
        else:
            parts.append(sp)
    elif want == "both-quotes":
        parts.insert(rng.randrange(len(parts) + 1), rng.choice([SQ, SQ * 2, SQ * 3, "it" + SQ + "s"]))
        parts.insert(rng.randrange(len(parts) + 1), rng.choice([DQ, DQ * 2, DQ * 3, "say " + DQ + "hi" + DQ]))
    elif want == "multiline":
        for _ in range(rng.choice([1, 1, 2])):
            parts.insert(rng.randrange(len(parts) + 1), "\n")
    elif want == "otherbreak":
        parts.insert(rng.randrange(len(parts) + 1), rng.choice(list(BREAKS_OTHER) + ["\r\n"]))
    return "".join(parts)


def gen_value(rng, want="plain"):
    """A hostile option value of input class `want` (see value_class)."""
    for _ in range(60):
        v = _raw_value(rng, want)
        if value_class(v) == want:
            return v
    return {"plain": "a, b # c", "edge-uspace": "\u00a0x", "both-quotes": "it" + SQ + "s " + DQ + "q" + DQ,
            "multiline": "a\nb", "otherbreak": "a\rb"}[want]


def value_class(v):
    if any(c in v for c in BREAKS_OTHER):
        return "otherbreak"
    if "\n" in v:
        return "multiline"
    if "'" in v and '"' in v:
        return "both-quotes"       # the only single-line values that need triple quotes in the file
    if v and ((v[0].isspace() and v[0] not in " \t") or (v[-1].isspace() and v[-1] not in " \t")):
        return "edge-uspace"
    return "plain"


def representable(v):
    """Can the ini syntax hold this value at all?  (one line, and a quoting style exists)"""
    if value_class(v) in ("multiline", "otherbreak"):
        return False
    return not ('"""' in v and "'''" in v)


_ref_re = re.compile(r"\{[^\d\W](?:\.\w|-\w|\w)*\}")


def has_ref(v):
    return _ref_re.search(v) is not None


def has_local_ref(v):
    """Section-local options that locations.conf expands by design."""
    return any(x in v for x in ("{relpath}", "{basename}", "{branchname}"))


# ------------------------------------------------------------------ locations (monitor B)

COMPS = ["home", "u", "src", "proj", "a b", "é", "x1", "x2", "trunk", "branches", "v1.0"]
TRUE_WORDS = ["true", "True", "yes", "1", "on"]
FALSE_WORDS = ["false", "no", "0", "off"]


def gen_location(rng, root):
    return root + "/" + "/".join(rng.choice(COMPS) for _ in range(rng.choice([1, 2, 3])))


def _globbed(rng, comp):
    k = rng.random()
    if k < 0.35:
        return "*"
    if k < 0.55 and len(comp) > 1:
        return comp[:-1] + "?"
    if k < 0.7 and len(comp) > 1:
        return comp[0] + "*"
    if k < 0.8:
        return "*" + comp[-1]
    if k < 0.9:
        return "?" * len(comp)
    return comp[:1] + "*" + comp[-1:]


def gen_sections(rng, root, opts):
    """A model of locations.conf: {'spine': [...], 'root': root, 'noname': {...}, 'sections': [...]}"""
    if root == "/srv" and rng.random() < 0.25:
        root = rng.choice(["http://example.com", "bzr+ssh://host.example/repos"])
    depth = rng.choice([2, 3, 4, 5])
    spine = [rng.choice(COMPS) for _ in range(depth)]
    names = []

    def add(n):
        if n not in names and n.strip() == n:
            names.append(n)

    nsec = rng.choice([2, 3, 4, 5, 7])
    tries = 0
    while len(names) < nsec and tries < 40:
        tries += 1
        k = rng.random()
        d = rng.randrange(0, depth + 1)
        comps = spine[:d]
        if k < 0.35:
            pass                                      # plain prefix of the spine
        elif k < 0.65 and comps:
            comps = list(comps)
            for _ in range(rng.choice([1, 1, 2])):
                i = rng.randrange(len(comps))
                comps[i] = _globbed(rng, spine[i])
        elif k < 0.78 and comps:
            comps = list(comps)
            comps[rng.randrange(len(comps))] = rng.choice(COMPS)   # sibling (may or may not still match)
        elif k < 0.86 and comps:
            comps = list(comps)
            comps[-1] = comps[-1][:-1] or "h"         # string prefix of a component: must not match
        elif k < 0.93:
            comps = list(comps) + [rng.choice(COMPS)]  # deeper than some locations
        n = "/".join([root] + comps)
        if rng.random() < 0.15:
            n += "/"
        if root.startswith("/") and rng.random() < 0.12:
            n = "file://" + quote(n)
        add(n)
    sections = []
    for i, n in enumerate(names):
        s = {"name": n, "opts": {}, "policy": {}, "ignore_parents": None}
        for o in opts:
            if rng.random() < 0.55:
                k = rng.random()
                if k < 0.5:
                    s["opts"][o] = "S%d_%s" % (i, o)
                elif k < 0.7:
                    s["opts"][o] = rng.choice(["sftp://h.example/S%d_%s", "lp:~u/S%d_%s", "/abs/S%d_%s", "S%d_%s/"]) % (i, o)
                    s["policy"][o] = "appendpath"
                elif k < 0.8:
                    s["opts"][o] = "N%d_%s" % (i, o)
                    s["policy"][o] = "norecurse"
                elif k < 0.85:
                    s["opts"][o] = "S%d_%s" % (i, o)
                    s["policy"][o] = "none"
                else:
                    s["opts"][o] = rng.choice(["T%d_%s_{relpath}", "lp:~u/{basename}/T%d_%s", "T%d_%s:{relpath}:{basename}"]).replace(
                        "%d", str(i), 1).replace("%s", o, 1)
        if rng.random() < 0.22:
            s["ignore_parents"] = rng.choice(TRUE_WORDS) if rng.random() < 0.75 else rng.choice(FALSE_WORDS)
        sections.append(s)
    rng.shuffle(sections)
    noname = {o: "TOP_" + o for o in opts if rng.random() < 0.3} if rng.random() < 0.25 else {}
    return {"root": root, "spine": spine, "noname": noname, "sections": sections}


def render_locations(model):
    out = ["# generated locations.conf"]
    for o, v in model["noname"].items():
        out.append("%s = %s" % (o, v))
    for s in model["sections"]:
        out.append("[%s]" % s["name"])
        if s["ignore_parents"] is not None:
            out.append("ignore_parents = %s" % s["ignore_parents"])
        for o, v in s["opts"].items():
            out.append("%s = %s" % (o, v))
            if o in s["policy"]:
                out.append("%s:policy = %s" % (o, s["policy"][o]))
    return "\n".join(out) + "\n"


def model_id(model):
    return hashlib.blake2b(render_locations(model).encode("utf-8"), digest_size=8).hexdigest()


def gen_location_for(rng, model, root, plain=False):
    root = model["root"]
    spine = model["spine"]
    d = rng.randrange(1 if plain else 0, len(spine) + 1)
    comps = list(spine[:d])
    k = rng.random()
    if plain:
        if k < 0.4:
            comps += [rng.choice(COMPS) for _ in range(rng.choice([1, 2]))]
        return "/".join([root] + comps)
    if k < 0.35:
        comps += [rng.choice(COMPS) for _ in range(rng.choice([1, 2, 3]))]
    elif k < 0.5 and comps:
        comps[rng.randrange(len(comps))] = rng.choice(COMPS)
    elif k < 0.56 and comps:
        comps[-1] = comps[-1] + "x"
    loc = "/".join([root] + comps)
    if rng.random() < 0.15:
        loc += "/"
    if root.startswith("/") and rng.random() < 0.15:
        loc = "file://" + quote(loc)
    return loc


# ---- reference

def _local(name):
    if name.startswith("file://"):
        return unquote(name[len("file://"):])
    return name


def glob1(s, p):
    """Glob one path component: '*' any run, '?' one character."""
    memo = {}

    def go(i, j):
        if (i, j) in memo:
            return memo[(i, j)]
        if j == len(p):
            r = i == len(s)
        elif p[j] == "*":
            r = any(go(k, j + 1) for k in range(i, len(s) + 1))
        elif i < len(s) and (p[j] == "?" or p[j] == s[i]):
            r = go(i + 1, j + 1)
        else:
            r = False
        memo[(i, j)] = r
        return r

    return go(0, 0)


def _parts(path):
    return _local(path).rstrip("/").split("/")


def matching(model, loc):
    """[(nparts, section, extra_path)] for the sections that match loc."""
    lp = _parts(loc)
    out = []
    for s in model["sections"]:
        sp = _parts(s["name"])
        if len(sp) <= len(lp) and all(glob1(a, b) for a, b in zip(lp, sp)):
            out.append((len(sp), s, "/".join(lp[len(sp):])))
    return out


def _expand(s, o, extra, flags):
    v = s["opts"][o]
    pol = s["policy"].get(o)
    if pol == "appendpath":
        if extra:
            v = v.rstrip("/") + "/" + extra
        elif "appendpath-exact-location-altered" in flags:
            v = v.rstrip("/") + "/"
    return v.replace("{relpath}", extra).replace("{basename}", extra.rsplit("/", 1)[-1])


def _truthy(w):
    return w in TRUE_WORDS


class Expect:
    def __init__(self):
        self.accept = set()
        self.variants = {}
        self.unjudged = None
        self.source = "fallback"
        self.nmatch = 0
        self.matching = []
        self.tags = set()

    def describe(self):
        return {"accept": sorted(map(repr, self.accept)), "unjudged": self.unjudged, "source": self.source,
                "matching": self.matching, "variants": {k: sorted(map(repr, v)) for k, v in self.variants.items()}}


def _resolve(model, ms, o, fallbacks, flags, exp=None):
    """Returns ('value', v, source) or ('tie', None, None).  flags name deviations from the documented reading."""
    levels = {}
    for n, s, extra in ms:
        levels.setdefault(n, []).append((s, extra))
    definer_levels = 0
    for n in sorted(levels, reverse=True):
        secs = levels[n]
        carriers = [s for s, _ in secs if s["ignore_parents"] is not None and _truthy(s["ignore_parents"])]
        definers = []
        for s, extra in secs:
            if o not in s["opts"]:
                continue
            if s["policy"].get(o) == "norecurse" and extra and "norecurse-policy-ignored" not in flags:
                continue
            if s in carriers and "ignore_parents-section-itself-skipped" in flags:
                continue
            definers.append((s, extra))
        vals = {_expand(s, o, extra, flags) for s, extra in definers}
        if carriers:
            if exp is not None:
                exp.tags.add("ignore_parents")
            if not definers:
                return "value", _fallback(fallbacks, o), "fallback"
            if len(secs) > 1 and not (len(definers) == 1 and definers[0][0] in carriers and len(carriers) == 1):
                return "tie", vals | {_fallback(fallbacks, o)}, None
            if "ignore_parents-section-itself-skipped" in flags and len(secs) > 1:
                return "tie", vals | {_fallback(fallbacks, o)}, None
            return "value", vals.pop(), "section"
        if definers:
            if len(vals) > 1:
                return "tie", vals, None
            s, extra = definers[0]
            if exp is not None:
                if s["policy"].get(o) == "appendpath":
                    exp.tags.add("appendpath")
                if "{" in s["opts"][o]:
                    exp.tags.add("relpath")
                lower = [m for m in ms if m[0] < n and o in m[1]["opts"]]
                if lower:
                    exp.tags.add("specificity")
            return "value", vals.pop(), "section"
    if o in model["noname"]:
        return "value", model["noname"][o], "noname"
    return "value", _fallback(fallbacks, o), "fallback"


def _fallback(fallbacks, o):
    for fb in fallbacks:
        if o in fb:
            return fb[o]
    return None


FLAGS = ["norecurse-policy-ignored", "ignore_parents-section-itself-skipped", "appendpath-exact-location-altered"]


def ref_lookup(model, loc, o, fallbacks):
    exp = Expect()
    ms = matching(model, loc)
    exp.nmatch = len(ms)
    exp.matching = [s["name"] for _, s, _ in sorted(ms, key=lambda m: -m[0])]
    kind, v, src = _resolve(model, ms, o, fallbacks, (), exp)
    if kind == "tie":
        exp.unjudged = "same-length-tie"
        return exp
    exp.accept = {v}
    exp.source = src
    # name the mechanism when the observed value equals a known deviation from the documented reading
    for r in (1, 2, 3):
        for combo in itertools.combinations(FLAGS, r):
            k2, v2, _ = _resolve(model, ms, o, fallbacks, combo)
            if k2 == "value" and v2 != v:
                exp.variants.setdefault("+".join(combo), set()).add(v2)
            elif k2 == "tie":     # the deviation makes the outcome depend on undocumented order: any of these
                exp.variants.setdefault("+".join(combo), set()).update(v2 - {v})
    return exp
