"""C31 helpers: scratch layout, the real `brz serve` server-side stack over a spying
backing transport, audit hook, BzrDir-open hook, outside-canary snapshots.

Nothing here re-implements path translation: the spy asks the *real* LocalTransport where a
relpath resolves (its own abspath), and the judge only compares normalised absolute local
paths with the served directory.
"""
import hashlib
import os
import posixpath
import shutil
import sys

SECRET = b"C31CANARY-secret-5b1e9d\n"
LEAK_OTHER = b"C31CANARY-other-77aa01\n"
LEAK_EVIL = b"C31CANARY-evil-c0ffee\n"
LEAK_HOME = b"C31CANARY-home-0dd17y\n"
CANARIES = (b"C31CANARY-",)
OUTSIDE_NAME = "ZQ7OUTSIDEONLY"          # appears only in names of things outside served/
PREFIX = "vflog+"


class State:
    """What the monitors see for the request currently being dispatched."""

    def __init__(self):
        self.active = False
        self.outer = None
        self.served = None
        self.events = []        # (op, relpath, resolved-abs-path | None, error | None)
        self.audit = []         # (event, abs path)
        self.opens = []         # transport.base of every BzrDir open that passed the jail hook
        self.unknown_ops = {}
        self.op_budget = 6000   # transport calls per request; beyond it the spy aborts the request (bounds runaway recursive copies)
        self.aborted = False

    def begin(self):
        self.events, self.audit, self.opens = [], [], []
        self.aborted = False
        self.active = True

    def end(self):
        self.active = False


STATE = State()


class OpBudgetExceeded(Exception):
    """Raised by the spy to end a request that keeps issuing transport calls (e.g. `move . sub`)."""

# ----------------------------------------------------------------------------- spy on the local transport

# method name -> indices of positional args that are relpaths resolved by the local transport
PATH_ARGS = {
    "has": (0,), "get": (0,), "get_bytes": (0,), "readv": (0,), "_readv": (0,),
    "put_file": (0,), "put_bytes": (0,), "put_file_non_atomic": (0,), "put_bytes_non_atomic": (0,),
    "append_file": (0,), "append_bytes": (0,), "mkdir": (0,), "delete": (0,), "delete_tree": (0,),
    "rmdir": (0,), "rename": (0, 1), "move": (0, 1), "copy": (0, 1), "copy_tree": (0, 1),
    "stat": (0,), "list_dir": (0,), "lock_read": (0,), "lock_write": (0,), "open_write_stream": (0,),
    "clone": (0,), "local_abspath": (0,), "readlink": (0,), "symlink": (1,), "hardlink": (0, 1),
    "abspath": (0,), "copy_to": (), "has_any": (), "create_prefix": (), "ensure_base": (),
    "iter_files_recursive": (), "copy_tree_to_transport": (),
}
KW_NAMES = {0: ("relpath", "rel_from", "offset", "from_relpath", "source"),
            1: ("rel_to", "to_relpath", "link_name")}
NONPATH = {
    "is_readonly", "listable", "recommended_page_size", "external_url", "_can_roundtrip_unix_modebits",
    "relpath", "get_segment_parameters", "set_segment_parameter", "disconnect", "_reuse_for",
    "_redirected_to", "get_smart_medium", "_get_segment_parameters", "_report_activity",
}
LIST_PATH_ARGS = {"copy_to": 0, "has_any": 0}
MUTATING_OPS = {"put_file", "put_bytes", "put_file_non_atomic", "put_bytes_non_atomic", "append_file", "append_bytes", "mkdir",
                "delete", "delete_tree", "rmdir", "rename", "move", "copy", "copy_tree", "open_write_stream", "symlink",
                "hardlink", "lock_write", "copy_to", "create_prefix", "ensure_base", "copy_tree_to_transport"}


def norm_local(path):
    if isinstance(path, bytes):
        path = os.fsdecode(path)
    if not os.path.isabs(path):
        path = os.path.join(os.getcwd(), path)
    return posixpath.normpath(path)


def inside(path, root):
    return path == root or path.startswith(root + "/")


def _resolve(real, rel):
    """Where does the real local transport say `rel` lives?  (abs local path, error)"""
    from breezy import urlutils

    try:
        url = real.abspath(rel)
    except BaseException as e:  # the operation will fail the same way; nothing touched
        return None, type(e).__name__
    try:
        return norm_local(urlutils.local_path_from_url(url)), None
    except BaseException as e:
        return None, "url:%s" % type(e).__name__


class _Spy:
    """Stands in for TransportDecorator._decorated: every call that reaches the real
    LocalTransport is recorded with the absolute local path it resolves to."""

    def __init__(self, real):
        object.__setattr__(self, "_real", real)

    def __setattr__(self, name, value):
        setattr(object.__getattribute__(self, "_real"), name, value)

    def __getattr__(self, name):
        real = object.__getattribute__(self, "_real")
        attr = getattr(real, name)
        if not callable(attr) or name in NONPATH or not STATE.active:
            return attr
        idx = PATH_ARGS.get(name)
        if idx is None:
            STATE.unknown_ops[name] = STATE.unknown_ops.get(name, 0) + 1
            return attr

        def call(*a, **kw):
            if STATE.active:
                if len(STATE.events) > STATE.op_budget:
                    STATE.aborted = True
                    raise OpBudgetExceeded("vf C31: transport-call budget of one request exhausted")
                rels = []
                for i in idx:
                    if i < len(a):
                        rels.append(a[i])
                    else:
                        for k in KW_NAMES.get(i, ()):
                            if k in kw:
                                rels.append(kw[k])
                                break
                if name in LIST_PATH_ARGS and a:
                    try:
                        rels.extend(list(a[LIST_PATH_ARGS[name]]))
                    except TypeError:
                        pass
                if not idx and name not in LIST_PATH_ARGS:
                    rels.append(".")
                for rel in rels:
                    if rel is None:
                        rel = "."
                    p, err = _resolve(real, rel)
                    STATE.events.append((name, rel, p, err))
            return attr(*a, **kw)

        return call


_registered = []


def spy_class():
    """The vflog+ decorator class (created after boot so dromedary is imported from the venv)."""
    if _registered:
        return _registered[0]
    from dromedary import decorator, register_transport

    class SpyTransport(decorator.TransportDecorator):
        def __init__(self, url, _decorated=None, _from_transport=None):
            if isinstance(_decorated, _Spy):
                _decorated = object.__getattribute__(_decorated, "_real")
            super().__init__(url, _decorated, _from_transport)
            self._decorated = _Spy(self._decorated)

        @classmethod
        def _get_url_prefix(cls):
            return PREFIX

        def external_url(self):
            # what the undecorated transport would say; `brz serve` derives base_path from it
            return object.__getattribute__(self._decorated, "_real").external_url()

    register_transport(PREFIX, SpyTransport)
    _registered.append(SpyTransport)
    return SpyTransport


# ----------------------------------------------------------------------------- audit hook (python-level fs access)

_AUDIT = {
    "open": (0,), "os.listdir": (0,), "os.scandir": (0,), "os.mkdir": (0,), "os.rename": (0, 1),
    "os.remove": (0,), "os.rmdir": (0,), "os.chmod": (0,), "os.chown": (0,), "os.link": (0, 1),
    "os.symlink": (1,), "os.truncate": (0,), "os.utime": (0,), "os.chdir": (0,), "os.walk": (0,),
    "shutil.copyfile": (0, 1), "shutil.copytree": (0, 1), "shutil.move": (0, 1), "shutil.rmtree": (0,),
    "shutil.copymode": (0, 1), "shutil.copystat": (0, 1), "glob.glob": (0,), "os.mkfifo": (0,),
    "os.setxattr": (0,), "os.getxattr": (0,), "os.listxattr": (0,), "os.removexattr": (0,),
    "pathlib.Path.glob": (0,), "os.readlink": (0,),
}
_audit_installed = []


def install_audit():
    if _audit_installed:
        return
    _audit_installed.append(True)

    def hook(event, args):
        if not STATE.active:
            return
        idx = _AUDIT.get(event)
        if idx is None:
            return
        for i in idx:
            if i >= len(args):
                continue
            p = args[i]
            if isinstance(p, (str, bytes)) or hasattr(p, "__fspath__"):
                try:
                    p = os.fspath(p)
                    STATE.audit.append((event, norm_local(p)))
                except Exception:
                    pass

    sys.addaudithook(hook)


# ----------------------------------------------------------------------------- BzrDir opens that pass the jail

_open_hook_installed = []


def install_open_hook():
    """A second pre_open hook, installed after request._install_hook's one: it only runs for
    opens the jail hook let through."""
    if _open_hook_installed:
        return
    _open_hook_installed.append(True)
    from breezy.bzr import bzrdir
    from breezy.bzr.smart import request  # noqa: F401  (installs the jail hook first)

    def seen(transport):
        if STATE.active:
            STATE.opens.append(transport.base)

    bzrdir.BzrDir.hooks.install_named_hook("pre_open", seen, "vf C31 open monitor")


# ----------------------------------------------------------------------------- scratch layout

def _fmt():
    from breezy import controldir

    return controldir.format_registry.make_controldir("2a")


def build_template(dst):
    """outer/{secret.txt, other/<branch>, served-evil/, home-out/u, ZQ7.../, served/{...}}"""
    from breezy.controldir import ControlDir
    from breezy.bzr.branch import BranchReferenceFormat

    outer = os.path.join(dst, "outer")
    served = os.path.join(outer, "served")
    os.makedirs(served)

    def put(rel, data):
        p = os.path.join(outer, rel)
        os.makedirs(os.path.dirname(p), exist_ok=True)
        with open(p, "wb") as f:
            f.write(data)

    def branch(rel, leak=None, revs=1):
        p = os.path.join(outer, rel)
        os.makedirs(p, exist_ok=True)
        b = ControlDir.create_branch_convenience(p, format=_fmt())
        wt = b.controldir.open_workingtree()
        if leak is not None:
            put(rel + "/leak.txt", leak)
            wt.add(["leak.txt"])
        put(rel + "/a.txt", b"a\n")
        wt.add(["a.txt"])
        for i in range(revs):
            put(rel + "/a.txt", b"a%d\n" % i)
            wt.commit("r%d" % i, rev_id=("rev-%s-%d" % (os.path.basename(rel), i)).encode())
        return b

    put("secret.txt", SECRET)
    put(OUTSIDE_NAME + "-dir/" + OUTSIDE_NAME + ".txt", SECRET)
    put("home-out/u/priv.txt", LEAK_HOME)
    branch("other", LEAK_OTHER, 2)
    put("other/" + OUTSIDE_NAME + "-in-other.txt", LEAK_OTHER)
    put("served-evil/evil.txt", LEAK_EVIL)       # sibling whose name has served/'s name as a prefix
    put("served-evil/.bzr/branch-format", b"Bazaar-NG meta directory, format 1\n")

    put("served/file", b"hello served file\n")
    put("served/dir/sub/f", b"nested\n")
    put("served/home/u/inhome.txt", b"in home\n")
    put("served/~/x", b"literal tilde dir\n")
    put("served/secret.txt", b"the inside file that shares the canary's name\n")
    branch("served/branch", None, 2)
    branch("served/branch-evil", None, 1)
    branch("served/stk_abs")
    branch("served/stk_rel")
    branch("served/stk_enc")
    branch("served/stk_path")
    for n in ("ref_abs", "ref_rel"):
        os.makedirs(os.path.join(served, n))
        cd = ControlDir.create(os.path.join(served, n), format=_fmt())
        BranchReferenceFormat().initialize(cd, target_branch=ControlDir.open(os.path.join(served, "branch")).open_branch())
    # shared repository with a branch inside
    os.makedirs(os.path.join(served, "repo"))
    _fmt().initialize(os.path.join(served, "repo")).create_repository(shared=True)
    ControlDir.create_branch_convenience(os.path.join(served, "repo", "b1"), format=_fmt())
    return outer


def _write_abs_configs(outer, served):
    """Config that must name this copy's absolute paths (stacked-on / reference locations)."""
    from breezy import urlutils

    other_url = urlutils.local_path_to_url(os.path.join(outer, "other"))
    for name, value in (("stk_abs", other_url), ("stk_rel", "../../other"), ("stk_enc", "..%2F..%2Fother"),
                        ("stk_path", os.path.join(outer, "other"))):
        with open(os.path.join(served, name, ".bzr", "branch", "branch.conf"), "a") as f:
            f.write("stacked_on_location = %s\n" % value)
    with open(os.path.join(served, "ref_abs", ".bzr", "branch", "location"), "w") as f:
        f.write(other_url)
    with open(os.path.join(served, "ref_rel", ".bzr", "branch", "location"), "w") as f:
        f.write("../../other")


def instantiate(template_outer, dst):
    """Copy the template into dst/outer; returns (outer, served)."""
    outer = os.path.join(dst, "outer")
    shutil.copytree(template_outer, outer, symlinks=True)
    served = os.path.join(outer, "served")
    _write_abs_configs(outer, served)
    os.makedirs(os.path.join(dst, "cwd"), exist_ok=True)
    return outer, served


def restore_served(template_outer, served):
    """Put served/ back to the template state (after destructive requests)."""
    shutil.rmtree(served, ignore_errors=True)
    shutil.copytree(os.path.join(template_outer, "served"), served, symlinks=True)
    _write_abs_configs(os.path.dirname(served), served)


def outside_quick(outer):
    """Cheap signature of everything under outer/ except served/ (names, sizes, mtimes)."""
    sig = [("", os.lstat(outer).st_mtime_ns)]      # outer/ itself: a temp file created and removed beside served/ shows here
    for dp, dns, fns in os.walk(outer):
        if dp == outer and "served" in dns:
            dns.remove("served")
        dns.sort()
        for n in sorted(fns) + [d + "/" for d in dns]:
            p = os.path.join(dp, n.rstrip("/"))
            try:
                st = os.lstat(p)
                sig.append((p[len(outer):], st.st_mode, st.st_size if not n.endswith("/") else 0, st.st_mtime_ns))
            except OSError:
                sig.append((p[len(outer):], None))
    return sig


def outside_full(outer):
    """Content hash of everything under outer/ except served/."""
    h = {}
    for dp, dns, fns in os.walk(outer):
        if dp == outer and "served" in dns:
            dns.remove("served")
        for d in dns:
            h[os.path.join(dp, d)[len(outer):] + "/"] = "dir"
        for n in fns:
            p = os.path.join(dp, n)
            try:
                if os.path.islink(p):
                    h[p[len(outer):]] = "link:" + os.readlink(p)
                else:
                    with open(p, "rb") as f:
                        h[p[len(outer):]] = hashlib.sha1(f.read()).hexdigest()
            except OSError as e:
                h[p[len(outer):]] = "err:%s" % type(e).__name__
    return h


# ----------------------------------------------------------------------------- the real server-side stack

class Stack:
    """What `brz serve --directory=served [--allow-writes]` builds (cmd_serve.run + serve_bzr's
    BzrServerFactory._make_backing_transport), over the spying transport."""

    def __init__(self, served, allow_writes=True, chroot=True):
        from breezy import transport as _mod_transport
        from breezy import urlutils
        from breezy.bzr.smart import server as sserver

        spy_class()
        url = PREFIX + urlutils.local_path_to_url(served)      # location_to_url(directory)
        if not allow_writes:
            url = "readonly+" + url                             # cmd_serve: not allow_writes
        t = _mod_transport.get_transport_from_url(url)
        self.base_transport = t
        self.factory = None
        if chroot:
            # real userdir_expander; real get_base_path, asked about the same URL without the spy prefix
            # (the only thing the spy prefix would change is that base_path could not be derived).
            def base_path(tr):
                return sserver._local_path_for_transport(
                    _mod_transport.get_transport_from_url(tr.base.replace(PREFIX, "", 1)))

            self.factory = sserver.BzrServerFactory(get_base_path=base_path)
            self.factory._make_backing_transport(t)
            self.transport = self.factory.transport
            self.base_path = self.factory.base_path
        else:
            self.transport = t
            self.base_path = None

    def close(self):
        if self.factory is not None:
            try:
                self.factory.tear_down()
            except Exception:
                pass
            self.factory = None
